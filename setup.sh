#!/bin/sh
# Offline setup: warm the build caches (dependencies of the MIR dump and of the native replay driver).
# Everything is rebuilt from /repo's working tree by the checks themselves; this only saves time on the first check.
set -e
cd "$(dirname "$0")"
export CARGO_NET_OFFLINE=true
mkdir -p .cache evidence replays
python3-vt - <<'PY'
import sys; sys.path.insert(0, '.')
from lib import common
common.load_mir('on'); common.load_mir('off')
common.build_nlrun('dev'); common.build_nlrun('release')
print('setup ok')
PY
# warm the Kani build of the harness crate (dependencies of noulith compiled by Kani's pinned toolchain)
cp /repo/Cargo.lock kani/Cargo.lock 2>/dev/null || true
(cd kani && timeout 900 cargo kani -Z stubbing --harness clamped_index_matches_python --target-dir ../.cache/kani-target >/dev/null 2>&1) || echo "kani warm-up did not finish (checks will build it themselves)"
