#!/bin/sh
# Offline setup: warm the build caches (dependencies of the MIR dump and of the native replay driver).
# Everything is rebuilt from /repo's working tree by the checks themselves; this only saves time on the first check.
set -e
cd "$(dirname "$0")"
export CARGO_NET_OFFLINE=true
mkdir -p .cache evidence replays
python3-vt - <<'PY'
import sys; sys.path.insert(0, '.')
from lib import common
common.load_mir('on')
common.build_nlrun('dev'); common.build_nlrun('release')
print('setup ok')
PY
