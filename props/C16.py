"""C16 — text codecs round-trip and conversions are exact (the parts that are noulith's own code).

Symbolic execution of the real MIR of decimal::parse_decimal_exactly / parse_rational_exactly / apply_exp10 on strings
`[sign] digits [. digits] [e [sign] digits]` and `p/q` whose digits are symbolic, of the str_radix / int_radix builtin
closures for several bases with the number / the digit characters symbolic, and of the integer formatting impls of NInt.
Oracle: the exact rational the text spells; positional notation; representation-independent rendering."""
import itertools, random
import z3
from lib.common import *
from mirsym import strmodels   # noqa: registers the &str models
from props.C06 import builtin_closures
from props.numlib import SymNum, prefer_all

PROP = 'C16'
MIR = None
def eng(): return new_engine(MIR)
def digit(name): return z3.Int(name)
def is_digit(c): return z3.And(c >= 48, c <= 57)
def dval(cs):
    v = z3.IntVal(0)
    for c in cs: v = v * 10 + (c - 48)
    return v

def shape_decimal(item, ob):
    sign, ni, dot, nf, exp = item            # exp: None or (esign, ne)
    E = eng()
    f = find_fn(E, 'parse_decimal_exactly')
    ID = [digit(f'i{k}') for k in range(ni)]; FD = [digit(f'f{k}') for k in range(nf)]
    XD = [digit(f'x{k}') for k in range(exp[1])] if exp else []
    chars = [z3.IntVal(ord(sign))] if sign else []
    chars += ID
    if dot: chars += [z3.IntVal(46)] + FD
    if exp:
        chars += [z3.IntVal(101)] + ([z3.IntVal(ord(exp[0]))] if exp[0] else []) + XD
    def run():
        for c in ID + FD + XD: E.assume(is_digit(c))
        return E.run_fn(f, [Ref(Cell(Seq(list(chars))))])
    def text(model): return ''.join(chr(mval(model, c)) for c in chars)
    from fractions import Fraction
    def py_value(t):
        try:
            body, _, ex = t.partition('e')
            if not any(ch.isdigit() for ch in body): return None
            if exp and not ex.lstrip('+-').isdigit(): return None
            return Fraction(body) * (Fraction(10) ** int(ex) if ex else 1)
        except Exception: return None
    def replay(model):
        t = text(model)
        if exp and abs(int(t.partition('e')[2])) > 400:      # never compute a huge power of ten here either
            return {'program': f'try (rational("{t}") then type then str) catch e -> "err"', 'expect': {'not_panic': 1}, 'slow': True}
        v = py_value(t)
        if v is None: return {'program': f'try rational("{t}") catch e -> "err"', 'expect': {'not_panic': 1}}
        return {'program': f'rational("{t}")', 'expect': {'equals': 'OK ' + repr_q(v)}}
    valid_syntax = (ni > 0 or (dot and nf > 0)) and (not dot or True)
    I, F = dval(ID), dval(FD)
    mant = z3.ToReal(I) + (z3.ToReal(F) / (10 ** nf) if nf else 0)
    if sign == '-': mant = -mant
    pref = [[z3.And(*[c <= 50 for c in ID + FD + XD])]] if (ID + FD + XD) else []
    for pc, kd, res, lg in E.explore(run):
        ob.paths += 1; name = f'parse_decimal_exactly "{sign}{"d" * ni}{"." if dot else ""}{"d" * nf}{("e" + exp[0] + "d" * exp[1]) if exp else ""}"'
        if kd == 'panic': ob.panic(name + ' panic-free', pc, res, replay=replay, cls='C16/parse_decimal/panic', prefer=pref); continue
        if kd != 'ok': ob.missing(name, f'{kd}: {res}'); continue
        if res.variant == 'None':
            # rejecting is only right for texts that spell no number, or whose exponent does not fit the parser's i32
            # ... or whose power of ten the parser declines to compute (documented cap 2^20)
            if not exp: big_exp = z3.BoolVal(False)
            else:
                Xs = -dval(XD) if exp[0] == '-' else dval(XD); eff = Xs - (nf if dot else 0)
                big_exp = z3.Or(dval(XD) > (1 << 31) - 1, eff > (1 << 20), eff < -(1 << 20))
            goal = z3.Or(z3.BoolVal(not valid_syntax), big_exp)
        else:
            v = res.fields[0].v
            if exp:
                X = dval(XD); X = -X if exp[0] == '-' else X
                if exp[1] <= 2:
                    # exact for every 1-2 digit exponent: 10^X enumerated
                    goal = z3.Or(*[z3.And(X == k, v == mant * (z3.RealVal(10) ** k if k >= 0 else 1 / z3.RealVal(10 ** (-k)))) for k in range(-99, 100)])
                else: goal = z3.BoolVal(True)         # long exponents: panic-freedom only (10^X is uninterpreted)
            else: goal = v == mant
            goal = z3.And(z3.BoolVal(valid_syntax), goal)
        ob.check(name + f' -> {res.variant}', pc, goal, replay=replay, cls='C16/parse_decimal/value', prefer=pref, sample='value == sign * (int + frac / 10^nf) * 10^exp exactly'); ob.witness(res.variant)
    ob.absorb_engine(E)

def shape_rational(item, ob):
    n1, n2 = item
    E = eng(); f = find_fn(E, 'parse_rational_exactly')
    A = [digit(f'a{k}') for k in range(n1)]; B = [digit(f'b{k}') for k in range(n2)]
    chars = A + [z3.IntVal(47)] + B
    def run():
        for c in A + B: E.assume(is_digit(c))
        return E.run_fn(f, [Ref(Cell(Seq(list(chars))))])
    def replay(model):
        t = ''.join(chr(mval(model, c)) for c in chars); p, q = t.split('/')
        from fractions import Fraction
        if int(q) == 0: return {'program': f'try rational("{t}") catch e -> "err"', 'expect': {'equals': 'OK "err"'}}
        v = Fraction(int(p), int(q)); return {'program': f'rational("{t}")', 'expect': {'equals': 'OK ' + repr_q(v)}}
    for pc, kd, res, lg in E.explore(run):
        ob.paths += 1; name = f'parse_rational_exactly {"d" * n1}/{"d" * n2}'
        if kd == 'panic': ob.panic(name + ' panic-free', pc, res, replay=replay, cls='C16/parse_rational/panic'); continue
        if kd != 'ok': ob.missing(name, f'{kd}: {res}'); continue
        P, Q = dval(A), dval(B)
        goal = (Q == 0) if res.variant == 'None' else z3.And(Q != 0, res.fields[0].v * z3.ToReal(Q) == z3.ToReal(P))
        ob.check(name + f' -> {res.variant}', pc, goal, replay=replay, cls='C16/parse_rational/value', sample='p/q exactly; zero denominator rejected'); ob.witness(res.variant)
    ob.absorb_engine(E)

def objint(v, rep='Small'): return Adt('Obj', 'Num', [Adt('NNum', 'Int', [Adt('NInt', rep, [v])])])
def string_of(res):
    """chars of an Obj::Seq(Seq::String(Rc<String>)) result"""
    return res.fields[0].fields[0].obj.cell.v.fields

DIG = '0123456789abcdefghijklmnopqrstuvwxyz'
def shape_str_radix(item, ob):
    base, ndig, rep, neg = item
    E = eng(); cl = builtin_closures(E)
    if 'str_radix' not in cl: raise Missing('str_radix closure not found')
    f = cl['str_radix']; N = z3.Int('n')
    lo = 0 if ndig == 0 else base ** (ndig - 1); hi = base ** ndig - 1 if ndig else 0
    def run():
        E.assume(N >= lo, N <= hi)
        return E.run_fn(f, [Closure(f.params[0][1], []), objint(-N if neg else N, rep), objint(z3.IntVal(base))])
    def to_base(n):
        if n == 0: return '0'
        s = ''
        while n: s = DIG[n % base] + s; n //= base
        return s
    def replay(model):
        n = mval(model, N); v = -n if neg else n
        return {'program': f'str_radix({fmt_big(v) if rep == "Big" else fmt_int(v)}, {base})', 'expect': {'equals': 'OK "' + ('-' if neg and n else '') + to_base(n) + '"'}}
    for pc, kd, res, lg in E.explore(run):
        ob.paths += 1; name = f'str_radix base={base} digits={ndig} rep={rep} neg={neg}'
        if kd == 'panic': ob.panic(name + ' panic-free', pc, res, replay=replay, cls='C16/str_radix/panic'); continue
        if kd != 'ok': ob.missing(name, f'{kd}: {res}'); continue
        if res.variant != 'Ok': ob.check(name, pc, z3.BoolVal(False), replay=replay, cls='C16/str_radix/value'); continue
        cs = string_of(res.fields[0]); goals = []
        body = cs
        if neg and ndig > 0:
            goals.append(z3.BoolVal(len(cs) >= 1)); goals.append(cs[0] == 45 if cs else z3.BoolVal(False)); body = cs[1:]
        # positional notation: exactly max(ndig, 1) digits, most significant first, each a digit character of its value
        want_len = max(ndig, 1)
        goals.append(z3.BoolVal(len(body) == want_len))
        if len(body) == want_len:
            for k, c in enumerate(body):
                d = (N / (base ** (want_len - 1 - k))) % base
                goals.append(c == z3.If(d < 10, 48 + d, 87 + d))
        ob.check(name, pc, z3.And(*goals), replay=replay, cls='C16/str_radix/value', sample='digits of n in the base, most significant first, "-" prefix for negatives, "0" for zero'); ob.witness('ok')
    ob.absorb_engine(E)

def shape_int_radix(item, ob):
    base, n = item
    E = eng(); cl = builtin_closures(E)
    if 'int_radix' not in cl: raise Missing('int_radix closure not found')
    f = cl['int_radix']; C = [z3.Int(f'c{k}') for k in range(n)]
    def dig(c):
        d = z3.If(z3.And(c >= 48, c <= 57), c - 48, z3.If(z3.And(c >= 97, c <= 122), c - 87, z3.If(z3.And(c >= 65, c <= 90), c - 55, 99)))
        return d
    def run():
        for c in C: E.assume(c >= 32, c < 127)
        s = Adt('Obj', 'Seq', [Adt('Seq', 'String', [RcV(RcObj(Seq(list(C))))])])
        return E.run_fn(f, [Closure(f.params[0][1], []), s, objint(z3.IntVal(base))])
    def replay(model):
        t = ''.join(chr(mval(model, c)) for c in C)
        if '"' in t or '\\' in t or '{' in t or '$' in t: return None
        try: v = int(t, base) if t and all(ch.isalnum() for ch in t) else None
        except ValueError: v = None
        if t == '': v = 0
        return {'program': f'try int_radix("{t}", {base}) catch e -> "err"', 'expect': {'equals': f'OK {v}' if v is not None else 'OK "err"'}}
    pref = [[z3.And(*[z3.Or(z3.And(c >= 48, c <= 57), z3.And(c >= 97, c <= 122)) for c in C])]] if C else []
    for pc, kd, res, lg in E.explore(run):
        ob.paths += 1; name = f'int_radix base={base} chars={n}'
        if kd == 'panic': ob.panic(name + ' panic-free', pc, res, replay=replay, cls='C16/int_radix/panic', prefer=pref); continue
        if kd != 'ok': ob.missing(name, f'{kd}: {res}'); continue
        allvalid = z3.And(*[dig(c) < base for c in C]) if C else z3.BoolVal(True)
        if res.variant == 'Err': goal = z3.Not(allvalid)
        else:
            v = z3.IntVal(0)
            for c in C: v = v * base + dig(c)
            got = res.fields[0].fields[0].fields[0].fields[0]
            goal = z3.And(allvalid, got == v)
        ob.check(name + f' -> {res.variant}', pc, goal, replay=replay, cls='C16/int_radix/value', prefer=pref, sample='sum of digit values * base^i, bad digit rejected'); ob.witness(res.variant)
    ob.absorb_engine(E)

def shape_roundtrip(item, ob):
    """int_radix(str_radix(n, b), b) == n"""
    base, ndig = item
    E = eng(); cl = builtin_closures(E); fs, fi = cl['str_radix'], cl['int_radix']; N = z3.Int('n')
    def run():
        E.assume(N >= 0, N <= base ** ndig - 1)
        s = E.run_fn(fs, [Closure(fs.params[0][1], []), objint(N), objint(z3.IntVal(base))])
        if s.variant != 'Ok': raise Missing('str_radix failed')
        return E.run_fn(fi, [Closure(fi.params[0][1], []), s.fields[0], objint(z3.IntVal(base))])
    replay = lambda model: {'program': f'int_radix(str_radix({mval(model, N)}, {base}), {base})', 'expect': {'equals': f'OK {mval(model, N)}'}}
    for pc, kd, res, lg in E.explore(run):
        ob.paths += 1; name = f'int_radix . str_radix base={base} n < {base}^{ndig}'
        if kd == 'panic': ob.panic(name + ' panic-free', pc, res, replay=replay, cls='C16/radix roundtrip/panic'); continue
        if kd != 'ok': ob.missing(name, f'{kd}: {res}'); continue
        goal = z3.BoolVal(False) if res.variant != 'Ok' else res.fields[0].fields[0].fields[0].fields[0] == N
        ob.check(name, pc, goal, replay=replay, cls='C16/radix roundtrip/value', sample='round trip'); ob.witness('ok')
    ob.absorb_engine(E)

def shape_fmt(item, ob):
    """Display / LowerHex / UpperHex / Binary / Octal of NInt forward to the same formatter with the same value for Small(n) and Big(n)"""
    idx = item
    E = eng(); N = z3.Int('n')
    fs = sorted([g for g in E.by_last.get('fmt', []) if g.name.startswith('nint::<impl') and len(g.params) == 2 and g.params[0][1].strip() == '&NInt' and 'forward' not in g.name], key=lambda g: g.line)
    fs = [g for g in fs if 'debug_tuple' not in ''.join(sum(g.blocks.values(), []))]
    if idx >= len(fs): return
    f = fs[idx]
    def run_rep(rep):
        def run():
            if rep == 'Small': E.assume(in_i64(N))
            E.log.clear(); E.run_fn(f, [Ref(Cell(Adt('NInt', rep, [N]))), Ref(Cell(Adt('Formatter', None, [])))])
            return [l for l in E.log if l[0] == 'fmt']
        return E.explore(run)
    ps, pb = run_rep('Small'), run_rep('Big')
    for pc, kd, res, lg in ps + pb:
        ob.paths += 1; name = f'NInt formatting impl #{idx}'
        if kd != 'ok': ob.missing(name, f'{kd}: {res}'); continue
        ob.check(name, pc, z3.And(z3.BoolVal(len(res) == 1), res[0][2] == N) if res else z3.BoolVal(False), cls='C16/NInt fmt', sample=f'forwards the value itself to {res[0][1] if res else "?"}'); ob.witness('fmt')
        if res and res[0][1] != 'Display':
            # the radix formatters of a machine word print the two's complement of a negative value, those of BigInt sign and magnitude:
            # the rendering is the same for both representations only if a machine-word radix formatter never sees a negative value
            tr = res[0][1]; spec = {'LowerHex': '#x', 'UpperHex': '#X', 'Binary': '#b', 'Octal': '#o'}.get(tr)
            def replay(model, spec=spec):
                n = mval(model, N)
                if spec is None or not (-(1 << 63) <= n < (1 << 63)): return None
                return {'program': 'F"{' + fmt_int(n) + ' ' + spec + '}" == F"{' + fmt_big(n) + ' ' + spec + '}"', 'expect': {'equals': 'OK 1'}}
            goal = z3.BoolVal(True) if len(res[0]) > 3 and res[0][3] in ('BigInt',) else N >= 0
            ob.check(name + f' {tr}: same rendering for both representations', pc, goal, replay=replay, cls=f'C16/NInt fmt/{tr} of a negative machine word',
                     prefer=[[z3.And(N >= -300, N <= 300)]], sample='a machine-word radix formatter is reached only for non-negative values')
    traits = {tuple(r[1] for r in p[2]) for p in ps + pb if p[1] == 'ok'}
    ob.check(f'NInt formatting impl #{idx}: same trait for both representations', [], z3.BoolVal(len(traits) == 1), cls='C16/NInt fmt', sample=str(traits))
    ob.absorb_engine(E)

def json_models(E, callee, args, argtys, callee0):
    """serde_json::Value constructors as term recorders (serde_json itself is trusted): the observable is which JSON number an integer becomes"""
    m = re.fullmatch(r'<(?:serde_json::)?Value as From<(i64|f64|Option<f64>)>>::from', callee)
    if m:
        E.used_stubs.add(f'serde_json Value::from({m.group(1)}) -> recorder'); return Adt('JsonValue', m.group(1), [args[0]])
    return NotImplemented
def shape_json_int(item, ob):
    """json_encode of an integer: an integer JSON number with exactly that value whenever it fits 64 bits, for either representation; a float beyond"""
    rep, = item
    E = new_engine(MIR, [json_models]); f = find_fn(E, 'json_encode'); N = z3.Int('n')
    def run():
        if rep == 'Small': E.assume(in_i64(N))
        return E.run_fn(f, [objint(N, rep)])
    def replay(model):
        n = mval(model, N)
        if not (-(1 << 63) <= n < (1 << 63)): return None
        src = fmt_int(n) if rep == 'Small' else fmt_big(n)
        return {'program': f'json_encode({src})', 'expect': {'equals': f'OK "{n}"'}}
    for pc, kd, res, lg in E.explore(run):
        ob.paths += 1; name = f'json_encode(int {rep})'; pref = [[z3.And(N >= -40, N <= 40)], [z3.And(N >= -(1 << 70), N <= (1 << 70))]]
        if kd == 'panic': ob.panic(name + ' panic-free', pc, res, replay=replay, cls='C16/json int/panic', prefer=pref); continue
        if kd != 'ok': ob.missing(name, f'{kd}: {res}'); continue
        v = res.fields[0] if res.variant == 'Ok' else None
        if v is None or not (isinstance(v, Adt) and v.ty == 'JsonValue'): goal = z3.BoolVal(False)
        elif v.variant == 'i64': goal = z3.And(in_i64(N), v.fields[0] == N)
        else: goal = z3.Not(in_i64(N))
        ob.check(name + ' is the integer itself when it fits 64 bits', pc, goal, replay=replay, cls='C16/json int/value', prefer=pref, sample='Value::from(i64 n) iff n fits i64, for either representation'); ob.witness(v.variant if v is not None else 'err')
    ob.absorb_engine(E)

def shape_json_float(item, ob):
    """json_encode of a float: the JSON number it becomes is value-equal to the float (the float itself through Value::from(f64), or an
    integer JSON number with exactly that value) — so that json_decode(json_encode(v)) == v for every finite float"""
    E = new_engine(MIR, [json_models]); f = find_fn(E, 'json_encode'); S = SymNum('Float', 'a')
    def run():
        E.assume(*S.pre); E.assume(S.k == 3)
        return E.run_fn(f, [Adt('Obj', 'Num', [S.obj()])])
    def replay(model):
        c = S.concrete(model)
        if c is None: return None
        lit_ = repr(c[2]).replace('e+', 'e'); lit_ = f'({lit_})' if c[2] < 0 or str(c[2]).startswith('-') else lit_          # noulith reads 1e19, not 1e+19
        if 'inf' in lit_ or 'nan' in lit_: return None
        return {'program': f'json_decode(json_encode({lit_})) == {lit_}', 'expect': {'equals': 'OK 1'}}
    pref = [[z3.And(z3.IsInt(S.v / 4096), S.v >= -(1 << 75), S.v <= (1 << 75))]] + prefer_all(S)
    for pc, kd, res, lg in E.explore(run):
        ob.paths += 1; name = 'json_encode(finite float)'
        if kd == 'panic': ob.panic(name + ' panic-free', pc, res, replay=replay, cls='C16/json float/panic', prefer=pref); continue
        if kd != 'ok': ob.missing(name, f'{kd}: {res}'); continue
        v = res.fields[0] if res.variant == 'Ok' else None
        if v is None or not (isinstance(v, Adt) and v.ty == 'JsonValue'): goal = z3.BoolVal(False)
        elif v.variant == 'i64': goal = z3.ToReal(v.fields[0]) == S.v
        else:
            g = v.fields[0]
            if isinstance(g, Adt) and g.ty == 'Option': g = g.fields[0] if g.variant == 'Some' else None
            goal = z3.And(g.kind == 3, g.val == S.v, g.nz == S.nz) if isinstance(g, F64) else z3.BoolVal(False)
        ob.check(name + ' is value-equal to the float', pc, goal, replay=replay, cls='C16/json float/value', prefer=pref, sample='Value::from(f64 f), or Value::from(i64 n) with n == f exactly'); ob.witness(v.variant if v is not None else 'err')
    ob.absorb_engine(E)

def shape_conv_str(item, ob):
    """int("ddd…") / number("ddd…") on a digit string of k symbolic digits (k up to 20, i.e. beyond 64 bits): the exact integer the text spells"""
    tname, k = item
    E = eng(); f = find_fn(E, 'call_type1'); D = [digit(f'd{i}') for i in range(k)]
    def run():
        for c in D: E.assume(is_digit(c))
        s = Adt('Obj', 'Seq', [Adt('Seq', 'String', [RcV(RcObj(Seq(list(D))))])])
        return E.run_fn(f, [Ref(Cell(Adt('ObjType', tname, []))), s])
    fname = {'Int': 'int', 'Number': 'number'}[tname]
    def replay(model):
        t = ''.join(chr(mval(model, c)) for c in D)
        return {'program': f'v := {fname}("{t}"); [v, v is int]', 'expect': {'equals': f'OK [{int(t)}, 1]'}}
    pref = [[z3.And(*[c == 57 for c in D])]] if D else []
    for pc, kd, res, lg in E.explore(run):
        ob.paths += 1; name = f'{fname}(string of {k} digits)'
        if kd == 'panic': ob.panic(name + ' panic-free', pc, res, replay=replay, cls='C16/conversion from string/panic', prefer=pref); continue
        if kd != 'ok': ob.missing(name, f'{kd}: {res}'); continue
        v = res.fields[0] if res.variant == 'Ok' else None
        if v is None or not (v.variant == 'Num' and v.fields[0].variant == 'Int'): goal = z3.BoolVal(False)
        else: goal = v.fields[0].fields[0].fields[0] == dval(D)
        ob.check(name + ' is the exact integer', pc, goal, replay=replay, cls='C16/conversion from string/value', prefer=pref, sample='an integer of any size keeps every digit'); ob.witness(res.variant)
    ob.absorb_engine(E)

def shape_rational_dec(item, ob):
    """rational("p/q") where p or q is written as a decimal: the exact quotient; a zero denominator is rejected, nothing panics"""
    form, = item          # 'd.d/d' | 'd/d.d' | 'd/0.d' | 'd.d/d.d'
    E = eng(); f = find_fn(E, 'parse_rational_exactly')
    names = iter('abcdefgh'); parts = []; chars = []
    for ch in form:
        if ch == 'd':
            c = digit('r' + next(names)); parts.append(c); chars.append(c)
        else: chars.append(z3.IntVal(ord(ch)))
    digs = [c for c in chars if not z3.is_int_value(c)]
    def value_of(model_or_none=None):
        # exact value of each side from its digits
        sides = form.split('/'); vals = []; it = iter(digs)
        for sd in sides:
            ip, _, fp = sd.partition('.')
            iv = z3.IntVal(0)
            for ch in ip: iv = iv * 10 + ((next(it) - 48) if ch == 'd' else z3.IntVal(int(ch)))
            fv = z3.IntVal(0)
            for ch in fp: fv = fv * 10 + (next(it) - 48)
            vals.append(z3.ToReal(iv) + (z3.ToReal(fv) / (10 ** len(fp)) if fp else 0))
        return vals
    P, Q = value_of()
    def run():
        for c in digs: E.assume(is_digit(c))
        return E.run_fn(f, [Ref(Cell(Seq(list(chars))))])
    def replay(model):
        from fractions import Fraction
        t = ''.join(chr(mval(model, c)) if not z3.is_int_value(c) else chr(c.as_long()) for c in chars)
        p, q = t.split('/'); qv = Fraction(q)
        if qv == 0: return {'program': f'try rational("{t}") catch e -> "err"', 'expect': {'equals': 'OK "err"'}}
        return {'program': f'rational("{t}")', 'expect': {'equals': 'OK ' + repr_q(Fraction(p) / qv)}}
    for pc, kd, res, lg in E.explore(run):
        ob.paths += 1; name = f'parse_rational_exactly {form}'
        if kd == 'panic': ob.panic(name + ' panic-free', pc, res, replay=replay, cls='C16/parse_rational/panic'); continue
        if kd != 'ok': ob.missing(name, f'{kd}: {res}'); continue
        goal = (Q == 0) if res.variant == 'None' else z3.And(Q != 0, res.fields[0].v * Q == P)
        ob.check(name + f' -> {res.variant}', pc, goal, replay=replay, cls='C16/parse_rational/value', sample='p/q exactly for decimal p, q; zero denominator rejected'); ob.witness(res.variant)
    ob.absorb_engine(E)

def run_shape(item, ob):
    fam, payload = item
    if fam == 'conv_str': return shape_conv_str(payload, ob)
    if fam == 'rational_dec': return shape_rational_dec(payload, ob)
    {'decimal': shape_decimal, 'rational': shape_rational, 'str_radix': shape_str_radix, 'int_radix': shape_int_radix, 'roundtrip': shape_roundtrip, 'fmt': shape_fmt,
     'json_int': shape_json_int, 'json_float': shape_json_float}[fam](payload, ob)

def main(tier, seed, t0):
    global MIR
    MIR, th = load_mir('on')
    rnd = random.Random(seed); items = []
    maxd = 2 if tier == 'quick' else 3
    for sign in ('', '+', '-'):
        for ni in range(0, maxd + 1):
            for dot in (False, True):
                for nf in (range(0, maxd + 1) if dot else (0,)):
                    items.append(('decimal', (sign, ni, dot, nf, None)))
                    if ni + nf >= 1 and ni <= 1 and nf <= 1:
                        for es in ('', '-', '+'): items.append(('decimal', (sign, ni, dot, nf, (es, 1))))
    items.append(('decimal', ('', 1, False, 0, ('', 2)))); items.append(('decimal', ('-', 1, True, 1, ('-', 2))))
    items.append(('decimal', ('', 1, False, 0, ('-', 10)))); items.append(('decimal', ('', 1, True, 2, ('-', 10)))); items.append(('decimal', ('', 1, False, 0, ('', 10))))
    for n1 in (1, 2):
        for n2 in (1, 2): items.append(('rational', (n1, n2)))
    bases = (2, 10, 16, 36) if tier == 'quick' else (2, 3, 7, 10, 16, 36)
    for b in bases:
        for nd in range(0, 4):
            for rep in ('Small', 'Big'):
                for neg in (False, True):
                    if nd == 0 and neg: continue
                    items.append(('str_radix', (b, nd, rep, neg)))
        for n in range(0, 4): items.append(('int_radix', (b, n)))
        items.append(('roundtrip', (b, 3)))
    for k in range(5): items.append(('fmt', k))
    for rep in ('Small', 'Big'): items.append(('json_int', (rep,)))
    items.append(('json_float', ()))
    for tname in ('Int', 'Number'):
        for k in (1, 3, 19, 20): items.append(('conv_str', (tname, k)))
    for form in ('d.d/d', 'd/d.d', 'd/0.d', 'd.d/d.d', '0.d/d'): items.append(('rational_dec', (form,)))
    rnd.shuffle(items)
    merged, per = pmap(run_shape, items, tier)
    return finish(PROP, tier, seed, merged, t0, th=th,
        kernels=['decimal.rs: parse_decimal_exactly, parse_rational_exactly, apply_exp10', 'lib.rs closures: str_radix, int_radix', 'nint.rs: Display/LowerHex/UpperHex/Binary/Octal for NInt'],
        bounds={'decimal strings': f'sign in {{none,+,-}}, 0..{maxd} integer digits, optional point with 0..{maxd} fraction digits, optional exponent of 1-2 digits (exact) or 10 digits (panic-freedom only); digits symbolic',
                'p/q': '1-2 digits each', 'radix': f'bases {bases}; n < base^3 in both representations and signs; digit strings of 0..3 printable ASCII chars'},
        outside=['base64/gzip/serde_json/UTF-8 codecs (third-party crates)', 'digit generation of std/num formatters', 'float parsing/printing (std)', 'longer digit strings', 'chr/ord, json_decode and the string / list / dict arms of json_encode'],
        assumptions=['num-bigint FromStr accepts [+-]digits (underscore separators are not generated by the harness)', 'ASCII input (byte offsets == char offsets)'])
