"""C01/C02 step harness, part 2: dictionary arms (with and without default) and the string arm of the mutation kernels.

Target: x = {10: [0, 1], 11: [2, 3]} (optionally with default [7, 8]), aliases of the dict allocation and/or of the row
stored under key 10.  The key of the step is an arbitrary integer in either representation, so hits of both entries and
misses are all covered; the HashMap is the association-list model of mirsym/hashmap.py driven by the real ObjKey Eq/Hash."""
import itertools, random
import z3
from lib.common import *
from mirsym import hashmap
from mirsym.hashmap import hm
from props.cow import num, lst, rc_of, NEW, ISZ, in_isz, z_norm, fn_models

MIR = None
def eng(): return new_engine(MIR, [fn_models])

K0, K1 = 10, 11
def okey(v, rep='Small'): return Adt('ObjKey', None, [num(v, rep)])
def mk_dict(with_default):
    rows = [lst([num(0), num(1)]), lst([num(2), num(3)])]
    m = hm([Tup([okey(K0), rows[0]]), Tup([okey(K1), rows[1]])])
    d = opt(BoxV(lst([num(7), num(8)]))) if with_default else opt()
    return Adt('Obj', 'Seq', [Adt('Seq', 'Dict', [RcV(RcObj(m)), d])])

def absval(o):
    if z3.is_expr(o):
        v = z3.simplify(o); return v.as_long() if z3.is_int_value(v) else str(v)
    if isinstance(o, Adt) and o.ty == 'Obj':
        if o.variant == 'Null': return None
        if o.variant == 'Num': return absval(o.fields[0].fields[0].fields[0])
        s = o.fields[0]
        if s.variant == 'Dict':
            es = s.fields[0].obj.cell.v.fields[0].fields
            d = s.fields[1]
            return ('Dict', tuple(sorted(((absval(e.fields[0].fields[0]), absval(e.fields[1])) for e in es), key=lambda kv: repr(kv[0]))), absval(d.fields[0].cell.v) if d.variant == 'Some' else 'nodefault')
        if s.variant == 'String': return ('String', tuple(absval(b) for b in s.fields[0].obj.cell.v.fields))
        return (s.variant, tuple(absval(x) for x in s.fields[0].obj.cell.v.fields))
    return repr(o)

def show(av):
    if av is None: return 'null'
    if isinstance(av, int): return str(av)
    if av[0] == 'List': return '[' + ', '.join(show(x) for x in av[1]) + ']'
    raise ValueError(av)
def show_dict_probe(av):
    """what `[sort(items(x)), try x[99999] catch _ -> 'none']` prints for abstract dict av"""
    items = '[' + ', '.join(f'[{show(k)}, {show(v)}]' for k, v in sorted(av[1], key=lambda kv: kv[0])) + ']'
    return items + ', ' + ('"none"' if av[2] == 'nodefault' else show(av[2]))

DOPS = ('set_key', 'set_key_idx', 'modify_key', 'modify_key_idx', 'remove_key', 'drop_key')
DALIAS = ('none', 'dict', 'row', 'both')

def run_dict(item, ob, mode):
    op, with_default, alias, rep = item
    E = eng()
    K, J = z3.Int('k'), z3.Int('j')
    f_set = find_fn(E, 'set_index'); f_mod = find_fn(E, 'modify_existing_index'); f_rem = find_fn(E, 'try_remove_index')
    def run():
        if rep == 'Small': E.assume(in_i64(K))
        E.assume(in_i64(J))
        x = mk_dict(with_default)
        dict_alias = E.clone_value(x) if alias in ('dict', 'both') else None
        row_alias = E.clone_value(x.fields[0].fields[0].obj.cell.v.fields[0].fields[0].fields[1]) if alias in ('row', 'both') else None
        before = absval(x); cell = Cell(x); E.log.clear()
        def step():
            key = num(K, rep)
            def idx(*p): return Cell(Seq([Adt('EvaluatedIndexOrSlice', 'Index', [q]) for q in p]))
            if op == 'set_key': return E.run_fn(f_set, [Ref(cell), Ref(idx(key)), opt(num(NEW)), z3.BoolVal(False)])
            if op == 'drop_key': return E.run_fn(f_set, [Ref(cell), Ref(idx(key)), opt(), z3.BoolVal(False)])       # LHS-dropping (op-assign hot path)
            if op == 'set_key_idx': return E.run_fn(f_set, [Ref(cell), Ref(idx(key, num(J))), opt(num(NEW)), z3.BoolVal(False)])
            def clo(eng_, args):
                s_ = args[0]; old = eng_.deref(s_); eng_.wr(s_, num(NEW)); return ok(old)
            if op == 'modify_key': return E.run_fn(f_mod, [Ref(cell), Ref(idx(key)), clo])
            if op == 'modify_key_idx': return E.run_fn(f_mod, [Ref(cell), Ref(idx(key, num(J))), clo])
            if op == 'remove_key': return E.run_fn(f_rem, [Ref(cell), Ref(Cell(key))])
        row0 = rc_of(x.fields[0].fields[0].obj.cell.v.fields[0].fields[0].fields[1]).obj      # allocation of the row stored under key 10
        r1 = step(); log1 = list(E.log); after = absval(cell.v); E.log.clear()
        row0_count = row0.count
        r2 = step() if (mode == 'C02' and op not in ('remove_key',)) else None
        log2 = list(E.log)
        return dict(r=r1, before=before, after=after, dalias=absval(dict_alias) if dict_alias is not None else None,
                    ralias=absval(row_alias) if row_alias is not None else None, log1=log1, log2=log2, r2=r2, row0_count=row0_count)
    def L(v): return fmt_big(v) if rep == 'Big' else fmt_int(v)
    base = absval(mk_dict(with_default))
    def expected(k, j):
        """python oracle: (abstract dict afterwards, ok?)"""
        d = dict(base[1]); dflt = base[2]
        def row_upd(row, j):
            n = len(row[1]); p = j if 0 <= j < n else (j + n if -n <= j < 0 else None)
            if p is None: return None
            return ('List', tuple(NEW if q == p else v for q, v in enumerate(row[1])))
        if op == 'set_key': d[k] = NEW
        elif op == 'drop_key': d[k] = None
        elif op == 'set_key_idx':
            if k in d:
                r = row_upd(d[k], j)
                if r is not None: d[k] = r
        elif op == 'modify_key':
            if k in d: d[k] = NEW
            elif dflt != 'nodefault': d[k] = NEW
        elif op == 'modify_key_idx':
            row = d.get(k, dflt if dflt != 'nodefault' else None)
            if row is not None:
                r = row_upd(row, j)
                if r is not None: d[k] = r
                elif k not in d and dflt != 'nodefault': d[k] = dflt        # the default was materialised before the inner index failed
        elif op == 'remove_key': d.pop(k, None)
        return ('Dict', tuple(sorted(d.items())), dflt)
    def replay(model):
        k, j = mval(model, K), mval(model, J)
        src = '{' + (':[7, 8], ' if with_default else '') + f'{K0}: [0, 1], {K1}: [2, 3]}}'
        pre = f'x := {src}; y := x; z := x[{K0}]; '
        stmt = {'set_key': f'x[{L(k)}] = {NEW}', 'drop_key': None, 'set_key_idx': f'x[{L(k)}][{fmt_int(j)}] = {NEW}', 'modify_key': f'x[{L(k)}] .= (\\_ -> {NEW})',
                'modify_key_idx': f'x[{L(k)}][{fmt_int(j)}] .= (\\_ -> {NEW})', 'remove_key': f'remove x[{L(k)}]'}[op]
        if stmt is None: return None
        exp = expected(k, j)
        probe = lambda v: f"sort(items({v})), (try {v}[99999] catch _ -> 'none')"
        prog = pre + f'try {stmt} catch _ -> null; [{probe("x")}, {probe("y")}, z]'
        e = f'OK [{show_dict_probe(exp)}, {show_dict_probe(base)}, [0, 1]]'
        if op == 'modify_key_idx' and exp != base and False: pass
        return {'program': prog, 'expect': {'equals': e}}
    for pc, kind, res, lg in E.explore(run):
        ob.paths += 1; name = f'dict {op} default={with_default} alias={alias} rep={rep}'
        pref = [[z3.And(K >= 9, K <= 12, J >= -3, J <= 3)], [z3.And(K >= -40, K <= 40, J >= -5, J <= 5)]]
        if kind == 'panic': ob.panic(name + ' panic-free', pc, res, replay=lambda m: dict(replay(m) or {}, expect={'not_panic': 1}) if replay(m) else None, cls=f'{mode}/dict {op}/panic', prefer=pref); continue
        if kind != 'ok': ob.missing(name, f'{kind}: {res}'); continue
        d = res; b, a = d['before'], d['after']
        if mode == 'C01':
            alias_ok = (d['dalias'] is None or d['dalias'] == b) and (d['ralias'] is None or d['ralias'] == ('List', (0, 1)))
            ob.check(name + ' aliases unchanged', pc, z3.BoolVal(alias_ok), replay=replay, cls=f'C01/dict {op}/alias-changed', prefer=pref, sample='aliases of the dict and of a stored row keep their value')
            # target: the abstract result must be the oracle's for the key class the path is in
            cands = []
            for kk, kcond in ((K0, K == K0), (K1, K == K1), (None, z3.And(K != K0, K != K1))):
                for jj, jcond in ((0, z3.Or(J == 0, J == -2)), (1, z3.Or(J == 1, J == -1)), (None, z3.Or(J > 1, J < -2))):
                    kv = kk if kk is not None else 12345; jv = jj if jj is not None else 77
                    exp = expected(kv, jv)
                    if kk is None:      # a missing key: the oracle result mentions the symbolic key itself
                        got = a
                        # compare after renaming the new key (if any) to 12345
                        def ren(av):
                            return ('Dict', tuple(sorted(((12345 if (not isinstance(k_, int) or k_ not in (K0, K1)) else k_), v_) for k_, v_ in av[1])), av[2])
                        same = ren(got) == exp
                    else: same = (a == exp)
                    if same: cands.append(z3.And(kcond, jcond))
            goal = z3.Or(*cands) if cands else z3.BoolVal(False)
            ob.check(name + f' target ({d["r"].variant})', pc, goal, replay=replay, cls=f'C01/dict {op}/target', prefer=pref,
                     sample='dict afterwards == finite-map update for the key class of the path (hit 10 / hit 11 / miss), default untouched')
            ob.witness(d['r'].variant)
        else:
            def is_copy(l): return l[0] == 'make_mut_clone' or (l[0] == 'deep_clone' and str(l[1]).startswith(('Vec', 'HashMap')))
            c1 = [l for l in d['log1'] if is_copy(l)]; c2 = [l for l in d['log2'] if is_copy(l)]
            depth = 2 if op.endswith('_idx') else 1
            allowed = {'none': 0, 'dict': depth, 'row': 1 if depth == 2 else 0, 'both': depth}[alias]
            # a missing key of a defaulted dict materialises a copy of the default, whose row is then shared with the default itself: one more copy
            if with_default and op == 'modify_key_idx': allowed += 1
            trep = lambda m: timing(op, with_default, alias)
            ob.check(name + f' copies on first step <= {allowed}', pc, z3.BoolVal(len(c1) <= allowed), replay=trep, cls=f'C02/dict {op}/extra-copy', sample=f'clone log {c1}')
            if d['r2'] is not None:
                ob.check(name + ' no copy on the repeated step', pc, z3.BoolVal(len(c2) == 0), replay=trep, cls=f'C02/dict {op}/copy-after-unshare')
            if op == 'drop_key':
                # the LHS-dropping call of an op-assign must release the slot's reference so that the operator owns the only one:
                # on a hit of key 10 the row's strong count drops to the references held by aliases
                want = (1 if alias in ('dict', 'both') else 0) + (1 if alias in ('row', 'both') else 0)
                ob.check(name + ' slot released', list(pc) + [K == K0], z3.BoolVal(d['row0_count'] == want), replay=trep, cls='C02/dict drop_key/reference-kept',
                         sample=f'strong count of the row after the drop: {d["row0_count"]} (aliases hold {want})')
            ob.witness('unique' if alias == 'none' else 'shared')
    ob.absorb_engine(E)

def timing(op, with_default, alias):
    def prog(N, Kn):
        al = 'y := x; ' if alias != 'none' else ''
        dflt = ':[7, 8], ' if with_default else ''
        mk = f'x := {{{dflt}1: (0 til {N}) then list, 2: [0]}}; '
        body = {'set_key': 'x[3] = i', 'set_key_idx': f'x[1][i % {N}] = i', 'modify_key': 'x[2] .= (\\_ -> i)', 'modify_key_idx': f'x[1][i % {N}] += 1',
                'drop_key': 'x[1] append= i', 'remove_key': 'x[3] = i; remove x[3]'}[op]
        return mk + al + f'for (i <- 0 til {Kn}) {body}; len(x)'
    return {'timing': {'small': prog(10, 6000), 'base': prog(30000, 0), 'big': prog(30000, 6000), 'ratio': 5, 'metric': 'alloc'}, 'program': None}

# ------------------------------------------------------------------------------------------------ string arm of set_index
def sobj(bs): return Adt('Obj', 'Seq', [Adt('Seq', 'String', [RcV(RcObj(Seq([z3.IntVal(b) for b in bs])))])])
def run_str(item, ob, mode):
    alias, rep, vkind = item[:3]; bkind = item[3] if len(item) > 3 else 'ascii'
    E = eng(); I = z3.Int('i'); f_set = find_fn(E, 'set_index')
    base = [97, 98, 99] if bkind == 'ascii' else [104, 195, 169, 33]          # 'abc' / 'hé!' (strings are byte-indexed: é occupies bytes 1 and 2)
    btext = bytes(base).decode('utf-8'); n = len(base)
    def utf8ok(bs):
        try: bytes(bs).decode('utf-8'); return True
        except UnicodeDecodeError: return False
    def replaced(k): return [120 if q == k else b for q, b in enumerate(base)]
    val = {'byte': sobj([120]), 'two': sobj([120, 121]), 'mb': sobj([195, 169]), 'num': num(5), 'none': None}[vkind]      # 'mb': one character, two bytes ('é')
    def run():
        if rep == 'Small': E.assume(in_i64(I))
        x = sobj(base); al = E.clone_value(x) if alias else None
        cell = Cell(x); E.log.clear()
        idx = Cell(Seq([Adt('EvaluatedIndexOrSlice', 'Index', [num(I, rep)])]))
        r = E.run_fn(f_set, [Ref(cell), Ref(idx), opt(val) if val is not None else opt(), z3.BoolVal(False)])
        return r, absval(cell.v), absval(al) if al is not None else None, list(E.log)
    def replay(model):
        i = mval(model, I); L = fmt_big(i) if rep == 'Big' else fmt_int(i)
        v = {'byte': "'x'", 'two': "'xy'", 'mb': "'\\xc3\\xa9' then utf8_encode then utf8_decode" if False else "'é'", 'num': '5'}.get(vkind)
        if v is None: return None
        p = i if 0 <= i < n else (i + n if -n <= i < 0 else None)
        s = btext
        if vkind == 'byte' and p is not None and ISZ[0] <= i <= ISZ[1] and utf8ok(replaced(p)): s = bytes(replaced(p)).decode('utf-8')
        return {'program': f"x := '{btext}'; y := x; try x[{L}] = {v} catch _ -> null; [x, y]", 'expect': {'equals': f'OK ["{s}", "{btext}"]'}}
    for pc, kind, res, lg in E.explore(run):
        ob.paths += 1; name = f'set_index string({bkind}) alias={alias} rep={rep} value={vkind}'
        pref = [[z3.And(I >= -5, I <= 5)]]
        if kind == 'panic': ob.panic(name + ' panic-free', pc, res, replay=lambda m: dict(replay(m), expect={'not_panic': 1}) if replay(m) else None, cls=f'{mode}/string set_index/panic', prefer=pref); continue
        if kind != 'ok': ob.missing(name, f'{kind}: {res}'); continue
        r, after, al, log = res
        if mode == 'C14':
            ob.check(name + ' returns a value or an error', pc, z3.BoolVal(True), replay=replay, cls='C14/string set_index/result'); ob.witness(r.variant); continue
        if mode == 'C01':
            ob.check(name + ' alias unchanged', pc, z3.BoolVal(al is None or al == ('String', tuple(base))), replay=replay, cls='C01/string set_index/alias-changed', prefer=pref)
            v0, p0 = z_norm(I, n); valid = z3.And(in_isz(I), v0)
            bad = [k for k in range(n) if not utf8ok(replaced(k))]          # byte positions whose replacement is not valid UTF-8: an error, string unchanged
            if r.variant == 'Ok' and vkind == 'byte':
                hit = [k for k in range(n) if after == ('String', tuple(replaced(k)))]
                goal = z3.And(valid, p0 == hit[0], z3.BoolVal(hit[0] not in bad)) if len(hit) == 1 else z3.BoolVal(False)
            elif r.variant == 'Ok': goal = z3.BoolVal(vkind == 'none' and after == ('String', tuple(base)))
            else: goal = z3.And(z3.BoolVal(after == ('String', tuple(base))), z3.Or(z3.Not(valid), *[p0 == k for k in bad]) if vkind == 'byte' else z3.BoolVal(True))
            ob.check(name + f' target ({r.variant})', pc, goal, replay=replay, cls='C01/string set_index/target', prefer=pref, sample='one byte replaced at the normalised index, or the string is unchanged on error')
            ob.witness(r.variant)
        else:
            copies = [l for l in log if l[0] == 'make_mut_clone']
            ob.check(name + ' copies', pc, z3.BoolVal(len(copies) <= (1 if alias else 0)), replay=None, cls='C02/string set_index/extra-copy'); ob.witness('str')
    ob.absorb_engine(E)

def items_for(tier, seed):
    rnd = random.Random(seed + 17); items = []
    for op in DOPS:
        for wd in (False, True):
            for alias in DALIAS:
                reps = ('Small', 'Big') if tier != 'quick' else (rnd.choice(('Small', 'Big')),)
                for rep in reps: items.append(('dict', (op, wd, alias, rep)))
    for alias in (False, True):
        for rep in ('Small', 'Big'):
            for vk in ('byte', 'two', 'mb', 'num', 'none'): items.append(('str', (alias, rep, vk)))
            items.append(('str', (alias, rep, 'byte', 'multibyte')))
    return items

def run_shape(item, ob, mode):
    fam, payload = item
    if fam == 'dict': run_dict(payload, ob, mode)
    else: run_str(payload, ob, mode)
