"""C11 — lazy streams are coherent: length, iteration, indexing, slicing, reversal agree.

One step of `next()` from an arbitrary representation-valid state (so every position reached by dropping a prefix is covered):
  len(before) == 1 + len(after),  next() is None <=> len == 0,  the yielded element is the specified one,
for Range (start/end/step over all of Z in both representations), Permutations, Combinations, Subsequences, CartesianPower,
Cycle, Repeat; and the default trait methods Stream::{len, force, pythonic_index_isize, pythonic_slice, reversed} against
"index / slice / reverse the list of remaining elements" with the index and the bounds over all of isize."""
import itertools, random, math
import z3
from lib.common import *
from props.numlib import *

PROP = 'C11'
MIR = None
def eng(): return new_engine(MIR)
USZ = (1 << 64) - 1
ISZ = (-(1 << 63), (1 << 63) - 1)

def nint(rep, v): return Adt('NInt', rep, [v])
def objn(k): return Adt('Obj', 'Num', [Adt('NNum', 'Int', [Adt('NInt', 'Small', [z3.IntVal(k) if isinstance(k, int) else k])])])
def obj_ident(o):
    """integer carried by an Obj::Num(Int(..)) -> z3 term"""
    return o.fields[0].fields[0].fields[0]
def list_items(o): return o.fields[0].fields[0].obj.cell.v.fields      # Obj::Seq(Seq::List(Rc<Vec>))
def streams_fn(E, ty, meth, nparams=None):
    fs = [f for f in E.by_last.get(meth, []) if f.name.startswith('streams::<impl') and f.params and re.sub(r'^&(mut )?', '', norm(f.params[0][1])) == ty and (nparams is None or len(f.params) == nparams)]
    if len(fs) != 1: raise Missing(f'{ty}::{meth} not found uniquely ({len(fs)})')
    return fs[0]

# ------------------------------------------------------------------------------------------------ Range
S, EN, ST = z3.Int('start'), z3.Int('end'), z3.Int('step')
def ceil_div(a, b): return -fdiv(-a, b)          # b > 0
def range_count(s, e, st):
    """number of elements of a finite range (st != 0)"""
    return z3.If(st > 0, z3.If(e > s, ceil_div(e - s, st), 0), z3.If(s > e, ceil_div(s - e, -st), 0))
def shape_range(item, ob):
    what, reps, has_end = item
    E = eng()
    def mk():
        for v, r in zip((S, EN, ST), reps):
            if r == 'Small': E.assume(in_i64(v))
        return Adt('Range', None, [nint(reps[0], S), opt(nint(reps[1], EN)) if has_end else opt(), nint(reps[2], ST)])
    def L(v, rep): return fmt_big(v) if rep == 'Big' else fmt_int(v)
    def src(model):
        s, e, st = mval(model, S), mval(model, EN), mval(model, ST)
        if not has_end: return f'({L(s, reps[0])} til (10^40) by {L(st, reps[2])})' if st > 0 else None, (s, None, st)
        return f'({L(s, reps[0])} til {L(e, reps[1])} by {L(st, reps[2])})', (s, e, st)
    def py_count(s, e, st):
        if e is None: return None
        if st > 0: return max(0, -((s - e) // st))
        if st < 0: return max(0, -((e - s) // (-st)))
        return 0 if s >= e else None
    pref = [[z3.And(S >= -6, S <= 6, EN >= -6, EN <= 6, ST >= -3, ST <= 3)], [z3.And(S >= -(1 << 70), S <= (1 << 70), EN >= -(1 << 70), EN <= (1 << 70), ST >= -40, ST <= 40)]]
    if what == 'next':
        f = streams_fn(E, 'Range', 'next')
        def run():
            r = mk(); c = Cell(r); out = E.run_fn(f, [Ref(c)]); return out, c.v
        def replay(model):
            sr, (s, e, st) = src(model)
            if sr is None: return None
            if st == 0: return None          # `by 0` is rejected / special-cased by the constructor builtins
            n = py_count(s, e, st)
            if n is None or n > 50: return {'program': f'{sr} then first', 'expect': {'equals': f'OK {s}'}}
            return {'program': f'{sr} then list', 'expect': {'equals': 'OK [' + ', '.join(str(s + i * st) for i in range(n)) + ']'}}
        for pc, kind, res, lg in E.explore(run):
            ob.paths += 1; name = f'Range::next reps={reps} end={has_end}'
            if kind == 'panic': ob.panic(name + ' panic-free', pc, res, replay=replay, cls='C11/Range::next/panic', prefer=pref); continue
            if kind != 'ok': ob.missing(name, f'{kind}: {res}'); continue
            out, after = res
            empty = z3.And(z3.BoolVal(has_end), z3.If(ST < 0, S <= EN, S >= EN))
            if out.variant == 'None': goal = z3.And(empty, after.fields[0].fields[0] == S)
            else:
                x = out.fields[0].fields[0]      # Some(Ok(obj))
                goal = z3.And(z3.Not(empty), z3.BoolVal(out.fields[0].variant == 'Ok'), obj_ident(x) == S, after.fields[0].fields[0] == S + ST, after.fields[2].fields[0] == ST)
                if has_end: goal = z3.And(goal, after.fields[1].fields[0].fields[0] == EN)
            ob.check(name + f' -> {out.variant}', pc, goal, replay=replay, cls='C11/Range::next/value', prefer=pref, sample='None iff empty; otherwise yields start and advances by step'); ob.witness(out.variant)
    else:
        f = streams_fn(E, 'Range', 'len')
        def run(): return E.run_fn(f, [Ref(Cell(mk()))])
        def replay(model):
            sr, (s, e, st) = src(model)
            if sr is None or st == 0: return None
            n = py_count(s, e, st)
            if n is None: return {'program': f'len({sr})', 'expect': {'equals': 'OK inff'}}
            if n > USZ: return None
            return {'program': f'len({sr})', 'expect': {'equals': f'OK {n}'}}
        for pc, kind, res, lg in E.explore(run):
            ob.paths += 1; name = f'Range::len reps={reps} end={has_end}'
            if kind == 'panic': ob.panic(name + ' panic-free', pc, res, replay=replay, cls='C11/Range::len/panic', prefer=pref); continue
            if kind != 'ok': ob.missing(name, f'{kind}: {res}'); continue
            if not has_end: goal = z3.BoolVal(res.variant == 'None')
            else:
                cnt = range_count(S, EN, ST)
                infinite = z3.And(ST == 0, S < EN)
                if res.variant == 'None': goal = z3.Or(infinite, z3.And(ST != 0, cnt > USZ))
                else: goal = z3.And(z3.Not(infinite), res.fields[0] == z3.If(ST == 0, 0, cnt), res.fields[0] <= USZ)
            ob.check(name + f' -> {res.variant}', pc, goal, replay=replay, cls='C11/Range::len/value', prefer=pref, sample='len == number of elements iteration yields (infinite / beyond usize: None)'); ob.witness(res.variant)
    ob.absorb_engine(E)

# ------------------------------------------------------------------------------------------------ combinatorial streams: one step from an arbitrary valid state
def fact(n): return math.factorial(n)
def base_list(n): return RcV(RcObj(Seq([objn(100 + k) for k in range(n)])))

def shape_comb(item, ob):
    kind, n, k = item           # base length n, selection size k (Combinations / CartesianPower), n bits (Subsequences), n (Permutations)
    E = eng()
    f_next = streams_fn(E, kind, 'next'); f_len = None
    try: f_len = streams_fn(E, kind, 'len')
    except Missing: f_len = None
    m = {'Permutations': n, 'Combinations': k, 'Subsequences': n, 'CartesianPower': k}[kind]
    V = [z3.Int(f'v{i}') for i in range(m)] if kind != 'Subsequences' else [z3.Bool(f'b{i}') for i in range(m)]
    def invariant():
        if kind == 'Permutations': return [z3.And(v >= 0, v < n) for v in V] + [V[i] != V[j] for i in range(m) for j in range(i + 1, m)]
        if kind == 'Combinations': return [z3.And(v >= 0, v < n) for v in V] + [V[i] < V[i + 1] for i in range(m - 1)]
        if kind == 'CartesianPower': return [z3.And(v >= 0, v < n) for v in V]
        return []
    def rank():
        """0-based position of the state in the documented enumeration order, and the total count"""
        if kind == 'Permutations':
            r = z3.IntVal(0)
            for i in range(m): r = r + z3.Sum([z3.If(V[j] < V[i], 1, 0) for j in range(i + 1, m)] + [z3.IntVal(0)]) * fact(m - 1 - i)
            return r, fact(m)
        if kind == 'Subsequences':
            r = z3.IntVal(0)
            for i in range(m): r = r + z3.If(V[i], 1 << (m - 1 - i), 0)
            return r, 1 << m
        if kind == 'CartesianPower':
            r = z3.IntVal(0)
            for i in range(m): r = r + V[i] * (n ** (m - 1 - i))
            return r, n ** m
        return None, math.comb(n, k)
    def selection():
        """the element identities the current state denotes (z3 terms or python ints)"""
        if kind == 'Subsequences': return None
        return [100 + v for v in V]
    def mk_state():
        E.assume(*invariant())
        return Adt(kind, None, [base_list(n), opt(RcV(RcObj(Seq(list(V)))))])
    def state_vec(st):
        o = st.fields[1]
        return None if o.variant == 'None' else o.fields[0].obj.cell.v.fields
    def run():
        st = mk_state(); c = Cell(st)
        l0 = E.run_fn(f_len, [Ref(c)]) if f_len else None
        out = E.run_fn(f_next, [Ref(c)])
        l1 = E.run_fn(f_len, [Ref(c)]) if f_len else None
        return out, c.v, l0, l1
    ctor = {'Permutations': 'permutations', 'Combinations': 'combinations', 'Subsequences': 'subsequences', 'CartesianPower': None}[kind]
    def replay(model):
        base = '[' + ', '.join(str(100 + q) for q in range(n)) + ']'
        if kind == 'Permutations':
            want = [list(p) for p in itertools.permutations(range(100, 100 + n))]; prog = f'list(permutations({base}))'
        elif kind == 'Combinations':
            want = [list(p) for p in itertools.combinations(range(100, 100 + n), k)]; prog = f'list(combinations({base}, {k}))'
        elif kind == 'Subsequences':
            want = [[100 + i for i in range(n) if (mask >> (n - 1 - i)) & 1] for mask in range(1 << n)]; prog = f'list(subsequences({base}))'
        else:
            want = [list(p) for p in itertools.product(range(100, 100 + n), repeat=k)]; prog = f'list({base} ^^ {k})'
        show = '[' + ', '.join('[' + ', '.join(map(str, w)) + ']' for w in want) + ']'
        return {'program': f'[{prog}, len({prog[5:-1]})]', 'expect': {'equals': f'OK [{show}, {len(want)}]'}}
    for pc, kd, res, lg in E.explore(run):
        ob.paths += 1; name = f'{kind} n={n} k={k} step'
        if kd == 'panic': ob.panic(name + ' panic-free', pc, res, replay=replay, cls=f'C11/{kind}/panic'); continue
        if kd != 'ok': ob.missing(name, f'{kd}: {res}'); continue
        out, after, l0, l1 = res
        rk, total = rank()
        goals = []
        if out.variant == 'None': goals.append(z3.BoolVal(False if kind != 'Combinations' else k > n))
        else:
            item_ = out.fields[0].fields[0]; got = list_items(item_)
            if kind == 'Subsequences':
                # yielded = base elements whose bit is set, in order: check through every concrete bit pattern consistent with the path
                ids = [z3.simplify(obj_ident(g)) for g in got]
                pat = [100 + i in [x.as_long() for x in ids] for i in range(n)]
                goals.append(z3.And(*[V[i] == z3.BoolVal(pat[i]) for i in range(n)]))
            else:
                sel = selection()
                goals.append(z3.BoolVal(len(got) == len(sel))); goals += [obj_ident(g) == sv for g, sv in zip(got, sel)]
            av = state_vec(after)
            if rk is not None:
                if av is None: goals.append(rk == total - 1)
                else:
                    # successor: rank + 1 and still valid
                    V2 = av
                    if kind == 'Permutations':
                        r2 = z3.IntVal(0)
                        for i in range(m): r2 = r2 + z3.Sum([z3.If(V2[j] < V2[i], 1, 0) for j in range(i + 1, m)] + [z3.IntVal(0)]) * fact(m - 1 - i)
                        goals += [z3.And(v >= 0, v < n) for v in V2] + [V2[i] != V2[j] for i in range(m) for j in range(i + 1, m)]
                    elif kind == 'Subsequences':
                        r2 = z3.IntVal(0)
                        for i in range(m): r2 = r2 + z3.If(V2[i], 1 << (m - 1 - i), 0)
                    else:
                        r2 = z3.IntVal(0)
                        for i in range(m): r2 = r2 + V2[i] * (n ** (m - 1 - i))
                        goals += [z3.And(v >= 0, v < n) for v in V2]
                    goals.append(r2 == rk + 1)
            else:
                # Combinations: successor in lexicographic order of increasing index vectors
                if av is None: goals.append(z3.And(*[V[i] == n - m + i for i in range(m)]))
                else:
                    V2 = av
                    goals += [z3.And(v >= 0, v < n) for v in V2] + [V2[i] < V2[i + 1] for i in range(m - 1)]
                    # lexicographic successor: exists pivot p: prefix equal, V2[p] = V[p] + 1, suffix consecutive, and V[q] maximal for q > p
                    alts = []
                    for p in range(m):
                        alts.append(z3.And(*[V2[q] == V[q] for q in range(p)], V2[p] == V[p] + 1, *[V2[q] == V2[q - 1] + 1 for q in range(p + 1, m)], *[V[q] == n - m + q for q in range(p + 1, m)]))
                    goals.append(z3.Or(*alts) if alts else z3.BoolVal(False))
            if l0 is not None:
                # closed-form len: remaining count before, and exactly one less afterwards
                goals.append(z3.BoolVal(l0.variant == 'Some' and l1.variant == 'Some'))
                if l0.variant == 'Some' and l1.variant == 'Some':
                    goals.append(l0.fields[0] == total - rk); goals.append(l1.fields[0] == l0.fields[0] - 1)
        ob.check(name + f' -> {out.variant}', pc, z3.And(*goals), replay=replay, cls=f'C11/{kind}/step', sample='yields the element of the current state, moves to the successor in the documented order, len drops by one'); ob.witness(out.variant)
    ob.absorb_engine(E)

def shape_done(item, ob):
    """exhausted state (None): next() is None and len() is 0"""
    kind, n = item
    E = eng(); f_next = streams_fn(E, kind, 'next')
    try: f_len = streams_fn(E, kind, 'len')
    except Missing: f_len = None
    def run():
        c = Cell(Adt(kind, None, [base_list(n), opt()])); return E.run_fn(f_next, [Ref(c)]), (E.run_fn(f_len, [Ref(c)]) if f_len else None)
    for pc, kd, res, lg in E.explore(run):
        ob.paths += 1; name = f'{kind} exhausted'
        if kd != 'ok': ob.panic(name, pc, res, cls=f'C11/{kind}/panic') if kd == 'panic' else ob.missing(name, res); continue
        out, l = res
        g = out.variant == 'None' and (l is None or (l.variant == 'Some' and z3.is_true(z3.simplify(l.fields[0] == 0))))
        ob.check(name, pc, z3.BoolVal(bool(g)), cls=f'C11/{kind}/exhausted', sample='None and len 0'); ob.witness('done')
    ob.absorb_engine(E)

# ------------------------------------------------------------------------------------------------ default trait methods against the list of remaining elements
def shape_default(item, ob):
    """Stream::{len, force, pythonic_index_isize, pythonic_slice, reversed} (trait defaults) on a finite stream of n remaining elements"""
    meth, n, carrier = item
    E = eng()
    I, LO, HI = z3.Int('i'), z3.Int('lo'), z3.Int('hi')
    cands = [f for f in E.by_last.get(meth, []) if f.name.startswith('core::Stream::') and '{closure' not in f.name]
    if len(cands) != 1: raise Missing(f'default Stream::{meth} not found uniquely ({len(cands)})')
    f = cands[0]
    def mk():
        if carrier == 'Range': return Adt('Range', None, [nint('Small', z3.IntVal(100)), opt(nint('Small', z3.IntVal(100 + n))), nint('Small', z3.IntVal(1))])
        return Adt('WrappedVec', None, [RcV(RcObj(Seq([objn(100 + k) for k in range(n)]))), z3.IntVal(0)])
    src = f'(100 til {100 + n})' if carrier == 'Range' else 'stream([' + ', '.join(str(100 + k) for k in range(n)) + '])'
    def ids_of(seq_adt):
        if seq_adt.variant == 'List': return [z3.simplify(obj_ident(x)).as_long() for x in seq_adt.fields[0].obj.cell.v.fields]
        return None
    def py_norm(i, n_): return i if 0 <= i < n_ else (n_ + i if -n_ <= i < 0 else None)
    def py_clamp(i, n_): return min(i, n_) if i >= 0 else max(n_ + i, 0)
    if meth == 'pythonic_index_isize':
        def run(): E.assume(I >= ISZ[0], I <= ISZ[1]); return E.run_fn(f, [Ref(Cell(mk())), I])
        def replay(model):
            i = mval(model, I); p = py_norm(i, n)
            return {'program': f'{src}[{fmt_int(i)}]', 'expect': {'equals': f'OK {100 + p}'} if p is not None else {'prefix': 'ERR'}}
        for pc, kd, res, lg in E.explore(run):
            ob.paths += 1; name = f'default Stream::pythonic_index_isize n={n} on {carrier}'
            pref = [[z3.And(I >= -6, I <= 6)]]
            if kd == 'panic': ob.panic(name + ' panic-free', pc, res, replay=replay, cls='C11/default index/panic', prefer=pref); continue
            if kd != 'ok': ob.missing(name, f'{kd}: {res}'); continue
            valid = z3.And(I >= -n, I < n); pos = z3.If(I >= 0, I, I + n)
            goal = z3.And(valid, obj_ident(res.fields[0]) == 100 + pos) if res.variant == 'Ok' else z3.Not(valid)
            ob.check(name + f' -> {res.variant}', pc, goal, replay=replay, cls='C11/default index/value', prefer=pref, sample='s[i] == list(s)[i]'); ob.witness(res.variant)
    elif meth == 'pythonic_slice':
        for hl in (False, True):
            for hh in (False, True):
                def run(): E.assume(LO >= ISZ[0], LO <= ISZ[1], HI >= ISZ[0], HI <= ISZ[1]); return E.run_fn(f, [Ref(Cell(mk())), opt(LO) if hl else opt(), opt(HI) if hh else opt()])
                def replay(model, hl=hl, hh=hh):
                    lo = mval(model, LO) if hl else None; hi = mval(model, HI) if hh else None
                    l = py_clamp(lo, n) if lo is not None else 0; h = py_clamp(hi, n) if hi is not None else n; h = max(l, h)
                    return {'program': f'list({src}[{"" if lo is None else fmt_int(lo)}:{"" if hi is None else fmt_int(hi)}])', 'expect': {'equals': 'OK [' + ', '.join(str(100 + q) for q in range(l, h)) + ']'}}
                for pc, kd, res, lg in E.explore(run):
                    ob.paths += 1; name = f'default Stream::pythonic_slice n={n} on {carrier} lo={"i" if hl else "_"} hi={"i" if hh else "_"}'
                    pref = [[z3.And(LO >= -6, LO <= 6, HI >= -6, HI <= 6)]]
                    if kd == 'panic': ob.panic(name + ' panic-free', pc, res, replay=replay, cls='C11/default slice/panic', prefer=pref); continue
                    if kd != 'ok': ob.missing(name, f'{kd}: {res}'); continue
                    from props.C10 import z_clamp
                    l = z_clamp(LO, n) if hl else z3.IntVal(0); h = z_clamp(HI, n) if hh else z3.IntVal(n); h = z3.If(h > l, h, l)
                    if res.variant != 'Ok': goal = z3.BoolVal(False)
                    else:
                        sq = res.fields[0]
                        if sq.variant == 'List': ids = ids_of(sq)
                        elif sq.variant == 'Stream':
                            # a stream tail: enumerate it concretely
                            inner = sq.fields[0]; st = inner.obj.cell.v if isinstance(inner, RcV) else inner
                            while isinstance(st, BoxV): st = st.cell.v
                            ids = []
                            c2 = Cell(st)
                            for _ in range(n + 2):
                                o = E.dyn_dispatch('<dyn Stream as Iterator>::next', [Ref(c2)])
                                if o is NotImplemented: ids = None; break
                                if o.variant == 'None': break
                                ids.append(z3.simplify(obj_ident(o.fields[0].fields[0])).as_long())
                        else: ids = None
                        if ids is None: goal = z3.BoolVal(False)
                        else:
                            contiguous = all(b == a + 1 for a, b in zip(ids, ids[1:]))
                            goal = z3.BoolVal(False) if not contiguous else (z3.And(l == ids[0] - 100, h == ids[-1] - 100 + 1) if ids else l == h)
                    ob.check(name + f' -> {res.variant}', pc, goal, replay=replay, cls='C11/default slice/value', prefer=pref, sample='s[a:b] == list(s)[a:b]'); ob.witness(res.variant)
    else:
        def run(): return E.run_fn(f, [Ref(Cell(mk()))])
        want = {'len': f'OK {n}', 'force': None, 'reversed': 'OK [' + ', '.join(str(100 + q) for q in reversed(range(n))) + ']'}[meth]
        prog = {'len': f'len({src})', 'force': f'list({src})', 'reversed': f'reverse({src})'}[meth]
        if meth == 'force': want = 'OK [' + ', '.join(str(100 + q) for q in range(n)) + ']'
        replay = lambda model: {'program': prog, 'expect': {'equals': want}}
        for pc, kd, res, lg in E.explore(run):
            ob.paths += 1; name = f'default Stream::{meth} n={n} on {carrier}'
            if kd == 'panic': ob.panic(name + ' panic-free', pc, res, replay=replay, cls=f'C11/default {meth}/panic'); continue
            if kd != 'ok': ob.missing(name, f'{kd}: {res}'); continue
            if meth == 'len': g = res.variant == 'Some' and z3.is_true(z3.simplify(res.fields[0] == n))
            elif meth == 'force': g = res.variant == 'Ok' and [z3.simplify(obj_ident(x)).as_long() for x in res.fields[0].fields] == [100 + q for q in range(n)]
            else: g = res.variant == 'Ok' and ids_of(res.fields[0]) == [100 + q for q in reversed(range(n))]
            ob.check(name, pc, z3.BoolVal(bool(g)), replay=replay, cls=f'C11/default {meth}/value', sample=f'{meth} agrees with the list of remaining elements'); ob.witness('ok')
    ob.absorb_engine(E)

# ------------------------------------------------------------------------------------------------ overrides of a wrapper stream: stream(seq) must be a finite stream
def shape_wrapped(item, ob):
    meth, n, pos = item
    E = eng()
    fs = [f for f in E.by_last.get(meth, []) if 'WrappedVec' in (f.params[0][1] if f.params else '') and '{closure' not in f.name]
    if not fs: fs = [g for g in E.by_last.get(meth, []) if g.name.startswith('core::Stream::') and '{closure' not in g.name]      # inherited trait default
    if len(fs) != 1: raise Missing(f'WrappedVec::{meth} not found uniquely ({len(fs)})')
    f = fs[0]
    def run(): return E.run_fn(f, [Ref(Cell(Adt('WrappedVec', None, [RcV(RcObj(Seq([objn(100 + k) for k in range(n)]))), z3.IntVal(pos)])))])
    rem = list(range(100 + pos, 100 + n))
    src = 'stream([' + ', '.join(str(100 + k) for k in range(n)) + '])' + (f' drop {pos}' if pos else '')
    if meth == 'pythonic_index_isize':
        # the index of a partly consumed wrapper stream (whichever of the override / the trait default is in force): s[i] == list(s)[i], i over all of isize
        I = z3.Int('i'); nr = len(rem)
        def run_i(): E.assume(I >= ISZ[0], I <= ISZ[1]); return E.run_fn(f, [Ref(Cell(Adt('WrappedVec', None, [RcV(RcObj(Seq([objn(100 + k) for k in range(n)]))), z3.IntVal(pos)]))), I])
        def replay_i(model):
            i = mval(model, I); p = i if 0 <= i < nr else (nr + i if -nr <= i < 0 else None)
            return {'program': f'({src})[{fmt_int(i)}]', 'expect': {'equals': f'OK {rem[p]}'} if p is not None else {'prefix': 'ERR'}}
        for pc, kd, res, lg in E.explore(run_i):
            ob.paths += 1; name = f'WrappedVec::pythonic_index_isize n={n} pos={pos}'; pref = [[z3.And(I >= -6, I <= 6)]]
            if kd == 'panic': ob.panic(name + ' panic-free', pc, res, replay=replay_i, cls='C11/WrappedVec index/panic', prefer=pref); continue
            if kd != 'ok': ob.missing(name, f'{kd}: {res}'); continue
            valid = z3.And(I >= -nr, I < nr); p = z3.If(I >= 0, I, I + nr)
            goal = z3.And(valid, obj_ident(res.fields[0]) == 100 + pos + p) if res.variant == 'Ok' else z3.Not(valid)
            ob.check(name + f' -> {res.variant}', pc, goal, replay=replay_i, cls='C11/WrappedVec index/value', prefer=pref, sample='s[i] == list(s)[i] for a partly consumed stream(seq)'); ob.witness(res.variant)
        ob.absorb_engine(E); return
    replay = lambda model: {'program': f'len({src})' if meth == 'len' else f'list(reverse({src}))', 'expect': {'equals': f'OK {len(rem)}' if meth == 'len' else 'OK [' + ', '.join(map(str, reversed(rem))) + ']'}}
    for pc, kd, res, lg in E.explore(run):
        ob.paths += 1; name = f'WrappedVec::{meth} n={n} pos={pos}'
        if kd == 'panic': ob.panic(name, pc, res, replay=replay, cls='C11/WrappedVec/panic'); continue
        if kd != 'ok': ob.missing(name, f'{kd}: {res}'); continue
        if meth == 'len': g = res.variant == 'Some' and z3.is_true(z3.simplify(res.fields[0] == len(rem)))
        else: g = res.variant == 'Ok' and [z3.simplify(obj_ident(x)).as_long() for x in res.fields[0].fields] == rem
        ob.check(name, pc, z3.BoolVal(bool(g)), replay=replay, cls=f'C11/WrappedVec::{meth}', sample='stream(seq) is a finite stream: len = remaining elements, force = those elements'); ob.witness('ok')
    ob.absorb_engine(E)

# ------------------------------------------------------------------------------------------------ Cycle / Repeat
def shape_cycle(item, ob):
    n, = item
    E = eng(); I, P = z3.Int('i'), z3.Int('pos')
    f_idx = streams_fn(E, 'Cycle', 'pythonic_index_isize'); f_next = streams_fn(E, 'Cycle', 'next')
    def mk(): E.assume(P >= 0, P < max(n, 1), I >= ISZ[0], I <= ISZ[1]); return Adt('Cycle', None, [RcV(RcObj(Seq([objn(100 + k) for k in range(n)]))), P])
    def replay(model):
        i, p = mval(model, I), mval(model, P)
        base = '[' + ', '.join(str(100 + k) for k in range(n)) + ']'
        if n == 0: return {'program': f'try cycle({base})[{fmt_int(i)}] catch e -> "err"', 'expect': {'not_panic': 1}}
        return {'program': f'(cycle({base}) drop {p})[{fmt_int(i)}]', 'expect': {'equals': f'OK {100 + (p + i) % n}'}}
    pref = [[z3.And(I >= -6, I <= 6)]]
    def run_idx(): return E.run_fn(f_idx, [Ref(Cell(mk())), I])
    for pc, kd, res, lg in E.explore(run_idx):
        ob.paths += 1; name = f'Cycle::pythonic_index_isize n={n}'
        if kd == 'panic': ob.panic(name + ' panic-free', pc, res, replay=replay, cls='C11/Cycle index/panic', prefer=pref); continue
        if kd != 'ok': ob.missing(name, f'{kd}: {res}'); continue
        goal = z3.And(z3.BoolVal(res.variant == 'Ok'), obj_ident(res.fields[0]) == 100 + (P + I) % n) if res.variant == 'Ok' else z3.BoolVal(False)
        ob.check(name, pc, goal, replay=replay, cls='C11/Cycle index/value', prefer=pref, sample='cycle index == base[(pos + i) mod n]'); ob.witness('ok')
    def run_next():
        c = Cell(mk()); o = E.run_fn(f_next, [Ref(c)]); return o, c.v
    for pc, kd, res, lg in E.explore(run_next):
        ob.paths += 1; name = f'Cycle::next n={n}'
        if kd == 'panic': ob.panic(name + ' panic-free', pc, res, replay=lambda m: {'program': 'try first(cycle([])) catch e -> "err"', 'expect': {'not_panic': 1}} if n == 0 else None, cls='C11/Cycle next/panic'); continue
        if kd != 'ok': ob.missing(name, f'{kd}: {res}'); continue
        o, after = res
        goal = z3.And(obj_ident(o.fields[0].fields[0]) == 100 + P, after.fields[1] == (P + 1) % n)
        ob.check(name, pc, goal, cls='C11/Cycle next/value', sample='yields base[pos], pos advances cyclically'); ob.witness('ok')
    ob.absorb_engine(E)

def shape_cycle_ctor(item, ob):
    """the `cycle` builtin establishes Cycle's invariant (non-empty base): an empty sequence is an error, not a stream that panics later"""
    n, = item
    from props.C06 import builtin_closures
    E = eng(); cl = builtin_closures(E)
    if 'cycle' not in cl: raise Missing('builtin closure `cycle` not found')
    f = cl['cycle']
    def run(): return E.run_fn(f, [Closure(f.params[0][1], []), Adt('Obj', 'Seq', [Adt('Seq', 'List', [base_list(n)])])])
    base = '[' + ', '.join(str(100 + k) for k in range(n)) + ']'
    replay = lambda model: {'program': f'try first(cycle({base})) catch e -> "err"', 'expect': {'equals': 'OK "err"' if n == 0 else 'OK 100'}}
    for pc, kd, res, lg in E.explore(run):
        ob.paths += 1; name = f'cycle builtin on a list of {n}'
        if kd == 'panic': ob.panic(name, pc, res, replay=replay, cls='C11/cycle ctor/panic'); continue
        if kd != 'ok': ob.missing(name, f'{kd}: {res}'); continue
        ob.check(name, pc, z3.BoolVal((res.variant == 'Err') == (n == 0)), replay=replay, cls='C11/cycle ctor/empty-accepted', sample='cycle([]) is rejected'); ob.witness(res.variant)
    ob.absorb_engine(E)

def run_shape(item, ob):
    if item[0] == 'pair':
        from props import equiv
        equiv.MIR = MIR; return equiv.run_item(item, ob)
    fam, payload = item
    {'cycle_ctor': shape_cycle_ctor, 'range': shape_range, 'comb': shape_comb, 'done': shape_done, 'default': shape_default, 'wrapped': shape_wrapped, 'cycle': shape_cycle}[fam](payload, ob)

def main(tier, seed, t0):
    global MIR
    MIR, th = load_mir('on')
    rnd = random.Random(seed); items = []
    repc = list(itertools.product(('Small', 'Big'), repeat=3))
    for what in ('next', 'len'):
        for reps in (repc if tier != 'quick' else [repc[0], repc[-1]] + rnd.sample(repc[1:-1], 2)):
            items.append(('range', (what, reps, True)))
        items.append(('range', (what, ('Small', 'Small', 'Small'), False))); items.append(('range', (what, ('Big', 'Small', 'Big'), False)))
    N = 3 if tier == 'quick' else 4
    for n in range(0, N + 1):
        items.append(('comb', ('Permutations', n, n))); items.append(('comb', ('Subsequences', n, n)))
        for k in range(0, n + 2):
            items.append(('comb', ('Combinations', n, k)))
            if n >= 1 and k <= 3: items.append(('comb', ('CartesianPower', n, k)))
    for kind in ('Permutations', 'Combinations', 'Subsequences', 'CartesianPower'): items.append(('done', (kind, 2)))
    for meth in ('len', 'force', 'reversed', 'pythonic_index_isize', 'pythonic_slice'):
        for n in range(0, N + 1): items.append(('default', (meth, n, 'Range')))
    for meth in ('len', 'force'):
        for n, pos in ((0, 0), (2, 0), (3, 1), (3, 3)): items.append(('wrapped', (meth, n, pos)))
    for n, pos in ((0, 0), (2, 0), (3, 1), (3, 2), (3, 3)): items.append(('wrapped', ('pythonic_index_isize', n, pos)))
    for n in range(1, 4): items.append(('cycle', (n,)))          # Cycle's invariant: non-empty base (established by the constructor, checked below)
    for n in (0, 2): items.append(('cycle_ctor', (n,)))
    rnd.shuffle(items)
    from props import equiv
    equiv.MIR = MIR; equiv.preparse('C11'); items += equiv.items_for('C11')          # lazy map / filter / zip through the real evaluator (props/equiv.py family C11)
    merged, per = pmap(run_shape, items, tier)
    return finish(PROP, tier, seed, merged, t0, th=th,
        kernels=['streams.rs: Range::{empty, next, len}, Permutations/Combinations/Subsequences/CartesianPower::{next, len}, Cycle::{next, pythonic_index_isize}', 'core.rs: trait Stream default methods len, force, pythonic_index_isize, pythonic_slice, reversed; WrappedVec::{len, force}'],
        bounds={'Range': 'start, end, step over all of Z in Small/Big representations (combinations sampled by VERIF_SEED in the quick tier), with and without an end', 'combinatorial': f'base length 0..{N}, selection size 0..len+1, one step from every representation-valid state',
                'default methods': f'finite stream of 0..{N} remaining elements, index and both slice bounds over all of isize'},
        outside=['lazy map/filter/zip/iterate adaptors (call back into the evaluator)', 'counts beyond usize', 'Repeat (constant stream)', 'constructor builtins (til/to/by argument handling)'],
        assumptions=['representation invariants of the index vectors are assumed for the pre-state and asserted for the post-state', 'iterator adaptors inside the kernels are evaluated eagerly in order (mirsym/iters.py)'])
