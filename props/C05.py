"""C05 — control flow, scoping and closures follow the documented semantics (statement level).

The real `evaluate` (with eval_lvalue, assign, assign_all, insert_declare, assign_respecting_type, Env::{with_parent,
try_borrow_get_var, modify_existing_var, insert}, Closure::run, evaluate_for, ChainEvaluator, the real `+ - *` builtins) is
executed symbolically on the parse tree that noulith's own parser produces for each program of a family (props/evalh.py);
the program's free variables x, y are symbolic integers.  Oracle: a reference interpreter of the documented rules (static
lexical scoping, a fresh scope per call / loop iteration / catch clause, `:=` declares and refuses redeclaration, `=`
assigns to the nearest enclosing declaration and refuses undeclared names, closures capture variables, break / continue
with repeat counts and break values, return, try / catch / throw, short-circuit and / or / coalesce, lambda defaults,
`for … yield`), itself evaluated symbolically: every implementation path must agree with the reference on value /
raised-or-not and on the printed output, for all x, y."""
import itertools, random
import z3
from lib.common import *
from props import evalh

PROP = 'C05'
MIR = None
X, Y = z3.Int('x'), z3.Int('y')

# ------------------------------------------------------------------------------------------------ program DSL -> source
def src(p, top=True):
    k = p[0]
    def S(q): return src(q, False)
    if k == 'num': return str(p[1]) if p[1] >= 0 else f'(0-{-p[1]})'
    if k == 'var': return p[1]
    if k == 'null': return 'null'
    if k == 'bin': return f'({S(p[2])} {p[1]} {S(p[3])})'
    if k == 'if': return f'(if ({S(p[1])}) {S(p[2])}' + (f' else {S(p[3])})' if p[3] is not None else ')')
    if k == 'seq': return ('' if top else '(') + '; '.join(src(q, 'stmt') for q in p[1]) + ('' if top else ')')
    if k in ('decl', 'set', 'opset'):
        t = f'{p[1]} := {S(p[2])}' if k == 'decl' else f'{p[1]} = {S(p[2])}' if k == 'set' else f'{p[1]} {p[2]}= {S(p[3])}'
        return t if top else f'({t})'          # a statement directly inside a sequence needs no parentheses; anywhere else it does
    if k == 'while': return f'(while ({S(p[1])}) {S(p[2])})'
    if k == 'for': return f'(for ({p[1]} <- {S(p[2])}) {S(p[3])})'
    if k == 'foryield': return f'(for ({p[1]} <- {S(p[2])}' + (f'; if {S(p[3])}' if p[3] is not None else '') + f') yield {S(p[4])})'
    if k == 'list': return '[' + ', '.join(S(q) for q in p[1]) + ']'
    if k == 'break': return '(' + ' '.join(['break'] * (p[1] + 1)) + (f' {S(p[2])}' if p[2] is not None else '') + ')'
    if k == 'continue': return '(' + ' '.join(['break'] * p[1] + ['continue']) + ')'
    if k == 'return': return f'(return {S(p[1])})'
    if k == 'lam': return '(\\' + ', '.join(n if d is None else f'{n} = {S(d)}' for n, d in p[1]) + f' -> {S(p[2])})'
    if k == 'call': return f'{S(p[1])}(' + ', '.join(S(q) for q in p[2]) + ')'
    if k == 'try': return f'(try {S(p[1])} catch {p[2]} -> {S(p[3])})'
    if k == 'trylit': return f'(try {S(p[1])} catch {p[2]} -> {S(p[3])})'          # a literal pattern in the catch clause
    if k == 'throw': return f'(throw {S(p[1])})'
    if k in ('and', 'or', 'coalesce'): return f'({S(p[1])} {k} {S(p[2])})'
    if k == 'print': return f'print({S(p[1])})'
    if k == 'opref': return p[1]
    if k == 'chain': return '(' + ('_' if p[1] == ('slot',) else S(p[1])) + ''.join(f' {fn} {"_" if q == ("slot",) else S(q)}' for fn, q in p[2]) + ')'
    raise ValueError(p)

# ------------------------------------------------------------------------------------------------ reference interpreter (symbolic)
class RErr(Exception):
    def __init__(s, kind, val=None): s.kind, s.val = kind, val
class RBrk(Exception):
    def __init__(s, n, val): s.n, s.val = n, val
class RCont(Exception):
    def __init__(s, n): s.n = n
class RRet(Exception):
    def __init__(s, val): s.val = val
class Scope:
    def __init__(s, parent=None): s.vars, s.parent = {}, parent
    def find(s, n):
        sc = s
        while sc is not None:
            if n in sc.vars: return sc.vars[n]
            sc = sc.parent
        return None
class Clo:
    def __init__(s, params, body, scope): s.params, s.body, s.scope = params, body, scope
class Ref:
    """one run of the reference under a decision vector"""
    def __init__(s, dec): s.dec, s.pos, s.conds, s.out, s.steps = dec, 0, [], [], 0
    def choose(s, c):
        c = z3.simplify(c)
        if z3.is_true(c): return True
        if z3.is_false(c): return False
        if s.pos < len(s.dec): b = s.dec[s.pos]
        else: b = True; s.dec.append(True)
        s.pos += 1; s.conds.append(c if b else z3.Not(c)); return b
    def truthy(s, v):
        if v is None: return False
        if isinstance(v, list): return len(v) > 0
        if isinstance(v, Clo): return True
        return s.choose(v != 0)
    def ev(s, p, sc):
        s.steps += 1
        if s.steps > 4000: raise RErr('fuel')
        k = p[0]
        if k == 'num': return z3.IntVal(p[1])
        if k == 'null': return None
        if k == 'var':
            c = sc.find(p[1])
            if c is None: raise RErr('error')
            return c[0]
        if k == 'bin':
            a = s.ev(p[2], sc); b = s.ev(p[3], sc)
            if not (z3.is_expr(a) and z3.is_expr(b)): raise RErr('error')
            op = p[1]
            if op in ('+', '-', '*'): return {'+': a + b, '-': a - b, '*': a * b}[op]
            return z3.If({'<': a < b, '>': a > b, '<=': a <= b, '>=': a >= b, '==': a == b, '!=': a != b}[op], z3.IntVal(1), z3.IntVal(0))
        if k == 'if':
            if s.truthy(s.ev(p[1], sc)): return s.ev(p[2], sc)
            return s.ev(p[3], sc) if p[3] is not None else None
        if k == 'seq':
            v = None
            for q in p[1]: v = s.ev(q, sc)
            return v
        if k == 'decl':
            v = s.ev(p[2], sc)
            if p[1] in sc.vars: raise RErr('error')          # `:=` refuses redeclaration in the same scope
            sc.vars[p[1]] = [v]; return None
        if k == 'set':
            v = s.ev(p[2], sc); c = sc.find(p[1])
            if c is None: raise RErr('error')                 # `=` refuses undeclared names
            c[0] = v; return None
        if k == 'opset':
            c = sc.find(p[1])
            if c is None: raise RErr('error')
            old = c[0]; b = s.ev(p[3], sc)                   # x f= b  is  x = f(x, b): b is evaluated while x still has its value
            if not (z3.is_expr(old) and z3.is_expr(b)): raise RErr('error')
            c = sc.find(p[1]); c[0] = {'+': old + b, '-': old - b, '*': old * b}[p[2]]; return None
        if k == 'while':
            while True:
                if not s.truthy(s.ev(p[1], sc)): return None
                try: s.ev(p[2], Scope(sc))                    # a fresh scope per iteration
                except RBrk as e:
                    if e.n == 0: return e.val
                    raise RBrk(e.n - 1, e.val)
                except RCont as e:
                    if e.n > 0: raise RCont(e.n - 1)
        if k in ('for', 'foryield'):
            xs = s.ev(p[2], sc)
            if not isinstance(xs, list): raise RErr('error')
            acc = []
            for x in xs:
                it = Scope(sc); it.vars[p[1]] = [x]
                try:
                    if k == 'for': s.ev(p[3], it)
                    else:
                        if p[3] is not None and not s.truthy(s.ev(p[3], it)): continue
                        acc.append(s.ev(p[4], it))
                except RBrk as e:
                    if e.n == 0: return e.val
                    raise RBrk(e.n - 1, e.val)
                except RCont as e:
                    if e.n > 0: raise RCont(e.n - 1)
            return acc if k == 'foryield' else None
        if k == 'list': return [s.ev(q, sc) for q in p[1]]
        if k == 'break': raise RBrk(p[1], s.ev(p[2], sc) if p[2] is not None else None)
        if k == 'continue': raise RCont(p[1])
        if k == 'return': raise RRet(s.ev(p[1], sc))
        if k == 'lam': return Clo(p[1], p[2], sc)
        if k == 'call':
            f = s.ev(p[1], sc); args = [s.ev(q, sc) for q in p[2]]
            if isinstance(f, tuple) and f[0] == 'section':
                it = iter(args); vals = []
                for v in f[1]:
                    if isinstance(v, tuple) and v == ('slot',):
                        try: v = next(it)
                        except StopIteration: raise RErr('error')
                    vals.append(v)
                return s.reduce(vals, f[2])
            if not isinstance(f, Clo): raise RErr('error')
            fs = Scope(f.scope)                                # a fresh scope per call, child of the defining scope
            if len(args) > len(f.params): raise RErr('error')
            for i, (n, d) in enumerate(f.params):
                if i < len(args): v = args[i]
                elif d is not None: v = s.ev(d, fs)
                else: raise RErr('error')
                if n in fs.vars: raise RErr('error')
                fs.vars[n] = [v]
            try: return s.ev(f.body, fs)
            except RRet as e: return e.val
        if k == 'try':
            try: return s.ev(p[1], sc)
            except RErr as e:
                if e.kind == 'fuel': raise
                cs = Scope(sc)                                 # a fresh scope per catch clause
                cs.vars[p[2]] = [e.val if e.kind == 'throw' else ('errmsg',)]
                return s.ev(p[3], cs)
        if k == 'trylit':
            # a catch clause whose pattern refuses the thrown value does not handle it: the original value keeps propagating
            try: return s.ev(p[1], sc)
            except RErr as e:
                if e.kind == 'fuel': raise
                if e.kind == 'throw' and z3.is_expr(e.val) and s.choose(e.val == p[2]): return s.ev(p[3], Scope(sc))
                raise
        if k == 'throw': raise RErr('throw', s.ev(p[1], sc))
        if k == 'and':
            a = s.ev(p[1], sc); return s.ev(p[2], sc) if s.truthy(a) else a
        if k == 'or':
            a = s.ev(p[1], sc); return a if s.truthy(a) else s.ev(p[2], sc)
        if k == 'coalesce':
            a = s.ev(p[1], sc); return a if a is not None else s.ev(p[2], sc)
        if k == 'print':
            s.out.append(s.ev(p[1], sc)); return None
        if k == 'opref': return ('builtin', p[1])
        if k == 'chain':
            # operands and operator expressions are evaluated strictly left to right (e0, f1, e1, f2, e2, …), then reduced by precedence;
            # with a `_` slot the result is a section: a function of the missing operand
            vals = [('slot',) if p[1] == ('slot',) else s.ev(p[1], sc)]; ops = []
            for fn, q in p[2]:
                c = sc.find(fn)
                if c is None: raise RErr('error')
                fv = c[0]
                if not (isinstance(fv, tuple) and fv[0] == 'builtin'): raise RErr('error')
                ops.append(fv[1]); vals.append(('slot',) if q == ('slot',) else s.ev(q, sc))
            if any(v == ('slot',) for v in vals if isinstance(v, tuple)): return ('section', vals, ops)
            return s.reduce(vals, ops)
        raise ValueError(p)
    def reduce(s, vals, ops):
        PREC = {'+': 1, '-': 1, '*': 2}
        vs, os_ = [vals[0]], []
        def apply():
            b = vs.pop(); a = vs.pop(); op = os_.pop()
            if not (z3.is_expr(a) and z3.is_expr(b)): raise RErr('error')
            vs.append({'+': a + b, '-': a - b, '*': a * b}[op])
        for op, v in zip(ops, vals[1:]):
            while os_ and PREC[os_[-1]] >= PREC[op]: apply()          # left-associative
            os_.append(op); vs.append(v)
        while os_: apply()
        return vs[0]

def ref_outcomes(prog, pre):
    """[(condition, outcome, printed)] — exhaustive and mutually exclusive; outcome = ('val', v) | ('throw', v) | ('error',)"""
    outs = []; stack = [[]]
    while stack:
        dec = stack.pop(); r = Ref(list(dec)); n0 = len(dec)
        top = Scope(); top.vars['x'] = [X]; top.vars['y'] = [Y]
        try: o = ('val', r.ev(prog, Scope(top)))
        except RErr as e:
            if e.kind == 'fuel': raise Missing('reference interpreter: fuel exhausted (unbounded loop in the program family?)')
            o = ('throw', e.val) if e.kind == 'throw' else ('error',)
        except (RBrk, RCont): o = ('error',)
        except RRet as e: o = ('val', e.val)
        cond = z3.And(*r.conds) if r.conds else z3.BoolVal(True)
        s = z3.Solver(); s.set('timeout', 3000); s.add(*pre, cond)
        if s.check() != z3.unsat: outs.append((cond, o, list(r.out)))
        for i in range(n0, len(r.dec)):
            stack.append(r.dec[:i] + [False])
        if len(outs) > 400: raise Missing('reference interpreter: too many cases')
    return outs

# ------------------------------------------------------------------------------------------------ comparison of values
def val_eq(o, v):
    """z3 Bool: the Obj of the real run is the reference value"""
    if not isinstance(o, Adt) or o.ty != 'Obj': return z3.BoolVal(False)
    if v is None: return z3.BoolVal(o.variant == 'Null')
    if isinstance(v, list):
        if not (o.variant == 'Seq' and o.fields[0].variant == 'List'): return z3.BoolVal(False)
        items = o.fields[0].fields[0].obj.cell.v.fields
        if len(items) != len(v): return z3.BoolVal(False)
        return z3.And(*[val_eq(a, b) for a, b in zip(items, v)]) if items else z3.BoolVal(True)
    if isinstance(v, Clo): return z3.BoolVal(o.variant == 'Func')
    if isinstance(v, tuple): return z3.BoolVal(True)           # the message of a caught runtime error: not specified
    i = evalh.ival(o)
    return z3.BoolVal(False) if i is None else i == v
def render(v, model):
    if v is None: return 'null'
    if isinstance(v, list): return '[' + ', '.join(render(q, model) for q in v) + ']'
    if isinstance(v, Clo) or isinstance(v, tuple): return None
    return str(mval(model, v))

# ------------------------------------------------------------------------------------------------ the program family
def N(k): return ('num', k)
def V(n): return ('var', n)
def B(op, a, b): return ('bin', op, a, b)
def SEQ(*q): return ('seq', list(q))
def LAM(params, body): return ('lam', [(p, None) if isinstance(p, str) else p for p in params], body)
def family():
    P = []
    a, b, i, j, f, g = V('a'), V('b'), V('i'), V('j'), V('f'), V('g')
    L123 = ('list', [N(1), N(2), N(3)]); Lxy = ('list', [V('x'), V('y'), N(3)])
    # conditionals and short circuit
    P += [('if', B('<', V('x'), V('y')), V('x'), V('y')), ('if', B('==', V('x'), N(0)), N(7), None),
          ('and', V('x'), V('y')), ('or', V('x'), V('y')), ('coalesce', ('null',), V('x')), ('coalesce', V('x'), ('throw', N(1))),
          ('or', V('x'), ('throw', V('y'))), ('and', V('x'), ('throw', V('y'))), SEQ(('decl', 'a', N(0)), ('and', V('x'), ('set', 'a', N(5))), a)]
    # declaration / assignment rules
    P += [SEQ(('decl', 'a', V('x')), ('set', 'a', B('+', a, N(1))), a), SEQ(('decl', 'a', N(1)), ('decl', 'a', N(2)), a), SEQ(('set', 'q', N(1)), N(0)), SEQ(V('q')),
          SEQ(('decl', 'a', V('x')), ('opset', 'a', '+', a), a), SEQ(('decl', 'a', V('x')), ('opset', 'a', '-', B('*', a, V('y'))), a),
          SEQ(('decl', 'a', N(1)), ('if', V('x'), SEQ(('decl', 'a', N(2)), ('set', 'a', N(3))), None), a),
          SEQ(('decl', 'a', N(1)), ('call', LAM([], SEQ(('decl', 'a', N(2)), ('set', 'a', N(3)))), []), a),
          SEQ(('decl', 'a', N(1)), ('call', LAM([], ('set', 'a', V('x'))), []), a)]
    # loops, break / continue with counts and values
    P += [SEQ(('decl', 'a', N(0)), ('while', B('<', a, N(3)), ('opset', 'a', '+', N(1))), a),
          SEQ(('decl', 'a', N(0)), ('for', 'i', L123, ('opset', 'a', '+', B('*', i, V('x')))), a),
          SEQ(('decl', 'a', N(0)), ('for', 'i', L123, SEQ(('if', B('==', i, N(2)), ('continue', 0), None), ('opset', 'a', '+', i))), a),
          SEQ(('decl', 'a', N(0)), ('for', 'i', Lxy, SEQ(('if', B('<', i, N(0)), ('break', 0, None), None), ('opset', 'a', '+', i))), a),
          ('for', 'i', Lxy, ('if', B('>', i, N(2)), ('break', 0, B('*', i, N(10))), None)),
          SEQ(('decl', 'a', N(0)), ('for', 'i', L123, ('for', 'j', L123, SEQ(('if', B('==', j, N(2)), ('continue', 1), None), ('opset', 'a', '+', B('*', i, j))))), a),
          SEQ(('decl', 'a', N(0)), ('for', 'i', L123, ('for', 'j', L123, SEQ(('if', B('==', B('*', i, j), V('x')), ('break', 1, None), None), ('opset', 'a', '+', N(1))))), a),
          ('for', 'i', L123, ('for', 'j', L123, ('if', B('==', B('+', i, j), V('x')), ('break', 1, B('*', i, j)), None))),
          SEQ(('decl', 'a', N(0)), ('decl', 'k', N(0)), ('while', B('<', V('k'), N(3)), SEQ(('opset', 'k', '+', N(1)), ('if', B('==', V('k'), V('x')), ('continue', 0), None), ('opset', 'a', '+', V('k')))), a),
          SEQ(('decl', 'k', N(0)), ('while', N(1), SEQ(('opset', 'k', '+', N(1)), ('if', B('>=', V('k'), N(2)), ('break', 0, B('+', V('k'), V('x'))), None)))),
          ('foryield', 'i', Lxy, None, B('*', i, N(2))), ('foryield', 'i', Lxy, B('>', i, N(0)), i), ('foryield', 'i', L123, B('!=', i, V('x')), B('+', i, V('y'))),
          SEQ(('for', 'i', L123, ('decl', 'a', i)), N(9)), SEQ(('for', 'i', L123, ('decl', 'a', i)), V('a')), SEQ(('for', 'i', L123, N(0)), i)]
    # functions, closures, return, defaults
    P += [SEQ(('decl', 'f', LAM(['k'], B('+', V('k'), V('y')))), ('call', f, [V('x')])),
          SEQ(('decl', 'f', LAM(['k', ('m', N(2))], B('*', V('k'), V('m')))), ('list', [('call', f, [V('x')]), ('call', f, [V('x'), V('y')])])),
          SEQ(('decl', 'f', LAM(['k'], V('k'))), ('call', f, [])), SEQ(('decl', 'f', LAM(['k'], V('k'))), ('call', f, [N(1), N(2)])),
          SEQ(('decl', 'f', LAM(['k'], SEQ(('if', B('<', V('k'), N(0)), ('return', N(0)), None), B('*', V('k'), N(2))))), ('call', f, [V('x')])),
          SEQ(('decl', 'f', LAM(['k'], SEQ(('for', 'i', L123, ('if', B('==', i, V('k')), ('return', B('*', i, N(100))), None)), N(-1)))), ('call', f, [V('x')])),
          # closures capture variables, not values
          SEQ(('decl', 'a', N(1)), ('decl', 'f', LAM([], a)), ('set', 'a', V('x')), ('call', f, [])),
          SEQ(('decl', 'mk', LAM(['s'], ('list', [LAM([], V('s')), LAM(['v'], ('set', 's', V('v')))]))), ('decl', 'c', ('call', V('mk'), [N(0)])),
              ('decl', 'g', ('call', LAM(['p'], V('p')), [V('c')])), N(0)),
          SEQ(('decl', 'cnt', N(0)), ('decl', 'inc', LAM([], SEQ(('opset', 'cnt', '+', V('x')), V('cnt')))), ('call', V('inc'), []), ('call', V('inc'), []), V('cnt')),
          # one closure per iteration captures that iteration's variable
          SEQ(('decl', 'fs', ('foryield', 'i', Lxy, None, LAM([], i))), ('foryield', 'h', V('fs'), None, ('call', V('h'), []))),
          SEQ(('decl', 'f', LAM(['k'], LAM(['m'], B('+', V('k'), V('m'))))), ('call', ('call', f, [V('x')]), [V('y')])),
          # a closure that escapes its defining scope keeps it alive
          SEQ(('decl', 'f', ('call', LAM([], SEQ(('decl', 'loc', V('x')), LAM([], SEQ(('opset', 'loc', '+', N(1)), V('loc'))))), [])), ('call', f, []), ('call', f, []))]
    # a closure created in a while body keeps that iteration's variable (fresh scope per iteration)
    P += [SEQ(('decl', 'f1', ('null',)), ('decl', 'f2', ('null',)), ('decl', 'k', N(0)),
              ('while', B('<', V('k'), N(2)), SEQ(('decl', 'j', B('+', V('k'), V('x'))), ('if', B('==', V('k'), N(0)), ('set', 'f1', LAM([], V('j'))), ('set', 'f2', LAM([], V('j')))), ('opset', 'k', '+', N(1)))),
              ('list', [('call', V('f1'), []), ('call', V('f2'), [])])),
          SEQ(('decl', 'g', ('null',)), ('decl', 'k', N(0)), ('while', B('<', V('k'), N(3)), SEQ(('decl', 'j', B('*', V('k'), N(10))), ('if', B('==', V('k'), V('x')), ('set', 'g', LAM([], SEQ(('opset', 'j', '+', N(1)), V('j')))), None), ('opset', 'k', '+', N(1)))),
              ('if', g, ('list', [('call', g, []), ('call', g, [])]), N(-1))),
          # multi-level continue out of a yield comprehension, and control flow raised while a for clause is evaluated
          SEQ(('decl', 'a', N(0)), ('for', 'i', L123, SEQ(('decl', 'b', ('foryield', 'j', L123, None, ('if', B('==', j, V('x')), ('continue', 1), j))), ('opset', 'a', '+', N(1)))), a),
          SEQ(('decl', 'a', N(0)), ('for', 'i', L123, ('for', 'k', L123, SEQ(('decl', 'b', ('foryield', 'j', L123, None, ('if', B('==', B('+', j, V('k')), V('x')), ('continue', 2), j))), ('opset', 'a', '+', N(1))))), a),
          # (a `break` in the same position is absorbed by the loop whose clause is being evaluated — undocumented either way, not part of the family)
          SEQ(('decl', 'a', N(0)), ('for', 'i', L123, SEQ(('for', 'j', ('if', B('==', i, V('x')), ('continue', 0), L123), ('opset', 'a', '+', N(1))), ('opset', 'a', '+', N(100)))), a)]
    # operator chains through identifiers: operands and operator expressions are evaluated left to right, directly and as a `_` section
    SLOT = ('slot',)
    P += [SEQ(('decl', 'f', ('opref', '+')), ('chain', V('x'), [('f', SEQ(('set', 'f', ('opref', '-')), N(2))), ('f', V('y'))])),
          SEQ(('decl', 'f', ('opref', '+')), ('decl', 's', ('chain', V('x'), [('f', SEQ(('set', 'f', ('opref', '-')), N(2))), ('f', SLOT)])), ('call', V('s'), [V('y')])),
          SEQ(('decl', 'f', ('opref', '+')), ('decl', 's', ('chain', V('x'), [('f', SEQ(('set', 'f', ('opref', '*')), N(2))), ('f', SLOT)])), ('call', V('s'), [V('y')])),
          SEQ(('decl', 'f', ('opref', '-')), ('decl', 'g', ('opref', '*')), ('chain', V('x'), [('f', V('y')), ('g', N(3))])),
          SEQ(('decl', 'f', ('opref', '-')), ('decl', 's', ('chain', SLOT, [('f', V('x')), ('f', V('y'))])), ('call', V('s'), [N(100)])),
          SEQ(('decl', 'f', ('opref', '+')), ('chain', ('print', N(1)) and SEQ(('print', N(1)), V('x')), [('f', SEQ(('print', N(2)), V('y'))), ('f', SEQ(('print', N(3)), N(1)))]))]
    # try / catch / throw
    P += [('try', ('throw', V('x')), 'e', B('+', V('e'), N(1))), ('try', V('x'), 'e', N(0)), ('try', V('q'), 'e', N(5)), ('throw', V('x')),
          ('try', ('try', ('throw', V('x')), 'e', ('throw', B('+', V('e'), N(1)))), 'e', B('*', V('e'), N(2))),
          SEQ(('decl', 'f', LAM(['k'], ('if', B('<', V('k'), N(0)), ('throw', V('k')), V('k')))), ('try', ('call', f, [V('x')]), 'e', N(-1))),
          SEQ(('decl', 'a', N(0)), ('try', SEQ(('set', 'a', N(1)), ('throw', N(9)), ('set', 'a', N(2))), 'e', N(0)), a),
          SEQ(('decl', 'e', N(7)), ('try', ('throw', N(1)), 'e', N(0)), V('e')),
          SEQ(('decl', 'a', N(0)), ('for', 'i', L123, ('try', SEQ(('if', B('==', i, V('x')), ('throw', i), None), ('opset', 'a', '+', i)), 'e', ('opset', 'a', '+', N(100)))), a),
          ('for', 'i', L123, ('try', ('if', B('==', i, V('x')), ('break', 0, N(42)), None), 'e', N(0)))]
    # a catch pattern that refuses the thrown value lets the original value propagate to the enclosing handler
    P += [('try', ('trylit', ('throw', V('x')), 5, N(100)), 'e', B('+', V('e'), N(1))),
          ('try', ('trylit', ('throw', V('x')), 5, ('trylit', ('throw', V('y')), 6, N(200))), 'e', B('*', V('e'), N(2))),
          SEQ(('decl', 'f', LAM(['k'], ('trylit', ('throw', V('k')), 0, N(-1)))), ('try', ('call', f, [V('x')]), 'e', B('+', V('e'), N(10)))),
          ('trylit', ('throw', V('x')), 5, N(100))]
    # printed output order
    P += [SEQ(('print', V('x')), ('print', V('y')), N(0)), SEQ(('for', 'i', Lxy, ('if', B('>', i, N(0)), ('print', i), None)), N(0)),
          SEQ(('or', ('print', N(1)), ('print', N(2))), ('and', ('print', N(3)), ('print', N(4))), N(0))]
    return P

def shape_program(item, ob):
    idx, = item
    prog = family()[idx]; text = src(prog)
    E = evalh.eng(MIR)
    ast, = evalh.parse_programs([text])
    pre = [in_i64(X), in_i64(Y)]
    outcomes = ref_outcomes(prog, pre)
    def run():
        E.assume(*pre)
        return evalh.run_program(E, ast, evalh.top_env({'x': evalh.num(X), 'y': evalh.num(Y)}))
    def replay(model):
        x, y = mval(model, X), mval(model, Y)
        exp = None
        for c, o, out in outcomes:
            if z3.is_true(model.eval(c, model_completion=True)): exp = (o, out)
        if exp is None: return None
        o, out = exp
        # the program runs inside a function whose parameters are x, y and a recording `print` (shadowing the builtin)
        def wrap(body): return f'out := []; (\\x, y, print -> {body})({fmt_int(x)}, {fmt_int(y)}, \\v -> (out append= v; null))'
        outs = [render(v, model) for v in out]
        if any(q is None for q in outs): return None
        if o[0] == 'val':
            r = render(o[1], model)
            if r is None: return {'program': wrap(f'try (({text}); out) catch e__ -> "raised"'), 'expect': {'equals': 'OK [' + ', '.join(outs) + ']'}}
            return {'program': wrap(f'try [({text}), out] catch e__ -> "raised"'), 'expect': {'equals': f'OK [{r}, [' + ', '.join(outs) + ']]'}}
        return {'program': wrap(f'try [({text}), out] catch e__ -> ["raised", out]'), 'expect': {'equals': 'OK ["raised", [' + ', '.join(outs) + ']]'}}
    pref = [[z3.And(X >= -3, X <= 4, Y >= -3, Y <= 4)]]
    for pc, kd, res, lg in E.explore(run, max_paths=600):
        ob.paths += 1; name = f'program #{idx}: {text[:90]}'
        if kd == 'panic': ob.panic(name + ' panic-free', pc, res, replay=replay, cls='C05/panic', prefer=pref); continue
        if kd != 'ok': ob.missing(name, f'{kd}: {res}'); continue
        printed = [l[1][0] for l in lg if l[0] == 'print']
        clauses = []
        for c, o, out in outcomes:
            outm = z3.And(*[val_eq(p_, q_) for p_, q_ in zip(printed, out)]) if len(printed) == len(out) and out else z3.BoolVal(len(printed) == len(out))
            if o[0] == 'val': m_ = z3.And(val_eq(res.fields[0], o[1]), outm) if res.variant == 'Ok' else z3.BoolVal(False)
            elif o[0] == 'throw':
                e = res.fields[0] if res.variant == 'Err' else None
                m_ = z3.And(val_eq(e.fields[0], o[1]), outm) if e is not None and e.variant == 'Throw' and isinstance(e.fields[0], Adt) else z3.BoolVal(e is not None and e.variant == 'Throw')
            else: m_ = z3.And(z3.BoolVal(res.variant == 'Err'), outm)
            clauses.append(z3.Implies(c, m_))
        ob.check(name + ' agrees with the reference interpreter', pc, z3.And(*clauses) if clauses else z3.BoolVal(False), replay=replay, cls='C05/outcome', prefer=pref,
                 sample='value / raised-or-not / printed output equal the documented semantics'); ob.witness(res.variant)
    ob.absorb_engine(E)

def run_shape(item, ob):
    if item[0] == 'pair':
        from props import equiv
        equiv.MIR = MIR; return equiv.run_item(item, ob)
    fam, payload = item
    {'program': shape_program}[fam](payload, ob)

def main(tier, seed, t0):
    global MIR
    MIR, th = load_mir('on')
    fam = family(); evalh.parse_programs([src(p) for p in fam])
    items = [('program', (i,)) for i in range(len(fam))]
    from props import equiv
    equiv.MIR = MIR; equiv.preparse('C05'); items += equiv.items_for('C05')          # statement-level equivalences (props/equiv.py family C05)
    merged, per = pmap(run_shape, items, tier)
    return finish(PROP, tier, seed, merged, t0, th=th,
        kernels=['eval.rs: evaluate (Sequence, If, While, For + evaluate_for, Try, Throw, Lambda, Call, Break/Continue/Return, And/Or/Coalesce, Assign, OpAssign, Chain, List, Ident), eval_lvalue, assign, assign_respecting_type, insert_declare, Closure::run',
                 'core.rs: Env::{with_parent, try_borrow_get_var, modify_existing_var, insert}, ChainEvaluator', 'lib.rs: Plus / Minus / Times (real); comparisons and print are stubs with the stated meaning'],
        bounds={'programs': f'{len(fam)} programs over if / and / or / coalesce / := / = / op= / while / for / for-yield / break and continue with counts and values / lambda with defaults / return / closures / try / catch / throw / print, '
                            'nesting depth <= 3, loops over literal lists of <= 3 elements or <= 3 iterations', 'inputs': 'free variables x, y: every i64 value'},
        outside=['switch, multi-clause for, `for (k, v <<- …)`, `into`, `eval`, splat parameters, struct definitions', 'programs outside the family (the family is fixed, its inputs are symbolic)', 'the parser (the imported tree is what the real parser returns for the program text)'],
        assumptions=['comparison operators and print are stub builtins (integer comparison yielding 1/0; print records its argument)', 'no RefCell borrow conflicts (borrow flags are not modelled)', 'error messages are opaque'])
