"""C09 — dictionaries are finite maps keyed by value equality: key equality and key hashing agree.

Symbolic execution of the real MIR of total_eq_of_keys / total_eq_of_key_seqs (key equality) and total_hash_of_key /
NNum::total_hash / consistent_hash_f64 / NInt::hash (key hashing) on keys built from numbers of every level and
representation, bare and nested in lists and vectors.  The Hasher is a write-trace recorder.  Obligations:
  (1) key equality is exact: eq(k1, k2) <=> the values are mathematically equal (NaN equal to itself);
  (2) eq(k1, k2) => identical hash write trace (so the HashMap finds the entry), for every pair;
  (3) check_if_valid_key / to_key accept exactly the hashable kinds, so hashing never reaches its panics."""
import itertools, random
import z3
from lib.common import *
from props.numlib import *
from props.C08 import obj_num, obj_list, obj_vector, lit, py_cmp_desc

PROP = 'C09'
MIR = None
def eng(): return new_engine(MIR, [iter_models])

# ------------------------------------------------------------------------------------------------ extra models: zip / all over concrete-length iterators
def iter_models(E, callee, args, argtys, callee0):
    if re.fullmatch(r'<.* as Iterator>::zip', callee):
        a, b = args
        if isinstance(a, Adt) and a.ty == 'Iter' and isinstance(b, Adt) and b.ty == 'Iter': return Adt('Zip', None, [a, b])
        raise Missing('zip of ' + repr((a, b))[:100])
    m = re.fullmatch(r'<(.*) as Iterator>::(all|any)', callee)
    if m:
        it = E.deref(args[0]); f = args[1]
        if it.ty == 'Zip':
            xs = it.fields[0].fields[0].fields[it.fields[0].fields[1]:]; ys = it.fields[1].fields[0].fields[it.fields[1].fields[1]:]
            items = [Tup([x, y]) for x, y in zip(xs, ys)]
        elif it.ty == 'Iter': items = it.fields[0].fields[it.fields[1]:]
        else: raise Missing('all/any over ' + it.ty)
        want = m.group(2) == 'any'
        for x in items:
            r = E.call_closure(f, [x])
            if E.branch(r) == want: return z3.BoolVal(want)
        return z3.BoolVal(not want)
    return NotImplemented

def hash_trace(lg): return [l[1:3] for l in lg if l[0] == 'h' and (len(l) < 4 or l[3] is None)]     # writes to the outer recorder only
def same_trace(h1, h2):
    if len(h1) != len(h2) or any(x[0] != y[0] for x, y in zip(h1, h2)): return z3.BoolVal(False)
    return z3.And(*[x[1] == y[1] for x, y in zip(h1, h2)]) if h1 else z3.BoolVal(True)

def math_eq(X, Y):
    """mathematical key equality of two symbolic numbers (NaN == NaN; complex componentwise)"""
    def comps(S):
        if S.level == 'Complex': return [(S.k, S.v), (S.k2, S.v2)]
        return [(S.kind(), S.real()), (z3.IntVal(3), z3.RealVal(0))]
    def nan(S): return z3.Or(S.k == 0, S.k2 == 0) if S.level == 'Complex' else S.kind() == 0
    (a1, a2), (b1, b2) = comps(X), comps(Y)
    ex = z3.And(z3.Not(nan(X)), z3.Not(nan(Y)), ext_eq(a1[0], a1[1], b1[0], b1[1]), ext_eq(a2[0], a2[1], b2[0], b2[1]))
    return z3.Or(ex, z3.And(nan(X), nan(Y)))

def mk_key(kind, nums):
    if kind == 'num': return obj_num(nums[0].obj())
    if kind == 'list': return obj_list([obj_num(n.obj()) for n in nums])
    if kind == 'vector': return obj_vector([n.obj() for n in nums])
    if kind == 'nested': return obj_list([obj_list([obj_num(n.obj()) for n in nums])])
    raise ValueError(kind)

def key_src(kind, cs):
    ls = [lit(c) for c in cs]
    if any(l is None for l in ls): return None
    if kind == 'num': return ls[0]
    if kind == 'list': return '[' + ', '.join(ls) + ']'
    if kind == 'vector': return 'V(' + ', '.join(ls) + ')'
    if kind == 'nested': return '[[' + ', '.join(ls) + ']]'

def shape_keys(item, ob):
    kind, la, lb = item          # la, lb: tuples of levels (same length n)
    E = eng()
    f_eq = find_fn(E, 'total_eq_of_keys'); f_hash = find_fn(E, 'total_hash_of_key')
    xs = [SymNum(l, f'a{i}') for i, l in enumerate(la)]; ys = [SymNum(l, f'b{i}') for i, l in enumerate(lb)]
    meq = z3.And(*[math_eq(x, y) for x, y in zip(xs, ys)]) if len(xs) == len(ys) else z3.BoolVal(False)
    def run():
        for s in xs + ys: E.assume(*s.pre)
        ka, kb = mk_key(kind, xs), mk_key(kind, ys)
        eq = E.run_fn(f_eq, [Ref(Cell(ka)), Ref(Cell(kb))])
        iseq = E.branch(eq)
        if not iseq: return False, None, None
        E.log.clear(); E.run_fn(f_hash, [Ref(Cell(ka)), Ref(Cell(Adt('Hasher', None, [])))]); h1 = hash_trace(E.log)
        E.log.clear(); E.run_fn(f_hash, [Ref(Cell(kb)), Ref(Cell(Adt('Hasher', None, [])))]); h2 = hash_trace(E.log)
        return True, h1, h2
    def replay_lookup(model):
        ca, cb = [s.concrete(model) for s in xs], [s.concrete(model) for s in ys]
        if any(c is None for c in ca + cb): return None
        sa, sb = key_src(kind, ca), key_src(kind, cb)
        if len(ca) == 1 and kind == 'num' and (sa is None or sb is None or True):
            # kernel-level replay is exact about representations
            return {'program': f'@nnumrel {ca[0][0]} {cb[0][0]}', 'expect': {'prefix': 'K eq=', 'regex': None}, 'kind': 'hash',
                    'expect_hasheq_when_eq': True}
        if sa is None or sb is None: return None
        return {'program': f'd := {{{sa}: 7}}; [{sa} == {sb}, ({sb}) in d]', 'expect': {'one_of': ['OK [1, 1]', 'OK [0, 0]', 'OK [0, 1]']}}
    def replay_eq(model):
        ca, cb = [s.concrete(model) for s in xs], [s.concrete(model) for s in ys]
        if any(c is None for c in ca + cb): return None
        sa, sb = key_src(kind, ca), key_src(kind, cb)
        if sa is None or sb is None: return None
        import math
        def same(p, q):
            pn = isinstance(p, float) and math.isnan(p); qn = isinstance(q, float) and math.isnan(q)
            if isinstance(p, complex) or isinstance(q, complex): return complex(p) == complex(q)
            return (pn and qn) or py_cmp_desc(p, q) == 'Equal'
        want = all(same(p[2], q[2]) for p, q in zip(ca, cb))
        return {'program': f'd := {{{sa}: 7}}; ({sb}) in d', 'expect': {'prefix': 'OK 1' if want else 'OK 0'}} if want is False else \
               {'program': f'{{{sa}: 7, {sb}: 8}} then len', 'expect': {'equals': 'OK 1'}}
    for pc, kd, res, lg in E.explore(run):
        ob.paths += 1; name = f'key {kind} {la} vs {lb}'
        pref = prefer_all(*(xs + ys))
        if kd == 'panic': ob.panic(name + ' panic-free', pc, res, replay=replay_eq, cls='C09/key/panic', prefer=pref); continue
        if kd != 'ok': ob.missing(name, f'{kd}: {res}'); continue
        iseq, h1, h2 = res
        # (1) exactness of key equality
        ob.check(name + (' eq=true' if iseq else ' eq=false') + ' exact', pc, meq if iseq else z3.Not(meq), replay=replay_eq, cls=f'C09/total_eq_of_keys/{kind}', prefer=pref,
                 sample='key equality <=> mathematical equality of the components (NaN == NaN)')
        if iseq:
            cls = 'C09/hash/' + kind + '/' + '+'.join(sorted({_cls(a, b) for a, b in zip(la, lb)}))
            ob.check(name + ' eq => same hash trace', pc, same_trace(h1, h2), replay=hash_replay(kind, xs, ys), cls=cls, prefer=pref,
                     sample=f'equal keys write identical sequences to the Hasher: {[h[0] for h in h1]}')
            ob.witness('equal-path')
        else: ob.witness('unequal-path')
    ob.absorb_engine(E)

def _cls(a, b):
    g = lambda l: 'Int' if l.startswith('Int') else l
    return '-'.join(sorted([g(a), g(b)]))

def hash_replay(kind, xs, ys):
    def replay(model):
        ca, cb = [s.concrete(model) for s in xs], [s.concrete(model) for s in ys]
        if any(c is None for c in ca + cb): return None
        if kind == 'num': return {'program': f'@nnumrel {ca[0][0]} {cb[0][0]}', 'expect': {'one_of_suffix': 1, 'suffix': 'hasheq=true'}}
        sa, sb = key_src(kind, ca), key_src(kind, cb)
        if sa is None or sb is None:
            # no surface literal (complex components): replay the first component pair with different specs at kernel level
            for p, q in zip(ca, cb):
                if p[0] != q[0]: return {'program': f'@nnumrel {p[0]} {q[0]}', 'expect': {'suffix': 'hasheq=true'}}
            return None
        # equal keys must address the same entry
        return {'program': f'{{{sa}: 7, {sb}: 8}} then len', 'expect': {'equals': 'OK 1'}}
    return replay

# ------------------------------------------------------------------------------------------------ dict-valued keys: order-independent hash
def shape_dictkey(item, ob):
    """two equal dictionaries used as keys, whose tables iterate in different orders, must hash alike"""
    n, levels = item
    from mirsym.hashmap import hm
    E = eng()
    f_eq = find_fn(E, 'total_eq_of_keys'); f_hash = find_fn(E, 'total_hash_of_key')
    ks = [SymNum('IntSmall', f'k{i}') for i in range(n)]; vs = [SymNum(l, f'v{i}') for i, l in enumerate(levels)]
    def mk(order):
        ent = [Tup([Adt('ObjKey', None, [obj_num(ks[i].obj())]), obj_num(vs[i].obj())]) for i in order]
        return Adt('Obj', 'Seq', [Adt('Seq', 'Dict', [RcV(RcObj(hm(ent))), opt()])])
    import itertools as it
    orders = list(it.permutations(range(n)))
    def run():
        for s in ks + vs: E.assume(*s.pre)
        for i in range(n):
            for j in range(i + 1, n): E.assume(ks[i].i != ks[j].i)
        a = mk(orders[0]); traces = []
        for o in orders:
            b = mk(o)
            eq = E.run_fn(f_eq, [Ref(Cell(a)), Ref(Cell(b))])
            if not E.branch(eq): return False, None
            E.log.clear(); E.run_fn(f_hash, [Ref(Cell(b)), Ref(Cell(Adt('Hasher', None, [])))]); traces.append(hash_trace(E.log))
        return True, traces
    inner = ', '.join(f'{i + 1}: {i + 11}' for i in range(8)); inner_r = ', '.join(f'{i + 1}: {i + 11}' for i in reversed(range(8)))
    replay = lambda model: {'program': f'(0 til 25) map (\\t -> len({{{{{inner}}}: 1, {{{inner_r}}}: 2}})) then max', 'expect': {'equals': 'OK 1'}}
    for pc, kd, res, lg in E.explore(run):
        ob.paths += 1; name = f'dict-valued key, {n} entries, value levels {levels}'
        if kd == 'panic': ob.panic(name + ' panic-free', pc, res, replay=replay, cls='C09/dictkey/panic'); continue
        if kd != 'ok': ob.missing(name, f'{kd}: {res}'); continue
        iseq, traces = res
        ob.check(name + ' equal to itself in every iteration order', pc, z3.BoolVal(iseq), replay=replay, cls='C09/dictkey/eq', sample='a dict equals its own permutations')
        if iseq:
            g = z3.And(*[same_trace(traces[0], t) for t in traces[1:]]) if len(traces) > 1 else z3.BoolVal(True)
            ob.check(name + ' hash independent of iteration order', pc, g, replay=replay, cls='C09/dictkey/order-dependent-hash', sample=f'hash trace {[h[0] for h in traces[0]]} identical for all {len(orders)} iteration orders')
            ob.witness('dictkey')
    ob.absorb_engine(E)

# ------------------------------------------------------------------------------------------------ valid keys
def shape_valid(item, ob):
    """check_if_valid_key accepts exactly the kinds total_hash_of_key can hash (no path into its panics)"""
    kind = item
    E = eng()
    f_chk = find_fn(E, 'check_if_valid_key'); f_hash = find_fn(E, 'total_hash_of_key')
    X = SymNum('IntSmall', 'a')
    def mk():
        if kind == 'null': return Adt('Obj', 'Null', [])
        if kind == 'num': return obj_num(X.obj())
        if kind == 'list': return obj_list([obj_num(X.obj()), Adt('Obj', 'Null', [])])
        if kind == 'vector': return obj_vector([X.obj()])
        if kind == 'list_of_func': return obj_list([Adt('Obj', 'Func', [Opaque('func'), Opaque('prec')])])
        if kind == 'func': return Adt('Obj', 'Func', [Opaque('func'), Opaque('prec')])
        if kind == 'instance': return Adt('Obj', 'Instance', [Opaque('struct'), Seq([])])
        if kind == 'stream': return Adt('Obj', 'Seq', [Adt('Seq', 'Stream', [Opaque('stream')])])
        if kind == 'list_of_stream': return obj_list([Adt('Obj', 'Seq', [Adt('Seq', 'Stream', [Opaque('stream')])])])
    hashable = kind in ('null', 'num', 'list', 'vector')
    def run():
        E.assume(*X.pre); k = mk()
        r = E.run_fn(f_chk, [Ref(Cell(k))])
        if r.variant == 'Ok':
            E.run_fn(f_hash, [Ref(Cell(k)), Ref(Cell(Adt('Hasher', None, [])))])
        return r.variant
    srcs = {'null': 'null', 'num': '1', 'list': '[1, null]', 'vector': 'V(1)', 'list_of_func': '[print]', 'func': 'print', 'instance': None, 'stream': None, 'list_of_stream': '[1 to 3]'}
    def replay(model):
        s = srcs[kind]
        if s is None: return None
        return {'program': f'{{{s}: 1}} then len', 'expect': {'prefix': 'OK 1' if hashable else 'ERR'}}
    for pc, kd, res, lg in E.explore(run):
        ob.paths += 1; name = f'valid-key {kind}'
        if kd == 'panic': ob.panic(name + ': hashing an accepted key panics', pc, res, replay=replay, cls='C09/valid_key/panic'); continue
        if kd != 'ok': ob.missing(name, f'{kd}: {res}'); continue
        ob.check(name, pc, z3.BoolVal((res == 'Ok') == hashable), replay=replay, cls='C09/valid_key/accept', sample='accepted <=> hashable kind'); ob.witness(res)
    ob.absorb_engine(E)

def run_shape(item, ob):
    if item[0] == 'pair':
        from props import equiv
        equiv.MIR = MIR; return equiv.run_item(item, ob)
    fam, payload = item
    {'keys': shape_keys, 'valid': shape_valid, 'dictkey': shape_dictkey}[fam](payload, ob)

def main(tier, seed, t0):
    global MIR
    MIR, th = load_mir('on')
    rnd = random.Random(seed)
    items = []
    for la in LEVELS_C:
        for lb in LEVELS_C: items.append(('keys', ('num', (la,), (lb,))))
    for kind in ('list', 'vector', 'nested'):
        for la in LEVELS_C:
            for lb in LEVELS_C: items.append(('keys', (kind, (la,), (lb,))))
        pairs = list(itertools.product(LEVELS, repeat=4))
        pick = rnd.sample(pairs, 10 if tier == 'quick' else 60)
        for p in pick: items.append(('keys', (kind, (p[0], p[1]), (p[2], p[3]))))
    for kind in ('null', 'num', 'list', 'vector', 'list_of_func', 'func', 'instance', 'stream', 'list_of_stream'): items.append(('valid', kind))
    for n, lv in ((1, ('IntSmall',)), (2, ('IntSmall', 'Float')), (2, ('Rational', 'IntBig')), (3, ('IntSmall', 'IntSmall', 'IntSmall'))): items.append(('dictkey', (n, lv)))
    rnd.shuffle(items)
    from props import equiv
    equiv.MIR = MIR; equiv.preparse('C09'); items += equiv.items_for('C09')          # statement-level equivalences (props/equiv.py family C09)
    merged, per = pmap(run_shape, items, tier)
    return finish(PROP, tier, seed, merged, t0, th=th,
        kernels=['core.rs: total_eq_of_keys, total_eq_of_key_seqs, total_hash_of_key, check_if_valid_key', 'nnum.rs: NNum::{eq, is_nan, total_eq, total_hash}, consistent_hash_f64, to_nint_if_int', 'nint.rs: NInt::{eq, hash}'],
        bounds={'keys': 'numbers of every level/representation, bare, in lists and vectors of length 1 (all level pairs) and 2 (level tuples sampled by VERIF_SEED), and nested one level',
                'values': 'unbounded integers/rationals, all abstract doubles'},
        outside=['SipHash itself and std HashMap probing (trusted: equal write traces give equal hashes; the per-entry DefaultHasher of dict-valued keys is an uninterpreted function of its writes)', 'string/bytes keys (std Hash/Eq)',
                 'the dictionary builtins built on HashMap (|., -., ||, &&, --, group_all, ...) beyond their use of ObjKey Eq/Hash'],
        assumptions=['Hasher = recorder of the write_* calls; two keys collide-free iff their traces are equal', 'f64::to_bits is a function of the (canonical) abstract float'])
