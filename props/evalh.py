"""Statement-level harness: the real `evaluate` is executed symbolically on the parse tree that noulith's own parser produces
for a concrete program text (imported through nlrun `@ast`, see mirsym/astimport.py), in a real `Env` chain (HashMap of
variables, RefCell cells, parent links) whose initial variables hold symbolic values.  Builtins that the programs use are
either the real structs (`+ - *` are `Plus`/`Minus`/`Times`) or small stubs with a stated meaning (comparisons, `print`).
Used by C05 (control flow, scoping, closures) and by the statement-level shapes of C02 / C04 / C12."""
import glob
import z3
from lib.common import *
from mirsym import astimport

_TYPES = None
def types():
    global _TYPES
    if _TYPES is None: _TYPES = astimport.parse_types([open(p).read() for p in sorted(glob.glob(os.path.join(REPO, 'src', '*.rs')))])
    return _TYPES

_AST_CACHE = {}
def parse_programs(srcs):
    """program text -> imported LocExpr (through the real parser, natively)"""
    todo = [s for s in srcs if s not in _AST_CACHE]
    if todo:
        outs = nlrun(['@ast ' + s.replace('\n', ' ') for s in todo], 'release')
        for s, o in zip(todo, outs):
            _AST_CACHE[s] = o[6:] if o.startswith('K AST ') else ('ERR', o[:200])
    out = []
    for s in srcs:
        if isinstance(_AST_CACHE[s], tuple): raise Missing(f'program does not parse: {s!r}: {_AST_CACHE[s][1]}')
        out.append(astimport.import_debug(_AST_CACHE[s], 'LocExpr', types()))
    return out

# ------------------------------------------------------------------------------------------------ values
def num(v, rep='Small'): return Adt('Obj', 'Num', [Adt('NNum', 'Int', [Adt('NInt', rep, [v if z3.is_expr(v) else z3.IntVal(v)])])])
def olist(items): return Adt('Obj', 'Seq', [Adt('Seq', 'List', [RcV(RcObj(Seq(list(items))))])])
def sbytes(s): return Seq([z3.IntVal(b) for b in s.encode('utf-8')])
def refcell(v): return Adt('RefCell', None, [v])
def prec(p, assoc='Left'): return Adt('Precedence', None, [F64(3, z3.RealVal(p)), Adt('Assoc', assoc, [])])
def builtin_obj(struct_adt, p=0.0): return Adt('Obj', 'Func', [Adt('Func', 'Builtin', [RcV(RcObj(struct_adt))]), prec(p)])
def stub(name): return Adt('StubBuiltin', None, [name])

_REG = None
def registered_builtin(E, name):
    """the real builtin object of a `XxxBuiltin { name: "..", body: |..| }` registration in initialize: the wrapper struct named in the
    source with the real closure as its body (so programs can call map, filter, reverse, … exactly as registered)"""
    global _REG
    if _REG is None:
        src = open(os.path.join(REPO, 'src', 'lib.rs')).read(); _REG = {}
        IDENT = {'Obj::zero()': 0, 'Obj::one()': 1, 'Obj::from(false)': 0, 'Obj::from(true)': 1}          # the `identity` field of the fold builtins
        for m in re.finditer(r'(\w+Builtin)\s*\{\s*name:\s*"((?:[^"\\]|\\.)*)"\.to_string\(\),\s*(?:identity:\s*([^,]+),\s*)?body:\s*(\||[A-Za-z_]\w*\s*,)', src):
            pos = m.start(4); line = src.count('\n', 0, pos) + 1; col = pos - (src.rfind('\n', 0, pos) + 1) + 1
            extra = None
            if m.group(3) is not None:
                if m.group(3).strip() not in IDENT: continue
                extra = IDENT[m.group(3).strip()]
            if m.group(4) != '|': _REG[m.group(2)] = (m.group(1), ('fn', m.group(4).rstrip(', \n')), extra)          # body: a named function
            else: _REG[m.group(2)] = (m.group(1), f'{{closure@src/lib.rs:{line}:{col}:', extra)
    if name not in _REG: raise Missing(f'builtin {name!r} is not a closure registration in initialize')
    wrapper, key, extra = _REG[name]
    mid = [num(extra)] if extra is not None else []
    if isinstance(key, tuple):
        fs = [g for g in E.by_last.get(key[1], []) if '{closure' not in g.name and g.name.split('::')[-1] == key[1]]
        if len(fs) != 1: raise Missing(f'function {key[1]} (body of builtin {name!r}) not found uniquely in the MIR dump')
        return Adt(wrapper, None, [sbytes(name)] + mid + [FnItem(fs[0].name)])
    tys = [ty for ty in E.closures if ty.startswith(key)]
    if len(tys) != 1: raise Missing(f'closure of builtin {name!r} not found in the MIR dump')
    return Adt(wrapper, None, [sbytes(name)] + mid + [Closure(tys[0], [])])

_CMP = None
def comparison_builtin(E, name):
    """the real `ComparisonOperator::of("<", |a, b| ..)` registration: the struct with the real closure as `accept`"""
    global _CMP
    if _CMP is None:
        src = open(os.path.join(REPO, 'src', 'lib.rs')).read(); _CMP = {}
        for m in re.finditer(r'insert_builtin(?:_with_alias)?\(\s*ComparisonOperator::of\(\s*"([^"]+)",\s*(\|)', src):
            pos = m.start(2); line = src.count('\n', 0, pos) + 1; col = pos - (src.rfind('\n', 0, pos) + 1) + 1
            _CMP[m.group(1)] = f'{{closure@src/lib.rs:{line}:{col}:'
    if name not in _CMP: raise Missing(f'comparison operator {name!r} is not a closure registration in initialize')
    tys = [ty for ty in E.closures if ty.startswith(_CMP[name])]
    if len(tys) != 1: raise Missing(f'closure of comparison operator {name!r} not found in the MIR dump')
    return Adt('ComparisonOperator', None, [sbytes(name), Seq([]), Closure(tys[0], [])])

PRECS = {'+': 5.0, '-': 5.0, '*': 6.0, '/': 6.0, '<': 2.0, '>': 2.0, '<=': 2.0, '>=': 2.0, '==': 2.0, '!=': 2.0, '++': 4.0, 'append': 0.0, 'to': 4.0, 'til': 4.0}
REAL = {'+': 'Plus', '-': 'Minus', '*': 'Times', '/': 'Divide', 'append': 'Append', 'prepend': 'Prepend'}
def top_env(bindings, builtins=('+', '-', '*', '<', '>', '<=', '>=', '==', '!=', 'print'), E=None, registered=(), structs=None, real_cmp=False):
    """a top-level Env: {name: value} for the program's free variables plus the named builtins; `registered`: names whose real
    closure registration is used (needs the engine E); `structs`: {name: Adt} for struct-implemented builtins built by the caller"""
    from mirsym.hashmap import hm
    entries = []
    for b in registered:
        entries.append(Tup([sbytes(b), Tup([Adt('ObjType', 'Any', []), BoxV(refcell(builtin_obj(registered_builtin(E, b), PRECS.get(b, 0.0))))])]))
    for b, s in (structs or {}).items():
        entries.append(Tup([sbytes(b), Tup([Adt('ObjType', 'Any', []), BoxV(refcell(builtin_obj(s, PRECS.get(b, 0.0))))])]))
    for b in builtins:
        s = Adt(REAL[b], None, []) if b in REAL else (comparison_builtin(E, b) if real_cmp and b in ('<', '>', '<=', '>=', '==', '!=') else stub(b))
        entries.append(Tup([sbytes(b), Tup([Adt('ObjType', 'Any', []), BoxV(refcell(builtin_obj(s, PRECS.get(b, 0.0))))])]))
    for k, v in bindings.items():
        ty, val = v if isinstance(v, tuple) else (Adt('ObjType', 'Any', []), v)          # (declared type, value) or just a value
        entries.append(Tup([sbytes(k), Tup([ty, BoxV(refcell(val))])]))
    top = RcV(RcObj(refcell(Adt('TopEnv', None, [Seq([]), Opaque('stdin'), Opaque('stdout')]))))
    env = Adt('Env', None, [hm(entries), err(top), Seq([]), z3.BoolVal(False)])
    return RcV(RcObj(refcell(env)))

# ------------------------------------------------------------------------------------------------ models: RefCell, stub builtins
def ival(o):
    """integer term of an Obj::Num(Int) or None"""
    if isinstance(o, Adt) and o.ty == 'Obj' and o.variant == 'Num' and o.fields[0].variant == 'Int': return o.fields[0].fields[0].fields[0]
    return None
def eval_models(E, callee, args, argtys, callee0):
    m = re.fullmatch(r'(?:std::cell::)?RefCell::<.*>::(new|borrow|borrow_mut|try_borrow|try_borrow_mut|into_inner|as_ptr)|(?:std::cell::)?RefCell::(new|borrow|borrow_mut|try_borrow|try_borrow_mut|into_inner)', callee0) or \
        re.fullmatch(r'(?:std::cell::)?RefCell::(new|borrow|borrow_mut|try_borrow|try_borrow_mut|into_inner)', callee)
    if m:
        op = next(g for g in m.groups() if g)
        if op == 'new': return refcell(args[0])
        if op == 'into_inner': return args[0].fields[0]
        r = args[0]; c, p = E.canon(r.cell, list(r.path) + [0]); g = Ref(c, p)
        return ok(g) if op.startswith('try_') else g
    m = re.fullmatch(r"<\(?dyn (?:std::any::)?Any(?: \+ 'static)?\)?>::downcast_ref::<(\w+)>", callee0)
    if m:          # Builtin::as_any + downcast_ref (try_chain of the comparison operators): Some iff the object is of that type
        v = E.deref(args[0])
        return opt(args[0]) if isinstance(v, Adt) and v.ty == m.group(1) else opt()
    m = re.fullmatch(r'<dyn (?:core::)?Builtin as (?:core::)?Builtin>::(run|run1|run2|try_chain|builtin_name|destructure|catamorphism)', callee)
    if m:
        b = E.deref(args[0])
        if not (isinstance(b, Adt) and b.ty == 'StubBuiltin'): return NotImplemented
        name, meth = b.fields[0], m.group(1)
        if meth == 'try_chain': return opt()
        if meth == 'builtin_name': return Opaque('str:"' + name + '"')
        if meth in ('destructure', 'catamorphism'): raise Missing(f'stub builtin {name}: {meth}')
        xs = list(args[2].fields) if meth == 'run' else list(args[2:])
        return stub_apply(E, name, xs)
    return NotImplemented
def stub_apply(E, name, xs):
    E.used_stubs.add(f'builtin {name} -> stated meaning on integers')
    if name in ('<', '>', '<=', '>=', '==', '!='):
        if len(xs) != 2: return err(Adt('NErr', 'Throw', [Opaque('errobj'), Seq([])]))
        a, b = ival(xs[0]), ival(xs[1])
        if a is None or b is None: raise Missing(f'stub {name} on non-integers')
        c = {'<': a < b, '>': a > b, '<=': a <= b, '>=': a >= b, '==': a == b, '!=': a != b}[name]
        return ok(num(z3.If(c, 1, 0)))
    if name == 'print':
        E.log.append(('print', list(xs))); return ok(Adt('Obj', 'Null', []))
    raise Missing(f'stub builtin {name}')

def err_models(E, callee, args, argtys, callee0):
    """error constructors: the message is not executed (formatting), but the error value is a real string object so that catch can bind it"""
    if re.fullmatch(r'(core::)?NErr::(argument_error_1|argument_error_2|argument_error_first|argument_error_second|argument_error_args|type_error|value_error|index_error|key_error|argument_error|generic_argument_error|empty_error|name_error|io_error|syntax_error|throw|assert_error|type_error_loc|syntax_error_loc)', callee):
        return Adt('NErr', 'Throw', [Adt('Obj', 'Seq', [Adt('Seq', 'String', [RcV(RcObj(Opaque('string')))])]), Seq([])])
    if re.fullmatch(r'(core::)?err_add_name|core::err_add_name', callee): return args[0]
    return NotImplemented
def eng(mir, extra=()):
    from props.C07 import complex_models
    return new_engine(mir, [eval_models, err_models, complex_models] + list(extra))

def get_var(env, name):
    """(declared type, current value) of a variable of the top Env after a run, or None"""
    e = env.obj.cell.v.fields[0]
    for ent in e.fields[0].fields[0].fields:
        k = ent.fields[0]
        if ''.join(chr(z3.simplify(c).as_long()) for c in k.fields) == name:
            ty, box = ent.fields[1].fields; return ty, box.cell.v.fields[0]
    return None

def run_program(E, ast, env):
    f = find_fn(E, 'evaluate', pred=lambda g: len(g.params) == 2)
    return E.run_fn(f, [Ref(Cell(env)), Ref(Cell(ast))])
