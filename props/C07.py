"""C07 — rationals are exact and the numeric tower coerces upward only as needed.

Symbolic execution of the real MIR of the NNum binary operators (Add/Sub/Mul/Rem in their owned/borrowed impls, Div,
div_floor, mod_floor), the rounding family (floor/ceil/round/trunc), numerator/denominator/abs/signum/neg, and the builtin
closures `/ % // %% /!`, for every pair of operand levels (int in both representations, rational, float, complex) and every
value.  Oracle: result level = the higher operand level; at the int and rational levels the exact operation on Q
(// = floor(a/b), %% = a - b*floor(a/b), % = a - b*trunc(a/b), / = exact quotient or float fallback for a zero divisor);
at the float/complex levels "the same operation applied to the converted operands" (float arithmetic itself is uninterpreted:
the claim there is routing and operand order, not rounding)."""
import itertools, random, math
import z3
from lib.common import *
from props.numlib import *
from mirsym.models import UF_RAT2F, UF_BIG2F

PROP = 'C07'
MIR = None

# ------------------------------------------------------------------------------------------------ complex arithmetic: uninterpreted on components
def complex_models(E, callee, args, argtys, callee0):
    m = re.fullmatch(r'<&?Complex<f64> as (Add|Sub|Mul|Div|Rem)(?:<&?(Complex<f64>|f64)>)?>::\w+|<f64 as (Add|Sub|Mul|Div|Rem)<&?Complex<f64>>>::\w+', callee)
    if m:
        op = m.group(1) or m.group(3); x, y = E.deref(args[0]), E.deref(args[1])
        return cop(E, op, x, y)
    if re.fullmatch(r'<Complex<f64> as From<f64>>::from|<Complex<f64> as From<&f64>>::from', callee): return cplx(E.deref(args[0]), F64(3, 0))
    if re.fullmatch(r'<Complex<f64> as From<Complex<f64>>>::from', callee): return args[0]
    if callee in ('Complex::<f64>::new', 'Complex::new'): return cplx(args[0], args[1])
    if re.fullmatch(r'<&?Complex<f64> as Neg>::neg', callee):
        z = E.deref(args[0]); return cplx(E.binop('Neg', [z.fields[0]], 'f64'), E.binop('Neg', [z.fields[1]], 'f64'))
    if re.fullmatch(r'<Complex<f64> as (num::)?Zero>::is_zero', callee):
        z = E.deref(args[0]); return z3.And(z.fields[0].kind == 3, z.fields[0].val == 0, z.fields[1].kind == 3, z.fields[1].val == 0)
    if re.fullmatch(r'Complex::<f64>::norm|Complex::norm', callee):
        z = E.deref(args[0]); return E.fop('cnorm', z.fields[0], z.fields[1])
    if re.fullmatch(r'<(&?)Complex<f64> as SoftDeref>::soft_deref', callee): return E.deref(args[0])
    return NotImplemented
def cplx(re_, im): return Adt('Complex', None, [re_, im])
def flt(x): return x if isinstance(x, F64) else None
def cop_term(op, x, y):
    xs = (x.fields if isinstance(x, Adt) else [x, F64(3, 0)]); ys = (y.fields if isinstance(y, Adt) else [y, F64(3, 0)])
    tag = ('c' if isinstance(x, Adt) else 'f') + ('c' if isinstance(y, Adt) else 'f')
    return cplx(Engine.fop_term(f'{tag}{op}_re', *xs, *ys), Engine.fop_term(f'{tag}{op}_im', *xs, *ys))
def cop(E, op, x, y):
    r = cop_term(op, x, y)
    for c in r.fields: E.assume(c.kind >= 0, c.kind <= 3)
    return r

def eng(): return new_engine(MIR, [complex_models])

# ------------------------------------------------------------------------------------------------ conversions used by the oracle (the same terms the models produce)
def conv_f64(S):
    """float the implementation must obtain for operand S when the operation runs at float level"""
    if S.level == 'IntSmall': return Engine.int_to_float(None, S.i)
    if S.level == 'IntBig':
        x = S.i; exact_ = z3.And(x >= -(1 << 53), x <= (1 << 53)); huge = z3.Or(x >= (1 << 1024), x <= -(1 << 1024))
        return F64(z3.If(huge, z3.If(x > 0, 1, 2), 3), z3.If(exact_, z3.ToReal(x), UF_BIG2F(x)))
    if S.level == 'Rational': return F64(3, UF_RAT2F(S.v))
    if S.level == 'Float': return F64(S.k, S.v, S.nz)
    raise ValueError
def conv_c(S):
    if S.level == 'Complex': return cplx(F64(S.k, S.v, S.nz), F64(S.k2, S.v2, S.nz2))
    return cplx(conv_f64(S), F64(3, 0))
def feq(a, b): return z3.And(a.kind == b.kind, a.val == b.val, a.nz == b.nz)

OPS = {
    # name: (fn last segment, float op name, exact oracle on reals, needs nonzero divisor at exact levels)
    'add': ('add', 'Add', lambda a, b: a + b, False), 'sub': ('sub', 'Sub', lambda a, b: a - b, False), 'mul': ('mul', 'Mul', lambda a, b: a * b, False),
    'rem': ('rem', 'Rem', lambda a, b: a - b * z3.ToReal(trunc_r(a / b)), True),
    'div_floor': ('div_floor', 'div_euclid', lambda a, b: z3.ToReal(floor_r(a / b)), True),
    'mod_floor': ('mod_floor', 'rem_euclid', lambda a, b: a - b * z3.ToReal(floor_r(a / b)), True),
}
def py_exact(op, a, b):
    a, b = Fraction(a), Fraction(b)
    if op == 'add': return a + b
    if op == 'sub': return a - b
    if op == 'mul': return a * b
    q = a / b
    if op == 'rem': return a - b * (math.trunc(q))
    if op == 'div_floor': return Fraction(math.floor(q))
    if op == 'mod_floor': return a - b * math.floor(q)
    if op == 'div': return q

def show_exact(q, level):
    q = Fraction(q)
    if level == 'Int': return [f'K I:Small({q.numerator})', f'K I:Big({q.numerator})']
    return [f'K Q:{q.numerator}/{q.denominator}']

def nnum_fns(E, last, ptys):
    return [f for f in E.by_last.get(last, []) if f.name.startswith('nnum::<impl') and '{closure' not in f.name and [t.strip() for _, t in f.params] == list(ptys)]

def arg_for(ty, val): return Ref(Cell(val)) if ty.strip().startswith('&') else val
def variant_of(ptys): return ''.join('r' if t.strip().startswith('&') else 'v' for t in ptys)

def result_goal(op, X, Y, res, E):
    """goal formula: the result NNum equals the documented result for operands X, Y"""
    lvl, pay = out_num(res)
    rank = max(X.rank(), Y.rank())
    want = ['Int', 'Rational', 'Float', 'Complex'][rank]
    if lvl != want: return z3.BoolVal(False), f'level {lvl} != {want}'
    fname, fop_name, exact, _ = OPS[op]
    if rank == 0:
        a, b = X.i, Y.i
        v = {'add': a + b, 'sub': a - b, 'mul': a * b, 'rem': trem(a, b), 'div_floor': fdiv(a, b), 'mod_floor': fmod(a, b)}[op]
        g = pay.fields[0] == v
        if pay.variant == 'Small': g = z3.And(g, in_i64(pay.fields[0]))
        return g, 'int exact'
    if rank == 1: return pay.v == exact(X.real(), Y.real()), 'rational exact'
    if rank == 2: return feq(pay, Engine.fop_term(fop_name, conv_f64(X), conv_f64(Y))), 'float routing'
    if op in ('div_floor',): return z3.BoolVal(True), 'complex floor division: outside (no panic only)'
    w = cop_term({'mod_floor': 'Rem'}.get(op, fop_name), conv_c(X) if X.level == 'Complex' else conv_c(X), conv_c(Y))
    return z3.And(feq(pay.fields[0], w.fields[0]), feq(pay.fields[1], w.fields[1])), 'complex routing'

def shape_binop(item, ob):
    op, ptys, la, lb = item
    E = eng()
    fs = nnum_fns(E, OPS[op][0], ptys)
    if len(fs) != 1: raise Missing(f'NNum::{op}{ptys} not found uniquely ({len(fs)})')
    f = fs[0]; variant = variant_of(ptys)
    X, Y = SymNum(la, 'a'), SymNum(lb, 'b')
    rank = max(X.rank(), Y.rank()); needs_nz = OPS[op][3] and rank <= 1
    def run():
        E.assume(*X.pre, *Y.pre)
        return E.run_fn(f, [arg_for(ptys[0], X.obj()), arg_for(ptys[1], Y.obj())])
    def replay(model):
        cx, cy = X.concrete(model), Y.concrete(model)
        if cx is None or cy is None: return None
        prog = f'@nnum {op} {variant} {cx[0]} {cy[0]}'
        if rank <= 1:
            if needs_nz and cy[2] == 0: return {'program': prog, 'expect': {'not_panic': 1}}
            return {'program': prog, 'expect': {'one_of': show_exact(py_exact(op, cx[2], cy[2]), 'Int' if rank == 0 else 'Rational')}}
        if rank == 2:
            try:
                fa, fb = float(cx[2]), float(cy[2])
                r = {'add': lambda: fa + fb, 'sub': lambda: fa - fb, 'mul': lambda: fa * fb, 'rem': lambda: math.fmod(fa, fb),
                     'div_floor': lambda: py_div_euclid(fa, fb), 'mod_floor': lambda: py_rem_euclid(fa, fb)}[op]()
                import struct
                return {'program': prog, 'expect': {'equals': 'K F:%016x' % struct.unpack('<Q', struct.pack('<d', r))[0]}} if not math.isnan(r) else {'program': prog, 'expect': {'prefix': 'K F:'}}
            except Exception: return {'program': prog, 'expect': {'prefix': 'K F:'}}
        return {'program': prog, 'expect': {'prefix': 'K C:'}}
    pre = [Y.real() != 0] if needs_nz else []
    for pc, kind, res, lg in E.explore(run):
        ob.paths += 1; name = f'NNum::{op}[{variant}] {la}x{lb}'; pref = prefer_all(X, Y)
        if kind == 'panic': ob.panic(name + ' panic-free', pc, res, replay=replay, cls=f'C07/NNum::{op}/panic', pre=pre, prefer=pref); continue
        if kind != 'ok': ob.missing(name, f'{kind}: {res}'); continue
        goal, why = result_goal(op, X, Y, res, E)
        ob.check(name + f' ({why})', list(pc) + pre, goal, replay=replay, cls=f'C07/NNum::{op}/{why.split()[0]}', prefer=pref, sample=f'{op}: {why}')
        ob.witness(why)
    ob.absorb_engine(E)

def py_div_euclid(a, b):
    q = float(math.trunc(a / b))
    if q == 0: q = math.copysign(0.0, a / b)          # f64::trunc keeps the sign of zero
    if math.fmod(a, b) < 0: return q - 1 if b > 0 else q + 1
    return q
def py_rem_euclid(a, b):
    r = math.fmod(a, b); return r + abs(b) if r < 0 else r

def shape_div(item, ob):
    la, lb = item
    E = eng()
    fs = nnum_fns(E, 'div', ('&NNum', '&NNum'))
    if len(fs) != 1: raise Missing('NNum::div(&,&) not found uniquely')
    f = fs[0]; X, Y = SymNum(la, 'a'), SymNum(lb, 'b'); rank = max(X.rank(), Y.rank())
    def run():
        E.assume(*X.pre, *Y.pre); return E.run_fn(f, [Ref(Cell(X.obj())), Ref(Cell(Y.obj()))])
    def replay(model):
        cx, cy = X.concrete(model), Y.concrete(model)
        if cx is None or cy is None: return None
        prog = f'@nnum div rr {cx[0]} {cy[0]}'
        if rank <= 1 and cy[2] != 0: return {'program': prog, 'expect': {'one_of': show_exact(py_exact('div', cx[2], cy[2]), 'Rational')}}
        if rank <= 2:
            try:
                fa, fb = float(cx[2]), float(cy[2])
                import struct
                if fb == 0: r = float('nan') if (fa == 0 or math.isnan(fa)) else math.copysign(float('inf'), fa) * math.copysign(1, fb)
                else: r = fa / fb
                if math.isnan(r): return {'program': prog, 'expect': {'prefix': 'K F:'}}
                return {'program': prog, 'expect': {'equals': 'K F:%016x' % struct.unpack('<Q', struct.pack('<d', r))[0]}}
            except Exception: return {'program': prog, 'expect': {'prefix': 'K F:'}}
        return {'program': prog, 'expect': {'prefix': 'K C:'}}
    for pc, kind, res, lg in E.explore(run):
        ob.paths += 1; name = f'NNum::div {la}x{lb}'; pref = prefer_all(X, Y)
        if kind == 'panic': ob.panic(name + ' panic-free', pc, res, replay=replay, cls='C07/NNum::div/panic', prefer=pref); continue
        if kind != 'ok': ob.missing(name, f'{kind}: {res}'); continue
        lvl, pay = out_num(res)
        if rank <= 1:
            # exact quotient when the divisor is nonzero; float fallback (inf / NaN) for a zero divisor
            if lvl == 'Rational': goal = z3.And(Y.real() != 0, pay.v == X.real() / Y.real())
            elif lvl == 'Float': goal = z3.And(Y.real() == 0, feq(pay, Engine.fop_term('Div', conv_f64(X), conv_f64(Y))))
            else: goal = z3.BoolVal(False)
        elif rank == 2: goal = z3.BoolVal(lvl == 'Float') if lvl != 'Float' else feq(pay, Engine.fop_term('Div', conv_f64(X), conv_f64(Y)))
        else:
            if lvl != 'Complex': goal = z3.BoolVal(False)
            else:
                cx_ = conv_c(X) if X.level == 'Complex' else conv_f64(X); cy_ = conv_c(Y) if Y.level == 'Complex' else conv_f64(Y)
                w = cop_term('Div', cx_, cy_); goal = z3.And(feq(pay.fields[0], w.fields[0]), feq(pay.fields[1], w.fields[1]))
        ob.check(name + f' -> {lvl}', pc, goal, replay=replay, cls=f'C07/NNum::div/{lvl}', prefer=pref, sample='/ : exact quotient, float fallback on zero divisor, float/complex division of converted operands otherwise')
        ob.witness(lvl)
    ob.absorb_engine(E)

# ------------------------------------------------------------------------------------------------ unary: rounding family, numerator/denominator, abs, signum, neg
def shape_unary(item, ob):
    op, la = item
    E = eng()
    ptys = ('NNum',) if op == 'neg_v' else ('&NNum',)
    last = {'neg_v': 'neg', 'neg_r': 'neg'}.get(op, op)
    fs = nnum_fns(E, last, ptys)
    if len(fs) != 1: raise Missing(f'NNum::{op} not found uniquely ({len(fs)})')
    f = fs[0]; X = SymNum(la, 'a')
    def run():
        E.assume(*X.pre); return E.run_fn(f, [arg_for(ptys[0], X.obj())])
    half = z3.RealVal('1/2')
    def rnd(v): return z3.If(v >= 0, z3.ToInt(v + half), -z3.ToInt(-v + half))
    exact_int = {'floor': floor_r, 'ceil': ceil_r, 'trunc': trunc_r, 'round': rnd}
    def py_int(op, q):
        q = Fraction(q)
        if op == 'floor': return math.floor(q)
        if op == 'ceil': return math.ceil(q)
        if op == 'trunc': return math.trunc(q)
        return math.floor(q + Fraction(1, 2)) if q >= 0 else -math.floor(-q + Fraction(1, 2))
    def replay(model):
        cx = X.concrete(model)
        if cx is None: return None
        prog = f'@nnum1 {op} {cx[0]}'
        if la in ('IntSmall', 'IntBig', 'Rational'):
            q = Fraction(cx[2])
            if op in exact_int: return {'program': prog, 'expect': {'one_of': show_exact(py_int(op, q), 'Int')}}
            if op == 'numerator': return {'program': prog, 'expect': {'one_of': show_exact(q.numerator, 'Int')}}
            if op == 'denominator': return {'program': prog, 'expect': {'one_of': show_exact(q.denominator, 'Int')}}
            if op == 'abs': return {'program': prog, 'expect': {'one_of': show_exact(abs(q), 'Int' if la != 'Rational' else 'Rational')}}
            if op == 'signum': return {'program': prog, 'expect': {'one_of': show_exact((q > 0) - (q < 0), 'Int')}}
            if op.startswith('neg'): return {'program': prog, 'expect': {'one_of': show_exact(-q, 'Int' if la != 'Rational' else 'Rational')}}
        if la == 'Float' and op in exact_int and isinstance(cx[2], float) and math.isfinite(cx[2]):
            return {'program': prog, 'expect': {'one_of': show_exact(py_int(op, Fraction(cx[2])), 'Int')}}
        return {'program': prog, 'expect': {'not_panic': 1}}
    for pc, kind, res, lg in E.explore(run):
        ob.paths += 1; name = f'NNum::{op} {la}'; pref = prefer_all(X)
        if kind == 'panic': ob.panic(name + ' panic-free', pc, res, replay=replay, cls=f'C07/NNum::{op}/panic', prefer=pref); continue
        if kind != 'ok': ob.missing(name, f'{kind}: {res}'); continue
        r = res
        if op in exact_int or op in ('numerator', 'denominator'):
            # Option<NNum>
            if la == 'Complex' or (op in ('numerator', 'denominator') and la == 'Float'):
                goal = z3.BoolVal(r.variant == 'None')
            elif r.variant != 'Some': goal = z3.BoolVal(False)
            else:
                lvl, pay = out_num(r.fields[0])
                if la == 'Float' and op in exact_int:
                    # finite: the integer by the mathematical definition; non-finite: unchanged float
                    if lvl == 'Int': goal = z3.And(X.k == 3, pay.fields[0] == exact_int[op](X.v))
                    elif lvl == 'Float': goal = z3.And(X.k != 3, pay.kind == X.k)
                    else: goal = z3.BoolVal(False)
                elif lvl != 'Int': goal = z3.BoolVal(False)
                else:
                    v = pay.fields[0]
                    if op in exact_int: goal = v == exact_int[op](X.real())
                    elif X.is_int_level(): goal = v == (X.i if op == 'numerator' else 1)
                    else:
                        # lowest terms is the Ratio invariant: numer/denom of the stored value (exposed only when integral: n/1)
                        goal = v == (Rat(X.v).n if op == 'numerator' else Rat(X.v).d)
                    if pay.variant == 'Small': goal = z3.And(goal, in_i64(v))
        else:
            lvl, pay = out_num(r)
            if op == 'abs':
                if X.is_int_level(): goal = z3.And(z3.BoolVal(lvl == 'Int'), pay.fields[0] == z3.If(X.i < 0, -X.i, X.i)) if lvl == 'Int' else z3.BoolVal(False)
                elif la == 'Rational': goal = pay.v == z3.If(X.v < 0, -X.v, X.v) if lvl == 'Rational' else z3.BoolVal(False)
                elif la == 'Float': goal = z3.And(pay.kind == z3.If(X.k == 2, 1, X.k), pay.val == z3.If(X.v < 0, -X.v, X.v)) if lvl == 'Float' else z3.BoolVal(False)
                else: goal = z3.BoolVal(lvl == 'Float')
            elif op == 'signum':
                if la == 'Complex': goal = z3.BoolVal(lvl == 'Complex')
                elif la == 'Float':
                    if lvl == 'Float': goal = X.k == 0
                    elif lvl == 'Int': goal = z3.And(X.k != 0, pay.fields[0] == z3.If(z3.Or(X.k == 1, z3.And(X.k == 3, X.v > 0)), 1, z3.If(z3.Or(X.k == 2, z3.And(X.k == 3, X.v < 0)), -1, 0)))
                    else: goal = z3.BoolVal(False)
                else:
                    rv = X.real(); goal = pay.fields[0] == z3.If(rv > 0, 1, z3.If(rv < 0, -1, 0)) if lvl == 'Int' else z3.BoolVal(False)
            else:   # neg
                if X.is_int_level(): goal = pay.fields[0] == -X.i if lvl == 'Int' else z3.BoolVal(False)
                elif la == 'Rational': goal = pay.v == -X.v if lvl == 'Rational' else z3.BoolVal(False)
                elif la == 'Float': goal = z3.And(pay.val == -X.v, pay.kind == z3.If(X.k == 1, 2, z3.If(X.k == 2, 1, X.k))) if lvl == 'Float' else z3.BoolVal(False)
                else: goal = z3.BoolVal(lvl == 'Complex')
        ob.check(name, pc, goal, replay=replay, cls=f'C07/NNum::{op}/{la if la in ("Float", "Complex", "Rational") else "Int"}', prefer=pref, sample=f'{op} agrees with exact arithmetic')
        ob.witness('value-path')
    ob.absorb_engine(E)

# ------------------------------------------------------------------------------------------------ builtin closures: zero-divisor guards at every level
from props.C06 import builtin_closures
def shape_builtin(item, ob):
    name, la, lb = item
    E = eng(); cl = builtin_closures(E)
    if name not in cl: raise Missing(f'builtin closure for {name!r} not found')
    f = cl[name]; X, Y = SymNum(la, 'a'), SymNum(lb, 'b'); rank = max(X.rank(), Y.rank())
    def zero(S):
        if S.level == 'Complex': return z3.And(S.k == 3, S.v == 0, S.k2 == 3, S.v2 == 0)
        if S.level == 'Float': return z3.And(S.k == 3, S.v == 0)
        return S.real() == 0
    def run():
        E.assume(*X.pre, *Y.pre); return E.run_fn(f, [Closure(f.params[0][1], []), X.obj(), Y.obj()])
    def replay(model):
        cx, cy = X.concrete(model), Y.concrete(model)
        if cx is None or cy is None: return None
        from props.C08 import lit
        lx, ly = lit(cx), lit(cy)
        if lx is None or ly is None: return None
        prog = f'{lx} {name} {ly}'
        zy = (cy[2] == 0)
        if zy: return {'program': prog, 'expect': {'prefix': 'ERR'}}
        if rank <= 1:
            op = {'%': 'rem', '//': 'div_floor', '%%': 'mod_floor', '/!': 'div_floor'}[name]
            if name == '/!' and py_exact('mod_floor', cx[2], cy[2]) != 0: return {'program': prog, 'expect': {'prefix': 'ERR'}}
            q = py_exact(op, cx[2], cy[2]); lvl = 'Int' if rank == 0 else 'Rational'
            return {'program': prog, 'expect': {'equals': 'OK ' + (str(q.numerator) if lvl == 'Int' else repr_q(q))}}
        return {'program': prog, 'expect': {'not_panic': 1}}
    opn = {'%': 'rem', '//': 'div_floor', '%%': 'mod_floor', '/!': 'div_floor'}[name]
    for pc, kind, res, lg in E.explore(run):
        ob.paths += 1; nm = f'builtin `{name}` {la}x{lb}'; pref = prefer_all(X, Y)
        if kind == 'panic': ob.panic(nm + ' panic-free', pc, res, replay=replay, cls=f'C07/builtin {name}/panic', prefer=pref); continue
        if kind != 'ok': ob.missing(nm, f'{kind}: {res}'); continue
        if res.variant == 'Err':
            if name == '/!' and rank <= 1: goal = z3.Or(zero(Y), z3.And(z3.Not(zero(Y)), OPS['mod_floor'][2](X.real(), Y.real()) != 0))
            elif name == '/!': goal = z3.BoolVal(True)          # float remainders: uninterpreted
            else: goal = zero(Y)
        else:
            g, why = result_goal(opn, X, Y, res.fields[0].fields[0], E)
            goal = z3.And(z3.Not(zero(Y)), g)
            if name == '/!' and rank <= 1: goal = z3.And(goal, OPS['mod_floor'][2](X.real(), Y.real()) == 0)
        ob.check(nm + f' -> {res.variant}', pc, goal, replay=replay, cls=f'C07/builtin {name}/value', prefer=pref, sample='zero divisor => error, otherwise the level operation'); ob.witness(res.variant)
    ob.absorb_engine(E)

def run_shape(item, ob):
    fam, payload = item
    if fam == 'vectorize':
        from props import vec07
        vec07.MIR = MIR; return vec07.run_shape(item, ob)
    {'binop': shape_binop, 'div': shape_div, 'unary': shape_unary, 'builtin': shape_builtin}[fam](payload, ob)

def main(tier, seed, t0):
    global MIR
    MIR, th = load_mir('on')
    items = []
    RR = ('&NNum', '&NNum')
    for op in OPS:
        for la in LEVELS_C:
            for lb in LEVELS_C: items.append(('binop', (op, RR, la, lb)))
    # the owned/borrowed forwarding impls of + - * %: all four signatures on a representative sample of level pairs (all pairs in the thorough tier)
    rnd = random.Random(seed)
    for op in ('add', 'sub', 'mul', 'rem'):
        for ptys in (('&NNum', 'NNum'), ('NNum', '&NNum'), ('NNum', 'NNum')):
            pairs = [(a, b) for a in LEVELS_C for b in LEVELS_C]
            if tier == 'quick': pairs = rnd.sample(pairs, 6)
            for la, lb in pairs: items.append(('binop', (op, ptys, la, lb)))
    for la in LEVELS_C:
        for lb in LEVELS_C: items.append(('div', (la, lb)))
    for op in ('floor', 'ceil', 'trunc', 'round', 'numerator', 'denominator', 'abs', 'signum', 'neg_v', 'neg_r'):
        for la in LEVELS_C: items.append(('unary', (op, la)))
    for name in ('%', '//', '%%', '/!'):
        for la in LEVELS_C:
            for lb in LEVELS_C:
                if la.startswith('Int') and lb.startswith('Int'): continue      # integer x integer: decided under C06 (same closures, integer oracle)
                items.append(('builtin', (name, la, lb)))
    from props import vec07
    items += vec07.items_for(tier, seed)
    rnd.shuffle(items)
    merged, per = pmap(run_shape, items, tier)
    return finish(PROP, tier, seed, merged, t0, th=th,
        kernels=['nnum.rs: Add/Sub/Mul/Rem for NNum (4 owned/borrowed impls, binary_match!), Div, div_floor, mod_floor, dumb_rational_div_floor, floor/ceil/trunc/round (forward_int_coercion!), numerator, denominator, abs, signum, Neg, to_rational, to_f64_or_inf_or_complex, to_complex_or_inf, is_nonzero',
                 'lib.rs builtin closures: % // %% /!'],
        bounds={'operands': 'every ordered pair of levels {int Small, int Big, rational, float, complex}; values unbounded (Z, Q, abstract doubles)', 'forwarding impls': 'all 4 signatures; level pairs sampled by VERIF_SEED in the quick tier, all in thorough'},
        outside=['float/complex arithmetic itself (uninterpreted: the claim is level selection, routing and operand order)', '^ with non-integer exponents, transcendental functions', 'vectors longer than 2 in the broadcasting wrappers (expect_nums_and_vectorize_2 / _2_nums are run on scalar / vector pairs of length <= 2 with a recorder body)',
                 'lowest-terms normalisation (num-rational invariant)'],
        assumptions=['num-rational implements Q exactly (Ratio ops, floor/ceil/round/trunc/to_integer/recip, from_float)', 'int/rational -> f64 conversions are the functions modelled (exact below 2^53, otherwise an uninterpreted rounding)'])
