"""Equivalence of two noulith programs under the real evaluator (statement-level harness, props/evalh.py): both program texts are
parsed by the real parser, both run symbolically in fresh real environments with the same symbolic inputs, and for every pair of
paths the obligation is that, wherever both path conditions hold, the two outcomes are the same value (structurally, including
the integer representation) or both raise, with the same printed output.

Families:
  C04  all application forms of a function agree (infix, prefix call, sections with `_`, sections with splats, partial application);
  C17  a frozen function and the unfrozen one (bodies given as source text: literals, switch, constant folding);
  C13  a library function and its executable specification written in noulith itself (loops and lists, the constructs C05 ties
       to the reference interpreter): map, filter, each, fold, group with a relation, max / min with ties, …"""
import z3
from lib.common import *
from props import evalh

MIR = None
X, Y, Z = z3.Int('x'), z3.Int('y'), z3.Int('z')

def struct_eq(r1, r2):
    """z3 Bool: two results of the real code are the same value (structure, leaves and integer representation)"""
    if z3.is_expr(r1) or z3.is_expr(r2): return (r1 == r2) if z3.is_expr(r1) and z3.is_expr(r2) and r1.sort() == r2.sort() else z3.BoolVal(False)
    if type(r1) is not type(r2): return z3.BoolVal(False)
    if isinstance(r1, F64): return z3.And(r1.kind == r2.kind, r1.val == r2.val, r1.nz == r2.nz)
    if isinstance(r1, Rat): return r1.v == r2.v
    if isinstance(r1, BoxV): return struct_eq(r1.cell.v, r2.cell.v)
    if isinstance(r1, RcV): return struct_eq(r1.obj.cell.v, r2.obj.cell.v)
    if isinstance(r1, Opaque): return z3.BoolVal(True)
    if isinstance(r1, Adt):
        if r1.ty != r2.ty or r1.variant != r2.variant: return z3.BoolVal(False)
        if r1.ty == 'NErr': return z3.BoolVal(True)            # both raise: the message is not compared
        if r1.ty == 'Obj' and r1.variant == 'Func': return z3.BoolVal(True)
        if len(r1.fields) != len(r2.fields): return z3.BoolVal(False)
        return z3.And(*[struct_eq(a, b) for a, b in zip(r1.fields, r2.fields)]) if r1.fields else z3.BoolVal(True)
    if isinstance(r1, (Tup, Seq, Closure)):
        if len(r1.fields) != len(r2.fields): return z3.BoolVal(False)
        return z3.And(*[struct_eq(a, b) for a, b in zip(r1.fields, r2.fields)]) if r1.fields else z3.BoolVal(True)
    return z3.BoolVal(r1 is r2 or r1 == r2)

def env_for(E, spec):
    """spec: dict(reps=(repx, repy, repz), registered=(...), structs={name: Adt}, stubs=(...))"""
    rx, ry, rz = spec.get('reps', ('Small', 'Small', 'Small'))
    binds = {'x': evalh.num(X, rx), 'y': evalh.num(Y, ry), 'z': evalh.num(Z, rz),
             'xs': evalh.olist([evalh.num(X, rx), evalh.num(Y, ry), evalh.num(Z, rz)][:spec.get('n', 3)])}
    return evalh.top_env(binds, builtins=spec.get('builtins', ('+', '-', '*', '<', '>', '<=', '>=', '==', '!=', 'print', 'append')), E=E, registered=spec.get('registered', ()), structs=spec.get('structs'))

def lit(v, rep): return fmt_int(v) if rep == 'Small' else fmt_big(v)
def shape_pair(prop, item, ob):
    name, a_src, b_src, spec = item
    E = evalh.eng(MIR); astA, astB = evalh.parse_programs([a_src, b_src])
    pre = [in_i64(X), in_i64(Y), in_i64(Z)] + list(spec.get('pre', ()))
    def runner(ast):
        def run():
            E.assume(*pre); E.log.clear()
            return evalh.run_program(E, ast, env_for(E, spec))
        return run
    PA = E.explore(runner(astA), max_paths=300); PB = E.explore(runner(astB), max_paths=300)
    rx, ry, rz = spec.get('reps', ('Small', 'Small', 'Small')); n = spec.get('n', 3)
    def replay(model):
        x, y, z = mval(model, X), mval(model, Y), mval(model, Z)
        xs = '[' + ', '.join([lit(x, rx), lit(y, ry), lit(z, rz)][:n]) + ']'
        obs = spec.get('observe', 'r__')          # what of the result is compared natively (e.g. also is_big for representation-sensitive ties)
        def wrap(src): return f'(\\x, y, z, xs -> (out := []; print := \\v -> (out append= v; null); r__ := try ({src}) catch e__ -> "raised"; [{obs}, out]))({lit(x, rx)}, {lit(y, ry)}, {lit(z, rz)}, {xs})'
        return {'program': f'{wrap(a_src)} == {wrap(b_src)}', 'expect': {'equals': 'OK 1'}}
    pref = [[z3.And(X >= -2, X <= 4, Y >= -2, Y <= 4, Z >= -2, Z <= 4)]]
    for pa in PA + PB:
        ob.paths += 1
        if pa[1] == 'panic': ob.panic(f'{name}: panic-free', pa[0], pa[2], replay=replay, cls=f'{prop}/equivalence {name}/panic', prefer=pref)
        elif pa[1] != 'ok': ob.missing(name, f'{pa[1]}: {pa[2]}')
    for pcA, kA, rA, lgA in PA:
        if kA != 'ok': continue
        for pcB, kB, rB, lgB in PB:
            if kB != 'ok': continue
            pc = list(pcA) + list(pcB)
            s = z3.Solver(); s.set('timeout', 3000); s.add(*pc)
            if s.check() == z3.unsat: continue
            prA = [l[1][0] for l in lgA if l[0] == 'print']; prB = [l[1][0] for l in lgB if l[0] == 'print']
            outm = z3.And(*[struct_eq(p, q) for p, q in zip(prA, prB)]) if len(prA) == len(prB) and prA else z3.BoolVal(len(prA) == len(prB))
            ob.check(f'{name}: both forms give the same outcome', pc, z3.And(struct_eq(rA, rB), outm), replay=replay, cls=f'{prop}/equivalence {name}', prefer=pref,
                     sample=f'{a_src[:70]}  ==  {b_src[:70]}'); ob.witness(rA.variant)
    ob.absorb_engine(E)

# ------------------------------------------------------------------------------------------------ families
F3 = 'g := \\a, b, c -> a * 100 + b * 10 + c; '
F2 = 'g := \\a, b -> a * 10 - b; '
def family_C04():
    base = {}
    P = [('infix vs call', F2 + 'x g y', F2 + 'g(x, y)', base),
         ('left section', F2 + '(x g _)(y)', F2 + 'g(x, y)', base), ('right section', F2 + '(_ g y)(x)', F2 + 'g(x, y)', base),
         ('call section first slot', F3 + 'g(_, y, z)(x)', F3 + 'g(x, y, z)', base), ('call section middle slot', F3 + 'g(x, _, z)(y)', F3 + 'g(x, y, z)', base),
         ('call section two slots', F3 + 'g(_, y, _)(x, z)', F3 + 'g(x, y, z)', base),
         ('splat call', F3 + 'g(...[x, y, z])', F3 + 'g(x, y, z)', base), ('splat after argument', F3 + 'g(x, ...[y, z])', F3 + 'g(x, y, z)', base),
         ('section with splat after the slot', F3 + 'g(_, ...[y, z])(x)', F3 + 'g(x, y, z)', base), ('section with splat before the slot', F3 + 'g(...[x, y], _)(z)', F3 + 'g(x, y, z)', base),
         ('section with slot between splats', F3 + 'g(...[x], _, ...[z])(y)', F3 + 'g(x, y, z)', base),
         ('operator as a function value', 'h := -; h(x, y)', 'x - y', base), ('operator section', '(_ - y)(x)', 'x - y', base), ('operator left section', '(x - _)(y)', 'x - y', base),
         ('operator through an identifier', 'h := -; x h y', 'x - y', base), ('partial application by one argument', F2 + 'g(y)(x)', F2 + 'g(x, y)', base) if False else ('identity wrapper', F2 + '(\\p, q -> p g q)(x, y)', F2 + 'g(x, y)', base),
         ('operator assignment', 'a := x; a -= y; a', 'x - y', base), ('operator assignment reading the target', 'a := x; a -= a * y; a', 'x - x * y', base),
         ('operator assignment with a function', F2 + 'a := x; a g= y; a', F2 + 'g(x, y)', base)]
    return P
def family_C17():
    base = {}
    bodies = ['[1, 2, x]', '[1, 2.5, 3]', '(-5) + a', '(-(2.5)) * 2', '[1, 2i]', 'a + (-3i)', '"s" $$ "t"' if False else '[a, [1, 2], []]', '{1: 2, a: 3}' if False else '[-1, -2.5]',
              'switch (a) case 0 -> 10 case 1 -> 11 case _ -> a * 2', 'switch ([a, y]) case [0, q] -> q case [p, q] -> p + q',
              'switch (a) case y, 0 -> y case _ -> y + 100', 'switch (a) case q -> q + y', 'if (a > 0) "pos" else "neg"', 'null', '[null, a]', '1.5 * a', '3/4 + a' if False else '(3/4)',
              '-(5, a)', '-(a, 5)', '-(y, a)', '+(2, a)', '*(a, -3)', '-(5)']          # call-form arithmetic next to the negative-literal fold
    P = []
    bl = dict(base, builtins=('+', '-', '*', '/', '<', '>', '<=', '>=', '==', '!=', 'print', 'append'))
    for i, b in enumerate(bodies):
        P.append((f'frozen body {i}: {b}', f'f := freeze \\a -> ({b}); f(x)', f'f := \\a -> ({b}); f(x)', bl))
    # eager binding through every construct: the frozen function called after the outer variable w was reassigned == the unfrozen one called before
    eager = ['w + a', 'switch (a) case w, 0 -> w case _ -> w + 100', 'switch (a) case [q] -> q case _ -> w * 2', 'for (i <- [1, 2]) (if (i == a) break w * i)', '(\\k -> k + w)(a)',
             'if (a > w) w else a', 'try (if (a < 0) throw w else w + 1) catch e -> e * 2', '[w, a, [w]]', 't := 0; for (i <- [w, a]) t += i; t', 'switch (a) case 0 -> w case w2 -> w2 + w']
    for i, b in enumerate(eager):
        P.append((f'eager binding {i}: {b}', f'w := y; f := freeze \\a -> ({b}); w = z; f(x)', f'w := y; f := \\a -> ({b}); r := f(x); w = z; r', bl))
    return P
def family_C13(E=None):
    ord_less = Adt('Ordering', 'Less', []); ord_greater = Adt('Ordering', 'Greater', [])
    structs = {'max': Adt('Extremum', None, [evalh.sbytes('max'), ord_greater]), 'min': Adt('Extremum', None, [evalh.sbytes('min'), ord_less]),
               'group': Adt('Group', None, [z3.BoolVal(False)]), 'fold': Adt('Fold', None, [])}
    reg = ('map', 'filter', 'len', 'reverse')
    P = []
    def mk(name, a, b, n=3, reps=('Small', 'Small', 'Small'), observe='r__'):
        P.append((name, a, b, dict(n=n, reps=reps, registered=reg, structs=structs, observe=observe)))
    for n in (0, 1, 2, 3):
        mk(f'map n={n}', 'map(xs, \\k -> k * 2 - 1)', 'r := []; for (e <- xs) r append= e * 2 - 1; r', n)
        mk(f'filter n={n}', 'filter(xs, \\k -> k > 0)', 'r := []; for (e <- xs) (if (e > 0) r append= e); r', n)
        mk(f'group by relation n={n}', 'group(xs, \\p, q -> q == p + 1)', 'gs := []; cur := []; for (e <- xs) (if (len(cur) == 0) (cur = [e]) else (if (e == cur[-1] + 1) (cur append= e) else (gs append= cur; cur = [e]))); if (len(cur) > 0) gs append= cur; gs', n)
    # more of the library, each against its specification in noulith
    structs2 = dict(structs, first=Adt('First', None, []), last=Adt('Last', None, []), count=Adt('Count', None, []), scan=Adt('Scan', None, []))
    reg2 = reg + ('take', 'drop', 'find?', 'flat_map')
    def mk2(name, a, b, n=3):
        P.append((name, a, b, dict(n=n, registered=reg2, structs=structs2)))
    for n in (0, 1, 2, 3):
        mk2(f'take count n={n}', 'take(xs, 2)', 'r := []; for (e <- xs) (if (len(r) < 2) r append= e); r', n)
        mk2(f'drop count n={n}', 'drop(xs, 1)', 'r := []; k := 0; for (e <- xs) (if (k >= 1) r append= e; k += 1); r', n)
        mk2(f'take while n={n}', 'take(xs, \\k -> k > 0)', 'r := []; ok := 1; for (e <- xs) (if (ok) (if (e > 0) r append= e else ok = 0)); r', n)
        mk2(f'count predicate n={n}', 'count(xs, \\k -> k > 0)', 'c := 0; for (e <- xs) (if (e > 0) c += 1); c', n)
        mk2(f'count value n={n}', 'count(xs, y)', 'c := 0; for (e <- xs) (if (e == y) c += 1); c', n)
        mk2(f'find? n={n}', 'xs find? (\\k -> k > y)', 'r := null; done := 0; for (e <- xs) (if ((done == 0) and e > y) (r = e; done = 1)); r', n)
        mk2(f'flat_map n={n}', 'flat_map(xs, \\k -> [k, k * 2])', 'r := []; for (e <- xs) (r append= e; r append= e * 2); r', n)
    for n in (1, 2, 3):
        mk2(f'first n={n}', 'first(xs)', 'xs[0]', n); mk2(f'last n={n}', 'last(xs)', 'xs[-1]', n)
        mk2(f'scan n={n}', 'scan(xs, \\p, q -> p * 2 - q)', 'r := [xs[0]]; acc := xs[0]; for (e <- xs[1:]) (acc = acc * 2 - e; r append= acc); r', n)
    for n in (1, 2, 3):
        mk(f'fold n={n}', 'fold(xs, \\p, q -> p * 2 - q)', 'acc := xs[0]; for (e <- xs[1:]) acc = acc * 2 - e; acc', n)
        for reps in (('Small', 'Big', 'Small'), ('Big', 'Small', 'Big')):
            mk(f'max keeps the first of tied maxima n={n} {reps}', 'max(xs)', 'best := xs[0]; for (e <- xs[1:]) (if (e > best) best = e); best', n, reps, observe='[r__, is_big(r__)]')
            mk(f'min keeps the first of tied minima n={n} {reps}', 'min(xs)', 'best := xs[0]; for (e <- xs[1:]) (if (e < best) best = e); best', n, reps, observe='[r__, is_big(r__)]')
    return P
FAMILIES = {'C04': family_C04, 'C17': family_C17, 'C13': family_C13}
def items_for(prop): return [('pair', (prop, i)) for i in range(len(FAMILIES[prop]()))]
def run_item(item, ob):
    prop, i = item[1]
    shape_pair(prop, FAMILIES[prop]()[i], ob)
def preparse(prop):
    srcs = []
    for it in FAMILIES[prop](): srcs += [it[1], it[2]]
    try: evalh.parse_programs(srcs)          # one native call fills the cache; a program that does not parse is reported by its own shape
    except Missing: pass
