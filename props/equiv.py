"""Equivalence of two noulith programs under the real evaluator (statement-level harness, props/evalh.py): both program texts are
parsed by the real parser, both run symbolically in fresh real environments with the same symbolic inputs, and for every pair of
paths the obligation is that, wherever both path conditions hold, the two outcomes are the same value (structurally, including
the integer representation) or both raise, with the same printed output.

Families:
  C04  all application forms of a function agree (infix, prefix call, sections with `_`, sections with splats, partial application);
  C17  a frozen function and the unfrozen one (bodies given as source text: literals, switch, constant folding);
  C13  a library function and its executable specification written in noulith itself (loops and lists, the constructs C05 ties
       to the reference interpreter): map, filter, each, fold, group with a relation, max / min with ties, …"""
import z3
from lib.common import *
from props import evalh

MIR = None
PAIR_FUEL = 25000
X, Y, Z = z3.Int('x'), z3.Int('y'), z3.Int('z')

def struct_eq(r1, r2):
    """z3 Bool: two results of the real code are the same value (structure, leaves and integer representation)"""
    if z3.is_expr(r1) or z3.is_expr(r2): return (r1 == r2) if z3.is_expr(r1) and z3.is_expr(r2) and r1.sort() == r2.sort() else z3.BoolVal(False)
    if type(r1) is not type(r2): return z3.BoolVal(False)
    if isinstance(r1, F64): return z3.And(r1.kind == r2.kind, r1.val == r2.val, r1.nz == r2.nz)
    if isinstance(r1, Rat): return r1.v == r2.v
    if isinstance(r1, BoxV): return struct_eq(r1.cell.v, r2.cell.v)
    if isinstance(r1, RcV): return struct_eq(r1.obj.cell.v, r2.obj.cell.v)
    if isinstance(r1, Opaque): return z3.BoolVal(True)
    if isinstance(r1, Adt):
        if r1.ty != r2.ty or r1.variant != r2.variant: return z3.BoolVal(False)
        if r1.ty == 'NErr': return z3.BoolVal(True)            # both raise: the message is not compared
        if r1.ty == 'Obj' and r1.variant == 'Func': return z3.BoolVal(True)
        if len(r1.fields) != len(r2.fields): return z3.BoolVal(False)
        return z3.And(*[struct_eq(a, b) for a, b in zip(r1.fields, r2.fields)]) if r1.fields else z3.BoolVal(True)
    if isinstance(r1, (Tup, Seq, Closure)):
        if len(r1.fields) != len(r2.fields): return z3.BoolVal(False)
        return z3.And(*[struct_eq(a, b) for a, b in zip(r1.fields, r2.fields)]) if r1.fields else z3.BoolVal(True)
    return z3.BoolVal(r1 is r2 or r1 == r2)

def elem(v, rep):
    """the value of an input: an integer in either representation, or a float determined by the integer input
    ('Half': the double v + 0.5, 'Flt': the double v; |v| <= 2^40 is assumed for these, so the value is an exact double)"""
    if rep in ('Small', 'Big'): return evalh.num(v, rep)
    if rep == 'Nan': return Adt('Obj', 'Num', [Adt('NNum', 'Float', [F64(0, z3.RealVal(0), z3.BoolVal(False))])])          # the input is ignored: a NaN
    val = z3.ToReal(v) + (z3.RealVal('1/2') if rep == 'Half' else 0)
    return Adt('Obj', 'Num', [Adt('NNum', 'Float', [F64(3, val, z3.BoolVal(False))])])
def rep_pre(v, rep): return [] if rep in ('Small', 'Big') else [v >= -(1 << 40), v <= (1 << 40)]
def env_for(E, spec):
    """spec: dict(reps=(repx, repy, repz), registered=(...), structs={name: Adt}, stubs=(...), xs_kind=list|stream|vector|dict)"""
    rx, ry, rz = spec.get('reps', ('Small', 'Small', 'Small'))
    items = [elem(X, rx), elem(Y, ry), elem(Z, rz)][:spec.get('n', 3)]
    xs = evalh.olist(items); kind = spec.get('xs_kind', 'list')
    if kind == 'stream':          # `stream(xs)`: a WrappedVec over the same elements, at position 0
        xs = Adt('Obj', 'Seq', [Adt('Seq', 'Stream', [RcV(RcObj(Adt('WrappedVec', None, [RcV(RcObj(Seq(items))), z3.IntVal(0)])))])])
    elif kind == 'vector':
        xs = Adt('Obj', 'Seq', [Adt('Seq', 'Vector', [RcV(RcObj(Seq([o.fields[0] for o in items])))])])
    elif kind == 'dict':          # a set of the (pairwise distinct: precondition) elements
        from mirsym.hashmap import hm
        xs = Adt('Obj', 'Seq', [Adt('Seq', 'Dict', [RcV(RcObj(hm([Tup([Adt('ObjKey', None, [o]), Adt('Obj', 'Null', [])]) for o in items]))), opt()])])
    binds = {'x': elem(X, rx), 'y': elem(Y, ry), 'z': elem(Z, rz), 'xs': xs}
    return evalh.top_env(binds, builtins=spec.get('builtins', ('+', '-', '*', '<', '>', '<=', '>=', '==', '!=', 'print', 'append')), E=E, registered=spec.get('registered', ()), structs=spec.get('structs'), real_cmp=spec.get('real_cmp', False))

def lit(v, rep):
    if rep == 'Small': return fmt_int(v)
    if rep == 'Big': return fmt_big(v)
    if rep == 'Nan': return '(0.0/0.0)'
    f = v + 0.5 if rep == 'Half' else float(v)
    return f'({f!r})'
def shape_pair(prop, item, ob):
    name, a_src, b_src, spec = item
    E = evalh.eng(MIR); astA, astB = evalh.parse_programs([a_src, b_src])
    # a path of these programs takes 1-4 thousand basic blocks; one that is still running after PAIR_FUEL is a non-termination
    # candidate: it is replayed natively under a time limit and reported as a hang only if the real interpreter hangs too
    E.FUEL = spec.get('fuel', PAIR_FUEL); E.stop_on_fuel = True
    pre = [in_i64(X), in_i64(Y), in_i64(Z)] + list(spec.get('pre', ()))
    for v_, r_ in zip((X, Y, Z), spec.get('reps', ('Small', 'Small', 'Small'))): pre += rep_pre(v_, r_)
    if spec.get('xs_kind') == 'dict': pre += [[], [], [X != Y], [X != Y, X != Z, Y != Z]][spec.get('n', 3)]
    def runner(ast):
        def run():
            E.assume(*pre); E.log.clear()
            return evalh.run_program(E, ast, env_for(E, spec))
        return run
    PA = E.explore(runner(astA), max_paths=300); PB = E.explore(runner(astB), max_paths=300)
    rx, ry, rz = spec.get('reps', ('Small', 'Small', 'Small')); n = spec.get('n', 3)
    def replay(model):
        x, y, z = mval(model, X), mval(model, Y), mval(model, Z)
        xs = '[' + ', '.join([lit(x, rx), lit(y, ry), lit(z, rz)][:n]) + ']'
        if spec.get('xs_kind') == 'stream': xs = f'stream({xs})'
        elif spec.get('xs_kind') == 'vector': xs = f'vector({xs})' if n else 'vector([])'
        elif spec.get('xs_kind') == 'dict': xs = f'set({xs})'
        obs = spec.get('observe', 'r__')          # what of the result is compared natively (e.g. also is_big for representation-sensitive ties)
        def wrap(src): return f'(\\x, y, z, xs -> (out := []; print := \\v -> (out append= v; null); r__ := try ({src}) catch e__ -> "raised"; [{obs}, out]))({lit(x, rx)}, {lit(y, ry)}, {lit(z, rz)}, {xs})'
        return {'program': f'{wrap(a_src)} == {wrap(b_src)}', 'expect': {'equals': 'OK 1'}}
    pref = [[z3.And(X >= -2, X <= 4, Y >= -2, Y <= 4, Z >= -2, Z <= 4)]]
    for pa in PA + PB:
        ob.paths += 1
        if pa[1] == 'panic': ob.panic(f'{name}: panic-free', pa[0], pa[2], replay=replay, cls=f'{prop}/equivalence {name}/panic', prefer=pref)
        elif pa[1] == 'fuel': ob.panic(f'{name}: terminates', pa[0], f'still running after {E.FUEL} basic blocks ({pa[2]})', replay=replay, cls=f'{prop}/equivalence {name}/hang', prefer=pref)
        elif pa[1] != 'ok': ob.missing(name, f'{pa[1]}: {pa[2]}')
    for pcA, kA, rA, lgA in PA:
        if kA != 'ok': continue
        for pcB, kB, rB, lgB in PB:
            if kB != 'ok': continue
            pc = list(pcA) + list(pcB)
            s = z3.Solver(); s.set('timeout', 3000); s.add(*pc)
            if s.check() == z3.unsat: continue
            prA = [l[1][0] for l in lgA if l[0] == 'print']; prB = [l[1][0] for l in lgB if l[0] == 'print']
            outm = z3.And(*[struct_eq(p, q) for p, q in zip(prA, prB)]) if len(prA) == len(prB) and prA else z3.BoolVal(len(prA) == len(prB))
            ob.check(f'{name}: both forms give the same outcome', pc, z3.And(struct_eq(rA, rB), outm), replay=replay, cls=f'{prop}/equivalence {name}', prefer=pref,
                     sample=f'{a_src[:70]}  ==  {b_src[:70]}'); ob.witness(rA.variant)
    ob.absorb_engine(E)

# ------------------------------------------------------------------------------------------------ families
F3 = 'g := \\a, b, c -> a * 100 + b * 10 + c; '
F2 = 'g := \\a, b -> a * 10 - b; '
def family_C04():
    base = {}
    P = [('infix vs call', F2 + 'x g y', F2 + 'g(x, y)', base),
         ('left section', F2 + '(x g _)(y)', F2 + 'g(x, y)', base), ('right section', F2 + '(_ g y)(x)', F2 + 'g(x, y)', base),
         ('call section first slot', F3 + 'g(_, y, z)(x)', F3 + 'g(x, y, z)', base), ('call section middle slot', F3 + 'g(x, _, z)(y)', F3 + 'g(x, y, z)', base),
         ('call section two slots', F3 + 'g(_, y, _)(x, z)', F3 + 'g(x, y, z)', base),
         ('splat call', F3 + 'g(...[x, y, z])', F3 + 'g(x, y, z)', base), ('splat after argument', F3 + 'g(x, ...[y, z])', F3 + 'g(x, y, z)', base),
         ('section with splat after the slot', F3 + 'g(_, ...[y, z])(x)', F3 + 'g(x, y, z)', base), ('section with splat before the slot', F3 + 'g(...[x, y], _)(z)', F3 + 'g(x, y, z)', base),
         ('section with slot between splats', F3 + 'g(...[x], _, ...[z])(y)', F3 + 'g(x, y, z)', base),
         ('operator as a function value', 'h := -; h(x, y)', 'x - y', base), ('operator section', '(_ - y)(x)', 'x - y', base), ('operator left section', '(x - _)(y)', 'x - y', base),
         ('operator through an identifier', 'h := -; x h y', 'x - y', base), ('partial application by one argument', F2 + 'g(y)(x)', F2 + 'g(x, y)', base) if False else ('identity wrapper', F2 + '(\\p, q -> p g q)(x, y)', F2 + 'g(x, y)', base),
         ('operator assignment', 'a := x; a -= y; a', 'x - y', base), ('operator assignment reading the target', 'a := x; a -= a * y; a', 'x - x * y', base),
         ('operator assignment with a function', F2 + 'a := x; a g= y; a', F2 + 'g(x, y)', base)]
    # left / right sections of a user function applied through the one-argument routes (reverse application, composition)
    th = dict(base, registered=('then', '>>>'))
    P += [('left section through then', F2 + 'h := (x g); y then h', F2 + 'g(x, y)', th), ('right section through then', F2 + 'h := (_ g y); x then h', F2 + 'g(x, y)', th),
          ('left section of a call through then', F2 + 'h := g(x, _); y then h', F2 + 'g(x, y)', th),
          ('left section composed', F2 + 'h := (x g) >>> (\\r -> [r]); h(y)', F2 + '[g(x, y)]', th)]
    return P
def family_C17():
    base = {}
    bodies = ['[1, 2, x]', '[1, 2.5, 3]', '(-5) + a', '(-(2.5)) * 2', '[1, 2i]', 'a + (-3i)', '"s" $$ "t"' if False else '[a, [1, 2], []]', '{1: 2, a: 3}' if False else '[-1, -2.5]',
              'switch (a) case 0 -> 10 case 1 -> 11 case _ -> a * 2', 'switch ([a, y]) case [0, q] -> q case [p, q] -> p + q',
              'switch (a) case y, 0 -> y case _ -> y + 100', 'switch (a) case q -> q + y', 'if (a > 0) "pos" else "neg"', 'null', '[null, a]', '1.5 * a', '3/4 + a' if False else '(3/4)',
              '-(5, a)', '-(a, 5)', '-(y, a)', '+(2, a)', '*(a, -3)', '-(5)']          # call-form arithmetic next to the negative-literal fold
    P = []
    bl = dict(base, builtins=('+', '-', '*', '/', '<', '>', '<=', '>=', '==', '!=', 'print', 'append'))
    for i, b in enumerate(bodies):
        P.append((f'frozen body {i}: {b}', f'f := freeze \\a -> ({b}); f(x)', f'f := \\a -> ({b}); f(x)', bl))
    # eager binding through every construct: the frozen function called after the outer variable w was reassigned == the unfrozen one called before
    eager = ['w + a', 'switch (a) case w, 0 -> w case _ -> w + 100', 'switch (a) case [q] -> q case _ -> w * 2', 'for (i <- [1, 2]) (if (i == a) break w * i)', '(\\k -> k + w)(a)',
             'if (a > w) w else a', 'try (if (a < 0) throw w else w + 1) catch e -> e * 2', '[w, a, [w]]', 't := 0; for (i <- [w, a]) t += i; t', 'switch (a) case 0 -> w case w2 -> w2 + w']
    for i, b in enumerate(eager):
        P.append((f'eager binding {i}: {b}', f'w := y; f := freeze \\a -> ({b}); w = z; f(x)', f'w := y; f := \\a -> ({b}); r := f(x); w = z; r', bl))
    return P
def family_C13(E=None):
    ord_less = Adt('Ordering', 'Less', []); ord_greater = Adt('Ordering', 'Greater', [])
    structs = {'max': Adt('Extremum', None, [evalh.sbytes('max'), ord_greater]), 'min': Adt('Extremum', None, [evalh.sbytes('min'), ord_less]),
               'group': Adt('Group', None, [z3.BoolVal(False)]), 'fold': Adt('Fold', None, [])}
    reg = ('map', 'filter', 'len', 'reverse')
    P = []
    def mk(name, a, b, n=3, reps=('Small', 'Small', 'Small'), observe='r__'):
        P.append((name, a, b, dict(n=n, reps=reps, registered=reg, structs=structs, observe=observe)))
    for n in (0, 1, 2, 3):
        mk(f'map n={n}', 'map(xs, \\k -> k * 2 - 1)', 'r := []; for (e <- xs) r append= e * 2 - 1; r', n)
        mk(f'filter n={n}', 'filter(xs, \\k -> k > 0)', 'r := []; for (e <- xs) (if (e > 0) r append= e); r', n)
        mk(f'group by relation n={n}', 'group(xs, \\p, q -> q == p + 1)', 'gs := []; cur := []; for (e <- xs) (if (len(cur) == 0) (cur = [e]) else (if (e == cur[-1] + 1) (cur append= e) else (gs append= cur; cur = [e]))); if (len(cur) > 0) gs append= cur; gs', n)
    # more of the library, each against its specification in noulith
    structs2 = dict(structs, first=Adt('First', None, []), last=Adt('Last', None, []), count=Adt('Count', None, []), scan=Adt('Scan', None, []))
    reg2 = reg + ('take', 'drop', 'find?', 'flat_map')
    def mk2(name, a, b, n=3):
        P.append((name, a, b, dict(n=n, registered=reg2, structs=structs2)))
    for n in (0, 1, 2, 3):
        mk2(f'take count n={n}', 'take(xs, 2)', 'r := []; for (e <- xs) (if (len(r) < 2) r append= e); r', n)
        mk2(f'drop count n={n}', 'drop(xs, 1)', 'r := []; k := 0; for (e <- xs) (if (k >= 1) r append= e; k += 1); r', n)
        mk2(f'take while n={n}', 'take(xs, \\k -> k > 0)', 'r := []; ok := 1; for (e <- xs) (if (ok) (if (e > 0) r append= e else ok = 0)); r', n)
        mk2(f'count predicate n={n}', 'count(xs, \\k -> k > 0)', 'c := 0; for (e <- xs) (if (e > 0) c += 1); c', n)
        mk2(f'count value n={n}', 'count(xs, y)', 'c := 0; for (e <- xs) (if (e == y) c += 1); c', n)
        mk2(f'find? n={n}', 'xs find? (\\k -> k > y)', 'r := null; done := 0; for (e <- xs) (if ((done == 0) and e > y) (r = e; done = 1)); r', n)
        mk2(f'flat_map n={n}', 'flat_map(xs, \\k -> [k, k * 2])', 'r := []; for (e <- xs) (r append= e; r append= e * 2); r', n)
    for n in (1, 2, 3):
        mk2(f'first n={n}', 'first(xs)', 'xs[0]', n); mk2(f'last n={n}', 'last(xs)', 'xs[-1]', n)
        mk2(f'scan n={n}', 'scan(xs, \\p, q -> p * 2 - q)', 'r := [xs[0]]; acc := xs[0]; for (e <- xs[1:]) (acc = acc * 2 - e; r append= acc); r', n)
    # round 7: predicate forms on lists and streams (a path that does not terminate is replayed natively as a hang), folds over mixed
    # int / float elements, kind preservation of the filter-like functions, distinct counting with NaNs
    reg3 = reg2 + ('sum', 'product', 'any', 'all', 'reject', 'partition', 'in')
    structs3 = dict(structs2, count_distinct=Adt('CountDistinct', None, []), set=Adt('Set', None, []))
    def mk3(name, a, b, n=3, kind='list', reps=('Small', 'Small', 'Small'), observe='r__'):
        P.append((name + f' n={n} {kind} {"/".join(reps[:n])}', a, b, dict(n=n, xs_kind=kind, reps=reps, registered=reg3, structs=structs3, observe=observe, builtins=ALLB + ('/',))))
    DW = 'r := []; dr := 1; for (e <- xs) (if (dr and e > 0) null else (dr = 0; r append= e)); r'
    for n in (0, 1, 2, 3):
        mk3('drop while', 'drop(xs, \\k -> k > 0)', DW, n)
        mk3('drop while', 'r := []; for (e <- drop(xs, \\k -> k > 0)) r append= e; r', DW, n, 'stream')
        mk3('take while', 'r := []; for (e <- take(xs, \\k -> k > 0)) r append= e; r', 'r := []; ok := 1; for (e <- xs) (if (ok) (if (e > 0) r append= e else ok = 0)); r', n, 'stream')
        mk3('any', 'any(xs, \\k -> k > 0)', 'r := 0; for (e <- xs) (if (e > 0) r = 1); r', n)
        mk3('all', 'all(xs, \\k -> k > 0)', 'r := 1; for (e <- xs) (if (e > 0) null else r = 0); r', n)
        mk3('reject', 'reject(xs, \\k -> k > 0)', 'r := []; for (e <- xs) (if (e > 0) null else r append= e); r', n)
        mk3('partition', 'partition(xs, \\k -> k > 0)', 'p := []; q := []; for (e <- xs) (if (e > 0) p append= e else q append= e); [p, q]', n)
    for n in (0, 1, 2):
        mk3('filter over the keys of a set gives a list', 'filter(xs, \\k -> k > 0)', 'r := []; for (e <- xs) (if (e > 0) r append= e); r', n, 'dict')
        mk3('reject over the keys of a set gives a list', 'reject(xs, \\k -> k > 0)', 'r := []; for (e <- xs) (if (e > 0) null else r append= e); r', n, 'dict')
    for reps in (('Small', 'Small', 'Small'), ('Small', 'Half', 'Small'), ('Half', 'Small', 'Big'), ('Small', 'Nan', 'Small')):
        for n in (0, 2, 3):
            mk3('sum', 'sum(xs)', 's := 0; for (e <- xs) s += e; s', n, 'list', reps, observe='[r__, r__ is float]')
            mk3('product', 'product(xs)', 'p := 1; for (e <- xs) p *= e; p', n, 'list', reps, observe='[r__, r__ is float]')
    for reps in (('Small', 'Small', 'Small'), ('Nan', 'Small', 'Nan'), ('Small', 'Nan', 'Nan'), ('Half', 'Half', 'Small')):
        for kind in ('list', 'vector'):
            for n in (2, 3):
                mk3('count_distinct == the number of keys of a dict built from the elements', 'count_distinct(xs)', 'd := {}; for (e <- xs) d[e] = 1; len(d)', n, kind, reps)
    for n in (1, 2, 3):
        mk(f'fold n={n}', 'fold(xs, \\p, q -> p * 2 - q)', 'acc := xs[0]; for (e <- xs[1:]) acc = acc * 2 - e; acc', n)
        for reps in (('Small', 'Big', 'Small'), ('Big', 'Small', 'Big')):
            mk(f'max keeps the first of tied maxima n={n} {reps}', 'max(xs)', 'best := xs[0]; for (e <- xs[1:]) (if (e > best) best = e); best', n, reps, observe='[r__, is_big(r__)]')
            mk(f'min keeps the first of tied minima n={n} {reps}', 'min(xs)', 'best := xs[0]; for (e <- xs[1:]) (if (e < best) best = e); best', n, reps, observe='[r__, is_big(r__)]')
    return P

# ------------------------------------------------------------------------------------------------ further families (round 7)
ALLB = ('+', '-', '*', '<', '>', '<=', '>=', '==', '!=', 'print', 'append')
def family_C01():
    """value semantics at statement level: a mutation statement == the explicit functional update, every copy untouched"""
    sp = dict(registered=('len',))
    P = [('swap of two indexed slots (also the same slot, also out of range)', 'a := [10, 20, 30]; swap a[x], a[y]; a', 'a := [10, 20, 30]; t := a[x]; u := a[y]; a[x] = u; a[y] = t; a', sp),
         ('swap of a variable with itself', 'a := [x]; swap a, a; a', '[x]', sp),
         ('swap inside nested lists', 'a := [[x], [y, z]]; swap a[0][0], a[1][1]; a', '[[z], [y, x]]', sp),
         ('swap of a slot with a variable', 'a := [x, y]; b := z; swap a[1], b; [a, b]', '[[x, z], y]', sp),
         ('a function argument is a copy', 'a := [x, y]; g := \\b -> (b[0] = z; b); r := g(a); [a, r]', '[[x, y], [z, y]]', sp),
         ('a container element is a copy', 'a := [x]; b := [a, a]; a[0] = y; [a, b]', '[[y], [[x], [x]]]', sp),
         ('a copy then op-assign on the copy', 'a := [x]; b := a; b append= y; a[0] = z; [a, b]', '[[z], [x, y]]', sp),
         ('a closure result is a copy', 'a := [x]; f := \\ -> a; b := f(); a[0] = y; c := f(); [b, c]', '[[x], [y]]', sp),
         ('consume leaves null and moves the value', 'a := [x, y]; b := consume a; [a, b]', '[null, [x, y]]', sp),
         ('pop returns the last and shortens only the target', 'a := [x, y, z]; b := a; r := pop a; [r, a, b]', '[z, [x, y], [x, y, z]]', sp),
         ('remove at any index', 'a := [10, 20, 30, 40]; b := a; r := remove a[x]; [r, a, b]',
          'a := [10, 20, 30, 40]; i := if (x < 0) x + 4 else x; r := a[x]; c := []; j := 0; for (e <- a) (if (j != i) c append= e; j += 1); [r, c, a]', sp),
         ('index assignment at any index', 'a := [10, 20, 30]; b := a; a[x] = y; [a, b]',
          'a := [10, 20, 30]; i := if (x < 0) x + 3 else x; q := a[x]; c := []; j := 0; for (e <- a) (c append= (if (j == i) y else e); j += 1); [c, a]', sp),
         ('nested index op-assign', 'a := [[x], [y]]; b := a; a[1][0] += z; [a, b]', '[[[x], [y + z]], [[x], [y]]]', sp),
         ('every-slice assignment', 'a := [x, y, z]; b := a; every a[0:2] = 7; [a, b]', '[[7, 7, z], [x, y, z]]', sp),
         ('every-slice op-assign', 'a := [x, y, z]; b := a; every a[1:] *= 2; [a, b]', '[[x, y * 2, z * 2], [x, y, z]]', sp),
         ('dict value is a copy', 'd := {1: [x]}; e := d; e[1] append= y; d[2] = z; [d[1], e[1], len(d), len(e)]', '[[x], [x, y], 2, 1]', sp),
         ('defaulted dict: op-assign through a missing key', 'd := {: [x]}; d[1] append= y; d[2] append= z; [d[1], d[2], d[3], len(d)]', '[[x, y], [x, z], [x], 2]', sp),
         ('defaulted dict: pop through a missing key', 'd := {: [x, y]}; r := pop d[1]; [r, d[1], d[2], len(d)]', '[y, [x], [x, y], 1]', sp),
         ('destructuring swap', 'a := [x, y]; a[0], a[1] = a[1], a[0]; a', '[y, x]', sp)]
    return P
def family_C05():
    """`for` clauses, switch arms, splats with defaults: the construct == its expansion into simpler constructs (those that the
    reference interpreter of props/C05.py decides)"""
    P = []
    def mk(name, a, b, n=3): P.append((name, a, b, dict(n=n, registered=('len',))))
    for n in (0, 2, 3):
        mk(f'declaration clause n={n}', 'for (e <- xs; w := [e]) yield [w, e]', 'r := []; for (e <- xs) (w := [e]; r append= [w, e]); r', n)
        mk(f'declaration clause shadows the iteration variable n={n}', 'for (e <- xs; e := [e, 1]) yield e', 'r := []; for (e <- xs) r append= [e, 1]; r', n)
        mk(f'guard clause n={n}', 'for (a <- xs; if a > 0) yield a', 'r := []; for (a <- xs) (if (a > 0) r append= a); r', n)
        mk(f'index iteration n={n}', 'for (i, e <<- xs) yield [i, e]', 'r := []; i := 0; for (e <- xs) (r append= [i, e]; i += 1); r', n)
        if n < 3:          # two nested clauses over 3 elements fork 177 ways on the capacity model of the result vector: n = 2 is the bound
            mk(f'two iteration clauses n={n}', 'for (a <- xs; b <- xs) yield [a, b]', 'r := []; for (a <- xs) (for (b <- xs) r append= [a, b]); r', n)
            mk(f'guard between clauses n={n}', 'for (a <- xs; if a > 0; b <- xs) yield [a, b]', 'r := []; for (a <- xs) (if (a > 0) (for (b <- xs) r append= [a, b])); r', n)
    mk('declaration clauses do not leak into the enclosing scope', 't := 0; for (w := x) t += w; for (w := y) t += w; t', 'x + y')
    mk('a declaration clause does not touch an outer variable of the same name', 'w := x; for (w := y) null; w', 'x')
    mk('a declaration clause is gone after the loop', 'for (w := x) null; w', 'throw 1')
    mk('the iteration variable is gone after the loop', 'for (e <- xs) null; e', 'throw 1')
    mk('switch arms bind in their own scope', 'w := y; r := (switch (x) case 0 -> w case w -> w + 1); [r, w]', '[(if (x == 0) y else x + 1), y]')
    mk('switch takes the first matching arm', 'switch (x) case 0 -> 10 case 1 -> 11 case _ -> 12', 'if (x == 0) 10 else (if (x == 1) 11 else 12)')
    mk('switch without a matching arm raises', 'switch (x) case 0 -> 10', 'if (x == 0) 10 else throw 1')
    mk('splat then default', 'f := \\...a, b = 9 -> [len(a), b]; [f(), f(x), f(x, y), f(x, y, z)]', '[[0, 9], [0, x], [1, y], [2, z]]')
    mk('argument, splat, default', 'f := \\p, ...a, b = 9 -> [p, len(a), b]; [f(x), f(x, y), f(x, y, z)]', '[[x, 0, 9], [x, 0, y], [x, 1, z]]')
    mk('splat then two defaults', 'f := \\...a, b = 8, c = 9 -> [len(a), b, c]; [f(), f(x), f(x, y), f(x, y, z)]', '[[0, 8, 9], [0, x, 9], [0, x, y], [1, y, z]]')
    mk('a single-operator chain evaluates the operator before the right operand', 'f := +; x f (f = *; y)', 'x + y')
    mk('lambda splat collects the rest', 'f := \\p, ...a -> [p, a]; [f(x), f(x, y, z)]', '[[x, []], [x, [y, z]]]')
    return P
def family_C09():
    """dictionary / set operators == their definitions as loops over keys (keys symbolic: every equality pattern is a path)"""
    reg = ('len', 'in', '&&', '||', '--', '||+', '|.', '-.', 'keys', 'values', 'items')
    OBS = '; [len(r), if (x in r) r[x] else "no", if (y in r) r[y] else "no", if (z in r) r[z] else "no", if (5 in r) r[5] else "no"]'
    A = '{x: 1, y: 2, z: 3}'
    P = []
    def mk(name, a, b): P.append((name, a + OBS, b + OBS, dict(registered=reg)))
    for B in ('{y: 9}', '{y: 9, 5: 8}', '{z: 7, x: 6, 5: 8, 6: 0}', '{}'):
        mk(f'&& keeps the left entries whose key is in the right {B}', f'r := {A} && {B}', f'a := {A}; b := {B}; r := {{}}; for (k <- keys(a)) (if (k in b) r[k] = a[k]); r')
        mk(f'&& with the smaller dict on the left {B}', f'r := {B} && {A}', f'a := {B}; b := {A}; r := {{}}; for (k <- keys(a)) (if (k in b) r[k] = a[k]); r')
        mk(f'|| is the right-biased union {B}', f'r := {A} || {B}', f'a := {A}; b := {B}; r := a; for (k <- keys(b)) r[k] = b[k]; r')
        mk(f'-- removes the right keys {B}', f'r := {A} -- {B}', f'a := {A}; b := {B}; r := {{}}; for (k <- keys(a)) (if (k in b) null else r[k] = a[k]); r')
        mk(f'||+ adds the values at common keys {B}', f'r := {A} ||+ {B}', f'a := {A}; b := {B}; r := a; for (k <- keys(b)) (if (k in r) r[k] += b[k] else r[k] = b[k]); r')
    mk('|. adds a key with value null', f'r := {A} |. 5 |. y', f'r := {A}; r[5] = null; r[y] = null; r')
    mk('-. removes a key', f'r := {A} -. y -. 5', f'a := {A}; r := {{}}; for (k <- keys(a)) (if (k == y or k == 5) null else r[k] = a[k]); r')
    mk('assignment then lookup through an equal key', f'r := {{}}; r[x] = 1; r[y] = 2; r[z] += 10; r', f'r := {A}; r[z] = (if (z == y) 12 else (if (z == x) 11 else 13)); if (y == x) r[x] = (if (z == x) 12 else 2); r' if False else f'r := {{}}; r[x] = 1; r[y] = 2; r[z] = r[z] + 10; r')
    P += [q for q in family_C13() if q[0].startswith('count_distinct')]          # count_distinct (lists and vectors, NaNs, floats) is also part of C09's list
    return P
def family_C10():
    """the positional library functions == the corresponding index / slice expression, counts and indices symbolic"""
    structs = {'first': Adt('First', None, []), 'last': Adt('Last', None, [])}
    reg = ('len', 'take', 'drop', 'second', 'third', 'tail', 'butlast', 'uncons', 'unsnoc', 'only', '!!', '!?', '!%')
    P = []
    def mk(name, a, b, n=3, kind='list'): P.append((name + f' n={n} {kind}', a, b, dict(n=n, xs_kind=kind, registered=reg, structs=structs)))
    for kind in ('list', 'stream'):
        for n in (0, 1, 3):
            if kind == 'list':
                mk('take n == xs[:n]', 'take(xs, y)', 'xs[:y]', n, kind); mk('drop n == xs[n:]', 'drop(xs, y)', 'xs[y:]', n, kind)
            else:
                mk('take n == list(xs)[:n]', 'r := []; for (e <- take(xs, y)) r append= e; r', 'l := []; for (e <- xs) l append= e; l[:y]', n, kind)
                mk('drop n == list(xs)[n:]', 'r := []; for (e <- drop(xs, y)) r append= e; r', 'l := []; for (e <- xs) l append= e; l[y:]', n, kind)
            mk('first == xs[0]', 'first(xs)', 'xs[0]', n, kind); mk('last == xs[-1]', 'last(xs)', 'xs[-1]', n, kind)
            mk('second == xs[1]', 'second(xs)', 'xs[1]', n, kind); mk('third == xs[2]', 'third(xs)', 'xs[2]', n, kind)
            mk('!! == index', 'xs !! y', 'xs[y]', n, kind)
            if kind == 'list': mk('!? == index or null (no wrap-around: DESIGN A.5)', 'xs !? y', 'if (0 <= y and y < len(xs)) xs[y] else null', n, kind)
            if kind == 'list':
                mk('tail == xs[1:]', 'tail(xs)', 'xs[1:]', n, kind); mk('butlast == xs[:-1]', 'butlast(xs)', 'xs[:-1]', n, kind)
                mk('uncons == [xs[0], xs[1:]]', 'uncons(xs)', '[xs[0], xs[1:]]', n, kind); mk('unsnoc == [xs[:-1], xs[-1]]', 'unsnoc(xs)', '[xs[:-1], xs[-1]]', n, kind)
                mk('only', 'only(xs)', 'if (len(xs) == 1) xs[0] else throw 1', n, kind)
                mk('!% == cyclic index', 'xs !% y', 'k := y; while (k < 0) k += len(xs); while (k >= len(xs)) k -= len(xs); xs[k]', n, kind) if False else None
    return [p for p in P if p]
def family_C11():
    """lazy maps / filters / zips of a finite stream: len, indexing and repeated use agree with iteration (xs is `stream([x, y, z])`)"""
    structs = {'lazy_zip': Adt('LazyZip', None, []), 'first': Adt('First', None, []), 'last': Adt('Last', None, [])}
    reg = ('len', 'lazy_map', 'lazy_filter', 'repeat', 'iota')
    P = []
    def mk(name, a, b, n=3): P.append((name + f' n={n}', a, b, dict(n=n, xs_kind='stream', registered=reg, structs=structs)))
    CNT = 'c := 0; for (e <- s) c += 1; c'
    for n in (0, 1, 3):
        mk('len of a lazy map == the number of elements iterated', 's := xs lazy_map (\\k -> [k]); len(s)', 's := xs lazy_map (\\k -> [k]); ' + CNT, n)
        mk('len of a lazy filter', 's := xs lazy_filter (\\k -> k > 0); len(s)', 's := xs lazy_filter (\\k -> k > 0); ' + CNT, n)
        mk('len of a lazy zip of two finite streams', 's := xs lazy_zip (xs lazy_map (\\k -> [k])); len(s)', 's := xs lazy_zip (xs lazy_map (\\k -> [k])); ' + CNT, n)
        mk('len of a lazy zip with an infinite stream', 's := xs lazy_zip repeat(7); len(s)', 's := xs lazy_zip repeat(7); ' + CNT, n)
        mk('len of a lazy zip with an infinite stream on the left', 's := iota(5) lazy_zip xs; len(s)', 's := iota(5) lazy_zip xs; ' + CNT, n)
        mk('elements of a lazy zip', 'r := []; for (e <- xs lazy_zip repeat(7)) r append= e; r', 'r := []; for (e <- xs) r append= [e, 7]; r', n)
        mk('elements of a lazy map', 'r := []; for (e <- xs lazy_map (\\k -> [k, 1])) r append= e; r', 'r := []; for (e <- xs) r append= [e, 1]; r', n)
        mk('elements of a lazy filter', 'r := []; for (e <- xs lazy_filter (\\k -> k > 0)) r append= e; r', 'r := []; for (e <- xs) (if (e > 0) r append= e); r', n)
        mk('index into a lazy map', '(xs lazy_map (\\k -> [k]))[y]', 'l := []; for (e <- xs) l append= [e]; l[y]', n)
        mk('iterating twice gives the same elements (the variable is not advanced)', 's := xs lazy_map (\\k -> [k]); a := []; for (e <- s) a append= e; b := []; for (e <- s) b append= e; [a, b, len(s)]',
           'l := []; for (e <- xs) l append= [e]; [l, l, len(l)]', n)
        mk('first and last do not advance the stream', 'a := first(xs); b := last(xs); c := first(xs); [a, b, c, len(xs)]', '[xs[0], xs[-1], xs[0], len(xs)]', n)
    return P
def family_C12():
    """comparison-chain patterns and switch arm selection == the explicit test"""
    structs = {'<': Adt('ComparisonOperator', None, [evalh.sbytes('<'), Seq([]), Opaque('cmpfn')])} if False else {}
    P = []
    def mk(name, a, b, n=3): P.append((name + f' n={n}', a, b, dict(n=n, registered=('len',), real_cmp=True)))
    for n in (0, 1, 2, 3):
        mk('two free slots around <', 'switch (xs) case a < b -> [a, b] case _ -> "no"', 'if (len(xs) == 2 and xs[0] < xs[1]) [xs[0], xs[1]] else "no"', n)
        mk('literal then two slots', 'switch (xs) case 0 < a < b -> [a, b] case _ -> "no"', 'if (len(xs) == 2 and 0 < xs[0] and xs[0] < xs[1]) [xs[0], xs[1]] else "no"', n)
    mk('one slot between literals', 'switch (x) case 1 < v < 9 -> v case _ -> "no"', 'if (1 < x and x < 9) x else "no"')
    mk('one slot, one literal', 'switch (x) case _ < 3 -> "small" case _ -> "big"', 'if (x < 3) "small" else "big"')
    return P

FAMILIES = {'C04': family_C04, 'C17': family_C17, 'C13': family_C13, 'C01': family_C01, 'C05': family_C05, 'C09': family_C09, 'C10': family_C10, 'C11': family_C11, 'C12': family_C12}
def items_for(prop): return [('pair', (prop, i)) for i in range(len(FAMILIES[prop]()))]
def run_item(item, ob):
    prop, i = item[1]
    shape_pair(prop, FAMILIES[prop]()[i], ob)
def preparse(prop):
    srcs = []
    for it in FAMILIES[prop](): srcs += [it[1], it[2]]
    try: evalh.parse_programs(srcs)          # one native call fills the cache; a program that does not parse is reported by its own shape
    except Missing: pass
