"""C15 — lexing is total and literals decode exactly (lexer units).

Symbolic execution of the real MIR of Lexer::{next, peek, emit, lex_simple_string_after_start, lex_base_and_emit,
lex_base_64_and_emit} driven directly on a Lexer whose input is a cursor over a character sequence of concrete length with
symbolic characters.  Oracle: the character sequence the escapes spell (\\x.., \\u with and without brackets, single-char
escapes, plain characters), Invalid tokens exactly for malformed or out-of-range escapes, radix accumulation = sum of
digit values; no path panics."""
import itertools, random
import z3
from lib.common import *
from mirsym import strmodels   # noqa

PROP = 'C15'
MIR = None
def eng(): return new_engine(MIR)
def loc(): return Adt('CodeLoc', None, [z3.IntVal(1), z3.IntVal(1), z3.IntVal(0)])
def lexer(chars): return Adt('Lexer', None, [Adt('PeekChars', None, [Seq(list(chars)), 0]), loc(), loc(), Seq([])])
def lex_fn(E, name):
    fs = [f for f in E.by_last.get(name, []) if f.name.startswith('lex::<impl') and '{closure' not in f.name]
    if len(fs) != 1: raise Missing(f'Lexer::{name} not found uniquely ({len(fs)})')
    return fs[0]
def hexv(c): return z3.If(c <= 57, c - 48, z3.If(c >= 97, c - 87, c - 55))
def is_hex(c): return z3.Or(z3.And(c >= 48, c <= 57), z3.And(c >= 97, c <= 102), z3.And(c >= 65, c <= 70))
def is_scalar(x): return z3.Or(z3.And(x >= 0, x < 0xD800), z3.And(x >= 0xE000, x <= 0x10FFFF))
Q = 39   # the closing quote '
def src_of(codes): return ''.join(chr(c) for c in codes)
def nl_string_literal(body):
    """a noulith program whose value is the decoded string: the body is placed between single quotes"""
    return "'" + body + "'"
def show_str(chars):
    out = ''
    for ch in chars:
        if ch == '"': out += '\\"'
        elif ch == '\\': out += '\\\\'
        elif ch == '\n': out += '\\n'
        elif ch == '\r': out += '\\r'
        elif ch == '\t': out += '\\t'
        elif ch == '\0': out += '\\0'
        else: out += ch
    return 'OK "' + out + '"'

def shape_string(item, ob):
    kind, k = item
    E = eng(); f = lex_fn(E, 'lex_simple_string_after_start')
    C = [z3.Int(f'c{i}') for i in range(k)]
    pre = []; body = []; spec = None
    BR = {'{': '}', '(': ')', '[': ']', '<': '>'}
    if kind == 'plain':
        pre = [z3.And(c >= 32, c <= 126, c != 92, c != Q) for c in C]; body = list(C)
        spec = ('chars', list(C))
    elif kind == 'single':
        # \c with c symbolic: one of the known single-character escapes, or an unknown escape (Invalid)
        pre = [z3.And(C[0] >= 32, C[0] <= 126, C[0] != 120, C[0] != 117)]; body = [z3.IntVal(92), C[0]]
        m = {110: 10, 114: 13, 116: 9, 48: 0, 92: 92, 39: 39, 34: 34}
        spec = ('single', C[0], m)
    elif kind == 'x':
        pre = [z3.And(c >= 32, c <= 126) for c in C]; body = [z3.IntVal(92), z3.IntVal(120)] + list(C)
        spec = ('x', list(C))
    elif kind.startswith('u'):
        br = kind[1:] or None
        pre = [is_hex(c) for c in C]
        body = [z3.IntVal(92), z3.IntVal(117)] + ([z3.IntVal(ord(br))] if br else []) + list(C) + ([z3.IntVal(ord(BR[br]))] if br else [])
        spec = ('u', list(C))
    elif kind == 'any':
        pre = [z3.And(c >= 32, c <= 126) for c in C]; body = list(C); spec = None
    chars = body + [z3.IntVal(Q), z3.IntVal(32)]
    def run():
        E.assume(*pre)
        c = Cell(lexer(chars)); out = E.run_fn(f, [Ref(c), z3.IntVal(Q)])
        return out, c.v.fields[3], c.v.fields[0].fields[1]
    def replay(model):
        codes = [mval(model, c) if z3.is_expr(c) and not z3.is_int_value(c) else z3.simplify(c).as_long() for c in body]
        text = src_of(codes)
        if '\n' in text or '\r' in text: return None
        prog = nl_string_literal(text)
        # python oracle of the decoded string (None = must be a parse error); compared as a list of code points (independent of repr escaping)
        exp = py_decode(text)
        if exp is None: return {'program': prog, 'expect': {'prefix': 'PARSEERR'}}
        return {'program': prog + ' map ord', 'expect': {'equals': 'OK [' + ', '.join(str(ord(ch)) for ch in exp) + ']'}}
    for pc, kd, res, lg in E.explore(run):
        ob.paths += 1; name = f'lex_simple_string_after_start {kind} k={k}'
        pref = [[z3.And(*[z3.Or(z3.And(c >= 48, c <= 57), z3.And(c >= 97, c <= 102)) for c in C])]] if C else []
        if kd == 'panic': ob.panic(name + ' panic-free', pc, res, replay=replay, cls='C15/string/panic', prefer=pref); continue
        if kd != 'ok': ob.missing(name, f'{kd}: {res}'); continue
        out, toks, pos = res
        got = out.fields; invalid = len(toks.fields) > 0
        if spec is None: goal = z3.BoolVal(True)
        elif spec[0] == 'chars': goal = z3.And(z3.BoolVal(not invalid and len(got) == len(C)), *[g == c for g, c in zip(got, C)])
        elif spec[0] == 'single':
            c0, m = spec[1], spec[2]
            known = z3.Or(*[c0 == kk for kk in m])
            if invalid: goal = z3.Not(known)
            else: goal = z3.And(known, z3.BoolVal(len(got) == 1), *( [z3.Or(*[z3.And(c0 == kk, got[0] == vv) for kk, vv in m.items()])] if len(got) == 1 else []))
        elif spec[0] == 'x':
            cs = spec[1]; okx = z3.And(*[is_hex(c) for c in cs[:2]]) if len(cs) >= 2 else z3.BoolVal(False)
            if invalid: goal = z3.Or(z3.Not(okx), *[z3.Or(c == 92, c == Q) for c in cs[2:]])      # (a trailing backslash / quote starts its own story)
            else:
                v = hexv(cs[0]) * 16 + hexv(cs[1]) if len(cs) >= 2 else None
                rest_ = cs[2:]
                goal = z3.And(okx, z3.BoolVal(len(got) == 1 + len(rest_)), *([got[0] == v] + [g == c for g, c in zip(got[1:], rest_)] if len(got) == 1 + len(rest_) else []))
                # trailing symbolic chars may themselves be a backslash or a quote: only claim the pure case
                goal = z3.Or(goal, z3.Or(*[z3.Or(c == 92, c == Q) for c in rest_])) if rest_ else goal
        else:
            cs = spec[1]; total = z3.IntVal(0)
            for c in cs: total = total * 16 + hexv(c)
            if invalid: goal = z3.Not(is_scalar(total))
            else: goal = z3.And(is_scalar(total), z3.BoolVal(len(got) == 1), *([got[0] == total] if len(got) == 1 else []))
        ob.check(name + (' -> Invalid' if invalid else ' -> decoded'), pc, goal, replay=replay, cls=f'C15/string/{kind[:1]}', prefer=pref, sample='decoded characters == what the escapes spell; Invalid iff malformed / not a scalar value')
        ob.witness('invalid' if invalid else 'decoded')
    ob.absorb_engine(E)

def py_decode(text):
    """reference decoder of a single-quoted string body (no quote inside); None = invalid literal"""
    out = []; i = 0; n = len(text)
    BR = {'{': '}', '(': ')', '[': ']', '<': '>'}
    while i < n:
        ch = text[i]
        if ch == "'": return None if False else ''.join(out)
        if ch != '\\': out.append(ch); i += 1; continue
        i += 1
        if i >= n: return None
        e = text[i]; i += 1
        if e in 'nrt0': out.append({'n': '\n', 'r': '\r', 't': '\t', '0': '\0'}[e])
        elif e in '\\\'"': out.append(e)
        elif e == 'x':
            hh = text[i:i + 2]
            if len(hh) < 2 or any(c not in '0123456789abcdefABCDEF' for c in hh): return None
            out.append(chr(int(hh, 16))); i += 2
        elif e == 'u':
            close = None
            if i < n and text[i] in BR: close = BR[text[i]]; i += 1
            j = i
            while j < n and text[j] in '0123456789abcdefABCDEF': j += 1
            v = int(text[i:j], 16) if j > i else 0; i = j
            if close is not None:
                if i < n and text[i] == close: i += 1
                else: return None
            if v > 0x10FFFF or 0xD800 <= v <= 0xDFFF: return None
            out.append(chr(v))
        else: return None
    return ''.join(out)

def shape_radix(item, ob):
    base, k = item
    E = eng()
    f = lex_fn(E, 'lex_base_64_and_emit') if base == 64 else lex_fn(E, 'lex_base_and_emit')
    C = [z3.Int(f'c{i}') for i in range(k)]
    def dig(c):
        if base == 64: return z3.If(z3.And(c >= 65, c <= 90), c - 65, z3.If(z3.And(c >= 97, c <= 122), c - 97 + 26, z3.If(z3.And(c >= 48, c <= 57), c - 48 + 52,
                              z3.If(z3.Or(c == 43, c == 45), 62, z3.If(z3.Or(c == 47, c == 95), 63, 999)))))
        d = z3.If(z3.And(c >= 48, c <= 57), c - 48, z3.If(z3.And(c >= 97, c <= 122), c - 87, z3.If(z3.And(c >= 65, c <= 90), c - 55, 999)))
        return d
    lim = 64 if base == 64 else base
    def run():
        for c in C: E.assume(c >= 32, c <= 126)
        c = Cell(lexer(list(C) + [z3.IntVal(32)]))
        E.run_fn(f, [Ref(c)] + ([] if base == 64 else [z3.IntVal(base)]))
        return c.v.fields[3], c.v.fields[0].fields[1]
    def replay(model):
        t = src_of([mval(model, c) for c in C])
        n = 0; cnt = 0
        for ch in t:
            d = mval(model, dig(z3.IntVal(ord(ch)))) if False else None
            break
        # python oracle
        def pd(ch):
            o = ord(ch)
            if base == 64:
                if 65 <= o <= 90: return o - 65
                if 97 <= o <= 122: return o - 97 + 26
                if 48 <= o <= 57: return o - 48 + 52
                if ch in '+-': return 62
                if ch in '/_': return 63
                return None
            if ch.isdigit(): d_ = o - 48
            elif 'a' <= ch <= 'z': d_ = o - 87
            elif 'A' <= ch <= 'Z': d_ = o - 55
            else: return None
            return d_ if d_ < base else None
        val = 0
        for ch in t:
            d_ = pd(ch)
            if d_ is None: break
            val = val * lim + d_; cnt += 1
        if cnt != len(t) or cnt == 0: return None       # the surface program below only makes sense for a pure digit string
        prefix = {2: '0b', 8: '0o', 16: '0x'}.get(base, f'{base}r')
        return {'program': prefix + t, 'expect': {'equals': f'OK {val}'}}
    for pc, kd, res, lg in E.explore(run):
        ob.paths += 1; name = f'lex_base{"_64" if base == 64 else ""}_and_emit base={base} k={k}'
        pref = [[z3.And(*[z3.And(c >= 48, c <= 49) for c in C])]] if C else []
        if kd == 'panic': ob.panic(name + ' panic-free', pc, res, replay=replay, cls='C15/radix/panic', prefer=pref); continue
        if kd != 'ok': ob.missing(name, f'{kd}: {res}'); continue
        toks, pos = res
        if len(toks.fields) != 1: ob.check(name, pc, z3.BoolVal(False), replay=replay, cls='C15/radix/value'); continue
        tok = toks.fields[0].fields[0]        # LocToken { token, start, end }
        val = tok.fields[0]
        # consumed exactly the maximal digit prefix and accumulated sum d_i * base^i
        goals = []; acc = z3.IntVal(0)
        for i, c in enumerate(C):
            if i < pos: goals.append(dig(c) < lim); acc = acc * lim + dig(c)
            elif i == pos: goals.append(z3.Not(dig(c) < lim))
        goals.append(val == acc); goals.append(z3.BoolVal(tok.variant == 'IntLit'))
        ob.check(name + f' consumed {pos}', pc, z3.And(*goals), replay=replay, cls='C15/radix/value', prefer=pref, sample='IntLit(sum of digit values) over the maximal digit prefix'); ob.witness('ok')
    ob.absorb_engine(E)

def shape_lexnum(item, ob):
    """the main Lexer::lex loop on one numeric literal: `<prefix>r<digits>`, `0x/0b/0o<digits>`, `<digits>`, `<digits>q`, with the digits symbolic:
    exactly one token, of the right kind, holding the value the text spells"""
    form, prefix, k = item
    E = eng(); f = lex_fn(E, 'lex')
    C = [z3.Int(f'c{i}') for i in range(k)]
    def digval(c): return z3.If(z3.And(c >= 48, c <= 57), c - 48, z3.If(z3.And(c >= 97, c <= 122), c - 87, c - 55))
    def alnum(c): return z3.Or(z3.And(c >= 48, c <= 57), z3.And(c >= 97, c <= 122), z3.And(c >= 65, c <= 90))
    if form == 'radix': base = int(prefix); head = [ord(ch) for ch in prefix] + [ord('r')]
    elif form == 'zero': base = {'x': 16, 'b': 2, 'o': 8}[prefix]; head = [ord('0'), ord(prefix)]
    else: base = 10; head = []
    tail = [ord('q')] if form == 'rat' else []
    pre = [z3.And(alnum(c), digval(c) < base) for c in C]
    text = [z3.IntVal(x) for x in head] + list(C) + [z3.IntVal(x) for x in tail]
    def run():
        E.assume(*pre)
        c = Cell(lexer(text)); E.run_fn(f, [Ref(c)])
        return c.v.fields[3]
    def replay(model):
        t = src_of([z3.simplify(x).as_long() if z3.is_int_value(z3.simplify(x)) else mval(model, x) for x in text])
        val = 0
        for x in C: val = val * base + mval(model, digval(x))
        if form == 'rat': return {'program': t + ' == ' + str(val), 'expect': {'equals': 'OK 1'}}
        return {'program': t, 'expect': {'equals': f'OK {val}'}}
    acc = z3.IntVal(0)
    for c in C: acc = acc * base + digval(c)
    for pc, kd, res, lg in E.explore(run):
        ob.paths += 1; name = f'Lexer::lex on {form} literal {prefix!r} + {k} digit(s)'
        pref = [[z3.And(*[z3.And(c >= 48, c <= 49) for c in C])]] if C else []
        if kd == 'panic': ob.panic(name + ' panic-free', pc, res, replay=replay, cls='C15/lex number/panic', prefer=pref); continue
        if kd != 'ok': ob.missing(name, f'{kd}: {res}'); continue
        toks = res.fields
        if len(toks) != 1: ob.check(name + ' is one token', pc, z3.BoolVal(False), replay=replay, cls='C15/lex number/value', prefer=pref); continue
        tok = toks[0].fields[0]
        if form == 'rat':
            v = tok.fields[0]; v = v.cell.v if isinstance(v, BoxV) else v
            goal = z3.And(z3.BoolVal(tok.variant == 'RatLit'), (v.v if isinstance(v, Rat) else z3.ToReal(v)) == z3.ToReal(acc)) if tok.variant == 'RatLit' else z3.BoolVal(False)
        else:
            goal = z3.And(z3.BoolVal(tok.variant == 'IntLit'), tok.fields[0] == acc) if tok.variant == 'IntLit' else z3.BoolVal(False)
        ob.check(name + ' = the number the text spells', pc, goal, replay=replay, cls='C15/lex number/value', prefer=pref, sample='one IntLit / RatLit token holding sum(digit * base^i)'); ob.witness(tok.variant)
    ob.absorb_engine(E)

def shape_lextotal(item, ob):
    """totality of the main Lexer::lex loop around a number: a numeric text followed by ONE arbitrary character (any Unicode scalar value),
    optionally followed by a suffix (the character is non-ASCII): lexing ends with tokens or an Invalid token, never with a panic"""
    head, tail = item
    E = eng(); f = lex_fn(E, 'lex'); c = z3.Int('c')
    text = [z3.IntVal(ord(ch)) for ch in head] + [c] + [z3.IntVal(ord(ch)) for ch in tail]
    def run():
        E.assume(z3.Or(z3.And(c >= 128, c < 0xD800), z3.And(c >= 0xE000, c <= 0x10FFFF)))          # non-ASCII: ASCII continuations (., e, f, i, j, r, q, digits) are the subject of the lexnum shapes / std float parsing
        cell = Cell(lexer(text)); E.run_fn(f, [Ref(cell)])
        return cell.v.fields[3]
    def replay(model):
        t = src_of([z3.simplify(x).as_long() if z3.is_int_value(z3.simplify(x)) else mval(model, x) for x in text])
        if any(ch in t for ch in '\n\r'): return None
        return {'program': t, 'expect': {'not_panic': 1}}
    # non-ASCII numerics, letters, then ASCII: the counterexample has to be a character the real predicates agree on
    pref = [[c == 0xB2], [c == 0x663], [c == 0xBD], [c == 0xE9]]
    for pc, kd, res, lg in E.explore(run):
        ob.paths += 1; name = f'Lexer::lex on {head!r} + any character + {tail!r}'
        if kd == 'panic': ob.panic(name + ' panic-free', pc, res, replay=replay, cls='C15/lex total/panic', prefer=pref); continue
        if kd != 'ok': ob.missing(name, f'{kd}: {res}'); continue
        ob.check(name + ' returns tokens', pc, z3.BoolVal(isinstance(res, Seq)), replay=replay, cls='C15/lex total/result', sample='a token list (possibly ending in Invalid), no unwinding'); ob.witness('tokens')
    ob.absorb_engine(E)

def shape_parser_int(item, ob):
    """parser units that turn an integer literal token into a machine value: try_consume_u8 (elements of B[...]) and try_consume_usize:
    Ok(Some(value)) with exactly the literal's value and the cursor advanced iff it is in range; an out-of-range literal is a parse error; another token is Ok(None)"""
    meth, tokkind = item
    E = eng()
    fs = [f for f in E.by_last.get(meth, []) if 'Parser' in (f.params[0][1] if f.params else '') and '{closure' not in f.name]
    if len(fs) != 1: raise Missing(f'Parser::{meth} not found uniquely ({len(fs)})')
    f = fs[0]; I = z3.Int('i')
    lo, hi = (0, 255) if meth == 'try_consume_u8' else (0, 2**64 - 1)
    def run():
        tok = Adt('Token', 'IntLit', [I]) if tokkind == 'int' else Adt('Token', 'Comma', [])
        c = Cell(Adt('Parser', None, [Seq([Adt('LocToken', None, [tok, loc(), loc()])]), z3.IntVal(0)]))
        r = E.run_fn(f, [Ref(c), Opaque('str:"msg"')]); return r, c.v.fields[1]
    def replay(model):
        i = mval(model, I)
        if tokkind != 'int' or meth != 'try_consume_u8' or i < 0: return None
        return {'program': f'B[{i}]', 'expect': {'equals': f'OK B[{i}]'} if i <= 255 else {'prefix': 'PARSEERR'}}
    for pc, kd, res, lg in E.explore(run):
        ob.paths += 1; name = f'Parser::{meth} on {tokkind} token'
        pref = [[z3.And(I >= 250, I <= 260)], [z3.And(I >= -(1 << 70), I <= (1 << 70))]]
        if kd == 'panic': ob.panic(name + ' panic-free', pc, res, replay=replay, cls=f'C15/parser {meth}/panic', prefer=pref); continue
        if kd != 'ok': ob.missing(name, f'{kd}: {res}'); continue
        r, pos = res
        if tokkind != 'int': goal = z3.And(z3.BoolVal(r.variant == 'Ok' and r.fields[0].variant == 'None'), pos == 0)
        elif r.variant == 'Ok':
            o = r.fields[0]
            goal = z3.And(I >= lo, I <= hi, o.fields[0].fields[1] == I, pos == 1) if o.variant == 'Some' else z3.BoolVal(False)
        else: goal = z3.And(z3.Or(I < lo, I > hi), pos == 0)
        ob.check(name + ' returns the literal\'s value or a parse error', pc, goal, replay=replay, cls=f'C15/parser {meth}/value', prefer=pref,
                 sample='Ok(Some(v)) iff lo <= literal <= hi and v == literal; otherwise a parse error'); ob.witness(r.variant)
    ob.absorb_engine(E)

def shape_parser_atom(item, ob):
    """Parser::atom on a literal token: the expression node holds exactly the token's value (an integer literal of any size keeps its value
    whether it becomes IntLit64 or IntLit; a rational literal keeps its value)"""
    kind, = item
    E = eng()
    fs = [f for f in E.by_last.get('atom', []) if 'Parser' in (f.params[0][1] if f.params else '') and '{closure' not in f.name]
    if len(fs) != 1: raise Missing(f'Parser::atom not found uniquely ({len(fs)})')
    f = fs[0]; I = z3.Int('i')
    def run():
        E.assume(I >= 0)          # the lexer produces non-negative literals
        tok = Adt('Token', 'IntLit', [I]) if kind == 'int' else Adt('Token', 'RatLit', [Rat(z3.ToReal(I))])
        c = Cell(Adt('Parser', None, [Seq([Adt('LocToken', None, [tok, loc(), loc()])]), z3.IntVal(0)]))
        return E.run_fn(f, [Ref(c)]), c.v.fields[1]
    def replay(model):
        i = mval(model, I)
        return {'program': str(i) if kind == 'int' else f'{i}q == {i}', 'expect': {'equals': f'OK {i}' if kind == 'int' else 'OK 1'}}
    for pc, kd, res, lg in E.explore(run):
        ob.paths += 1; name = f'Parser::atom on a {kind} literal'
        pref = [[z3.And(I >= (1 << 63) - 2, I <= (1 << 63) + 2)], [z3.And(I >= (1 << 62), I <= (1 << 66))]]
        if kd == 'panic': ob.panic(name + ' panic-free', pc, res, replay=replay, cls='C15/parser atom/panic', prefer=pref); continue
        if kd != 'ok': ob.missing(name, f'{kd}: {res}'); continue
        r, pos = res
        if r.variant != 'Ok': goal = z3.BoolVal(False)
        else:
            ex = r.fields[0].fields[2]
            if kind == 'int':
                if ex.variant == 'IntLit64': goal = z3.And(ex.fields[0] == I, in_i64(I), pos == 1)
                elif ex.variant == 'IntLit': goal = z3.And(ex.fields[0] == I, pos == 1)
                else: goal = z3.BoolVal(False)
            else:
                v = ex.fields[0] if ex.variant == 'RatLit' else None
                goal = z3.And((v.v if isinstance(v, Rat) else z3.ToReal(v)) == z3.ToReal(I), pos == 1) if v is not None else z3.BoolVal(False)
        ob.check(name + ' keeps the literal\'s value', pc, goal, replay=replay, cls='C15/parser atom/value', prefer=pref, sample='IntLit64(v) / IntLit(v) / RatLit(v) with v == the token value'); ob.witness(r.variant)
    ob.absorb_engine(E)

def run_shape(item, ob):
    fam, payload = item
    {'string': shape_string, 'radix': shape_radix, 'lexnum': shape_lexnum, 'lextotal': shape_lextotal, 'parser_int': shape_parser_int, 'parser_atom': shape_parser_atom}[fam](payload, ob)

def main(tier, seed, t0):
    global MIR
    MIR, th = load_mir('on')
    items = []
    for k in range(0, 4): items.append(('string', ('plain', k)))
    items.append(('string', ('single', 1)))
    for k in (0, 1, 2, 3): items.append(('string', ('x', k)))
    umax = 9 if tier == 'quick' else 10
    for br in ('', '{', '(', '[', '<'):
        for k in ((0, 1, 4, 6, 8, umax) if br == '' else (0, 2, 6, umax)): items.append(('string', ('u' + br, k)))
    items.append(('string', ('any', 2)))
    if tier != 'quick': items.append(('string', ('any', 3)))
    for base in (2, 8, 10, 16, 36, 64):
        for k in range(0, 4 if tier == 'quick' else 5): items.append(('radix', (base, k)))
    for prefix in ('2', '3', '8', '10', '16', '35', '36'):
        for k in (1, 2): items.append(('lexnum', ('radix', prefix, k)))
    for prefix in ('x', 'b', 'o'):
        for k in (1, 2): items.append(('lexnum', ('zero', prefix, k)))
    for k in (1, 2, 3):
        items.append(('lexnum', ('dec', '', k))); items.append(('lexnum', ('rat', '', k)))
    for head, tail in (('1', ''), ('12', ''), ('16r1', ''), ('0x1', '')):
        items.append(('lextotal', (head, tail)))
    for meth in ('try_consume_u8', 'try_consume_usize'):
        for tk in ('int', 'other'): items.append(('parser_int', (meth, tk)))
    for kind in ('int', 'rat'): items.append(('parser_atom', (kind,)))
    rnd = random.Random(seed); rnd.shuffle(items)
    merged, per = pmap(run_shape, items, tier)
    return finish(PROP, tier, seed, merged, t0, th=th,
        kernels=['lex.rs: Lexer::{next, peek, emit, lex_simple_string_after_start, lex_base_and_emit, lex_base_64_and_emit}', 'lex.rs: Lexer::lex (numeric-literal branch of the main loop)',
                 'core.rs: Parser::{try_consume_u8, try_consume_usize, peek_loc_token, error_here, advance}'],
        bounds={'string bodies': f'plain runs of 0..3 symbolic printable chars; each escape form with symbolic payload: \\\\c (any c), \\\\x + 0..3 chars, \\\\u with/without each bracket kind + 0..{umax} hex digits; 2 (quick) / 3 fully symbolic chars for panic-freedom',
                'radix literals': 'bases 2, 8, 10, 16, 36 and base-64 with 0..3 (quick) / 0..4 symbolic chars'},
        outside=['the Lexer::lex dispatch loop on text other than one numeric literal (identifiers, operators, comments) and the recursive-descent parser beyond the two integer-literal units', 'float literals (std parse::<f64>)', 'format-string bodies', 'literal Token -> Expr -> Obj evaluation'],
        assumptions=['Peekable<Chars> = cursor over the character sequence', 'char::to_digit / from_u32 per std documentation'])
