"""Shared harness for C01 (value semantics) and C02 (in-place mutation): one mutation step from an aliased pre-state.

The real MIR of set_index / modify_existing_index / modify_every_existing_index / Obj::try_pop / try_remove_index /
try_remove_slice (with pythonic_mut, pythonic_index, pythonic_slice_obj, NNum::to_isize ...) runs on a target value whose Rc
allocations are model objects with an explicit strong count; aliases hold extra strong references to the outer and/or
inner allocation.  The index path is symbolic over all integers (both representations) and over non-integer kinds.
  C01 obligations: on success the target equals the functional update at the Python-normalised index path; on failure the
                   target is unchanged; every alias is unchanged in all cases.
  C02 obligations: with no alias no payload is cloned and the Rc allocations are kept; with aliases at most one clone per
                   shared level, and repeating the same step clones nothing."""
import itertools, random
import z3
from lib.common import *
from props.numlib import *

MIR = None
def fn_models(E, callee, args, argtys, callee0):
    if re.fullmatch(r'<.* as Fn(Once|Mut)?<.*>>::call(_once|_mut)?', callee):
        f = args[0]; a = args[1]
        return E.call_closure(f, list(a.fields) if isinstance(a, Tup) else [a])
    if callee in ('String::as_bytes', 'std::string::String::as_bytes') or re.fullmatch(r'<(std::string::)?String as Deref>::deref', callee): return args[0]
    return NotImplemented
def eng(): return new_engine(MIR, [fn_models])

NEW = 99
def num(x, rep='Small'): return Adt('Obj', 'Num', [Adt('NNum', 'Int', [Adt('NInt', rep, [x if z3.is_expr(x) else z3.IntVal(x)])])])
def nnum(x): return Adt('NNum', 'Int', [Adt('NInt', 'Small', [z3.IntVal(x)])])
def lst(items): return Adt('Obj', 'Seq', [Adt('Seq', 'List', [RcV(RcObj(Seq(items)))])])
def vec(items): return Adt('Obj', 'Seq', [Adt('Seq', 'Vector', [RcV(RcObj(Seq(items)))])])
def byt(items): return Adt('Obj', 'Seq', [Adt('Seq', 'Bytes', [RcV(RcObj(Seq(items)))])])
def rc_of(o): return o.fields[0].fields[0]

def absval(o):
    """abstract (python) value of an Obj / NNum / byte"""
    if z3.is_expr(o):
        v = z3.simplify(o); return v.as_long() if z3.is_int_value(v) else str(v)
    if isinstance(o, Adt) and o.ty == 'Obj':
        if o.variant == 'Null': return None
        if o.variant == 'Num': return absval(o.fields[0])
        if o.variant == 'Seq':
            s = o.fields[0]; return (s.variant, tuple(absval(x) for x in s.fields[0].obj.cell.v.fields))
    if isinstance(o, Adt) and o.ty == 'NNum': return absval(o.fields[0].fields[0])
    return repr(o)

def build(shape):
    """-> (target Obj, dims) ; leaves numbered 0.."""
    if shape == 'list3': return lst([num(k) for k in range(3)]), (3,)
    if shape == 'list2x2': return lst([lst([num(0), num(1)]), lst([num(2), num(3)])]), (2, 2)
    if shape == 'vec3': return vec([nnum(k) for k in range(3)]), (3,)
    if shape == 'bytes3': return byt([z3.IntVal(k) for k in range(3)]), (3,)
    if shape == 'list_of_vec': return lst([vec([nnum(0), nnum(1)]), vec([nnum(2), nnum(3)])]), (2, 2)
    raise ValueError(shape)

SHAPES = ('list3', 'list2x2', 'vec3', 'bytes3', 'list_of_vec')
ALIASES = ('none', 'outer', 'inner', 'both')
OPS = ('set_index', 'modify_existing_index', 'try_pop', 'try_remove_index', 'set_every_slice')

def updated(orig, path, newv):
    """functional update of an abstract value at a concrete index path"""
    if not path: return newv
    kind, items = orig; k = path[0]
    return (kind, tuple(updated(x, path[1:], newv) if i == k else x for i, x in enumerate(items)))

def src_of(av):
    if av is None: return 'null'
    if isinstance(av, int): return str(av)
    kind, items = av
    inner = ', '.join(src_of(x) for x in items)
    return {'List': f'[{inner}]', 'Vector': f'V({inner})', 'Bytes': f'B[{",".join(src_of(x) for x in items)}]'}[kind]
def show_of(av):
    if av is None: return 'null'
    if isinstance(av, int): return str(av)
    kind, items = av
    inner = ', '.join(show_of(x) for x in items)
    return {'List': f'[{inner}]', 'Vector': f'V({inner})', 'Bytes': f'B[{",".join(show_of(x) for x in items)}]'}[kind]

def z_norm(i, n): return z3.And(i >= -n, i < n), z3.If(i >= 0, i, i + n)
ISZ = (-(1 << 63), (1 << 63) - 1)
def in_isz(v): return z3.And(v >= ISZ[0], v <= ISZ[1])

def run_shape(item, ob, mode):
    """mode: 'C01' or 'C02'"""
    op, shape, alias, reps = item
    if alias in ('inner', 'both') and len(build(shape)[1]) < 2: return
    E = eng()
    I, J = z3.Int('i'), z3.Int('j'); LO, HI = z3.Int('lo'), z3.Int('hi')
    target0, dims = build(shape); depth = len(dims)
    f = {'set_index': lambda: find_fn(E, 'set_index'), 'set_every_slice': lambda: find_fn(E, 'set_index'),
         'modify_existing_index': lambda: find_fn(E, 'modify_existing_index'),
         'try_pop': lambda: find_fn(E, 'try_pop'), 'try_remove_index': lambda: find_fn(E, 'try_remove_index')}[op]()
    if op in ('try_pop', 'try_remove_index', 'modify_existing_index') and shape not in ('list3', 'list2x2'): return    # only the list arms exist for these
    newv = num(NEW) if shape in ('list3', 'list2x2') else (num(NEW))
    def run():
        for v, r in zip((I, J), reps):
            if r == 'Small': E.assume(in_i64(v))
        E.assume(in_isz(LO), in_isz(HI))
        x, _ = build(shape)
        outer_alias = E.clone_value(x) if alias in ('outer', 'both') else None
        inner_alias = E.clone_value(rc_of(x).obj.cell.v.fields[0]) if alias in ('inner', 'both') else None
        before = absval(x)
        cell = Cell(x); E.log.clear()
        ids0 = (rc_of(x).obj.id,)
        def step():
            if op == 'set_index':
                path = [num(I, reps[0])] + ([num(J, reps[1])] if depth == 2 else [])
                idx = Cell(Seq([Adt('EvaluatedIndexOrSlice', 'Index', [p]) for p in path]))
                return E.run_fn(f, [Ref(cell), Ref(idx), opt(newv), z3.BoolVal(False)])
            if op == 'set_every_slice':
                idx = Cell(Seq([Adt('EvaluatedIndexOrSlice', 'Slice', [opt(num(LO)), opt(num(HI))])]))
                return E.run_fn(f, [Ref(cell), Ref(idx), opt(newv), z3.BoolVal(True)])
            if op == 'modify_existing_index':
                path = [num(I, reps[0])] + ([num(J, reps[1])] if depth == 2 else [])
                idx = Cell(Seq([Adt('EvaluatedIndexOrSlice', 'Index', [p]) for p in path]))
                def clo(eng_, args):
                    slot = args[0]; old = eng_.deref(slot); eng_.wr(slot, newv); return ok(old)
                return E.run_fn(f, [Ref(cell), Ref(idx), clo])
            if op == 'try_pop': return E.run_fn(f, [Ref(cell)])
            if op == 'try_remove_index': return E.run_fn(f, [Ref(cell), Ref(Cell(num(I, reps[0])))])
        r1 = step(); log1 = list(E.log); after1 = absval(cell.v); id1 = rc_of(cell.v).obj.id if isinstance(cell.v, Adt) and cell.v.variant == 'Seq' else None
        E.log.clear()
        r2 = step() if mode == 'C02' and op in ('set_index', 'modify_existing_index', 'set_every_slice') else None
        log2 = list(E.log)
        return dict(r=r1, before=before, after=after1, outer=absval(outer_alias) if outer_alias is not None else None, outer0=before,
                    inner=absval(inner_alias) if inner_alias is not None else None, log1=log1, log2=log2, id0=ids0[0], id1=id1, r2=r2)
    # ---------------- replay: the same step as a noulith program
    def replay(model):
        i, j = mval(model, I), mval(model, J); lo, hi = mval(model, LO), mval(model, HI)
        def L(v, rep): return fmt_big(v) if rep == 'Big' else fmt_int(v)
        base, _ = build(shape); bsrc = src_of(absval(base))
        pre = f'x := {bsrc}; y := x; ' + ('z := x[0]; ' if depth == 2 else '')
        path = f'[{L(i, reps[0])}]' + (f'[{L(j, reps[1])}]' if depth == 2 else '')
        if op == 'set_index': stmt = f'try x{path} = {NEW} catch _ -> null; '
        elif op == 'modify_existing_index': stmt = f'try x{path} .= (\\_ -> {NEW}) catch _ -> null; '
        elif op == 'set_every_slice': stmt = f'try every x[{fmt_int(lo)}:{fmt_int(hi)}] = {NEW} catch _ -> null; '
        elif op == 'try_pop': stmt = 'try pop x catch _ -> null; '
        else: stmt = f'try remove x[{L(i, reps[0])}] catch _ -> null; '
        b = absval(base)
        # python oracle of the target afterwards
        def norm(v, n): return v if 0 <= v < n else (v + n if -n <= v < 0 else None)
        def clampi(v, n): return min(v, n) if v >= 0 else max(n + v, 0)
        exp_x = b
        if op in ('set_index', 'modify_existing_index'):
            p0 = norm(i, dims[0]) if ISZ[0] <= i <= ISZ[1] else None
            p1 = (norm(j, dims[1]) if ISZ[0] <= j <= ISZ[1] else None) if depth == 2 else 0
            if p0 is not None and p1 is not None: exp_x = updated(b, [p0] + ([p1] if depth == 2 else []), NEW)
        elif op == 'set_every_slice':
            l = clampi(lo, dims[0]); h = max(l, clampi(hi, dims[0]))
            if shape in ('list3', 'list2x2', 'list_of_vec'): exp_x = (b[0], tuple(NEW if l <= k < h else v for k, v in enumerate(b[1])))
        elif op == 'try_pop': exp_x = (b[0], b[1][:-1]) if b[1] else b
        elif op == 'try_remove_index':
            p0 = norm(i, dims[0]) if ISZ[0] <= i <= ISZ[1] else None
            if p0 is not None: exp_x = (b[0], tuple(v for k, v in enumerate(b[1]) if k != p0))
        exp = f'OK [{show_of(exp_x)}, {show_of(b)}' + (f', {show_of(b[1][0])}' if depth == 2 else '') + ']'
        return {'program': pre + stmt + ('[x, y, z]' if depth == 2 else '[x, y]'), 'expect': {'equals': exp}}
    for pc, kind, res, lg in E.explore(run):
        ob.paths += 1; name = f'{op} {shape} alias={alias} reps={reps}'
        pref = [[z3.And(I >= -5, I <= 5, J >= -5, J <= 5, LO >= -5, LO <= 5, HI >= -5, HI <= 5)]]
        if kind == 'panic':
            ob.panic(name + ' panic-free', pc, res, replay=lambda m: dict(replay(m), expect={'not_panic': 1}), cls=f'{mode}/{op}/panic', prefer=pref); continue
        if kind != 'ok': ob.missing(name, f'{kind}: {res}'); continue
        d = res; r = d['r']; okr = r.variant == 'Ok'
        if mode == 'C01':
            # (c) aliases never change
            alias_ok = (d['outer'] is None or d['outer'] == d['before']) and (d['inner'] is None or d['inner'] == d['before'][1][0])
            ob.check(name + ' aliases unchanged', pc, z3.BoolVal(alias_ok), replay=replay, cls=f'C01/{op}/alias-changed', prefer=pref, sample='every alias keeps its value')
            b, a = d['before'], d['after']
            if op in ('set_index', 'modify_existing_index'):
                v0, p0 = z_norm(I, dims[0]); valid = z3.And(in_isz(I), v0)
                if depth == 2:
                    v1, p1 = z_norm(J, dims[1]); valid = z3.And(valid, in_isz(J), v1)
                if okr:
                    cands = [(k,) for k in range(dims[0])] if depth == 1 else [(k, l) for k in range(dims[0]) for l in range(dims[1])]
                    hit = [c for c in cands if updated(b, list(c), NEW) == a]
                    if len(hit) != 1: goal = z3.BoolVal(False)
                    else: goal = z3.And(valid, p0 == hit[0][0], *( [p1 == hit[0][1]] if depth == 2 else []))
                else: goal = z3.And(z3.Not(valid), z3.BoolVal(a == b))
            elif op == 'set_every_slice':
                from props.C10 import z_clamp
                n = dims[0]; l = z_clamp(LO, n); h = z_clamp(HI, n); h = z3.If(h > l, h, l)
                if okr and shape in ('list3', 'list2x2', 'list_of_vec'):
                    marks = [x == NEW for x in a[1]]
                    same_else = all(m or x == y for m, x, y in zip(marks, a[1], b[1]))
                    goal = z3.And(z3.BoolVal(same_else), *[(z3.And(l <= k, k < h)) == z3.BoolVal(m) for k, m in enumerate(marks)])
                elif okr: goal = z3.BoolVal(False)
                else: goal = z3.BoolVal(a == b and shape not in ('list3', 'list2x2', 'list_of_vec'))
            elif op == 'try_pop':
                goal = z3.BoolVal((okr and a == (b[0], b[1][:-1]) and absval(r.fields[0]) == b[1][-1]) if b[1] else (not okr and a == b))
            else:
                v0, p0 = z_norm(I, dims[0]); valid = z3.And(in_isz(I), v0)
                if okr:
                    hit = [k for k in range(dims[0]) if (b[0], tuple(v for q, v in enumerate(b[1]) if q != k)) == a and absval(r.fields[0]) == b[1][k]]
                    goal = z3.And(valid, p0 == hit[0]) if len(hit) == 1 else z3.BoolVal(False)
                else: goal = z3.And(z3.Not(valid), z3.BoolVal(a == b))
            ob.check(name + f' target ({r.variant})', pc, goal, replay=replay, cls=f'C01/{op}/target', prefer=pref, sample='target == functional update at the normalised index path, or unchanged on error')
            ob.witness(r.variant)
        else:
            # payload copies: Rc::make_mut on a shared allocation, or an explicit clone of a Vec (cloning the assigned value itself is not one)
            def is_copy(l): return l[0] in ('make_mut_clone', 'realloc') or (l[0] == 'deep_clone' and str(l[1]).startswith('Vec'))
            clones1 = [l for l in d['log1'] if is_copy(l)]
            clones2 = [l for l in d['log2'] if is_copy(l)]
            # path copying: copying a shared outer level makes the levels below it shared too, so an outer alias allows one clone
            # per level of the index path; an alias of an inner row only allows the one clone of that row
            shared_levels = {'none': 0, 'outer': depth, 'inner': 1, 'both': depth}[alias]
            goal1 = len(clones1) <= shared_levels
            if alias == 'none': goal1 = goal1 and (d['id1'] == d['id0'])
            has_realloc = any(l[0] == 'realloc' for l in clones1 + clones2)
            trep = (lambda m: timing_replay(op, shape, alias, realloc=has_realloc))
            ob.check(name + f' clones on first step <= {shared_levels}', pc, z3.BoolVal(goal1), replay=trep, cls=f'C02/{op}/extra-copy', sample=f'clone log {clones1}')
            if d['r2'] is not None:
                ob.check(name + ' no clone on the repeated step', pc, z3.BoolVal(len(clones2) == 0), replay=trep, cls=f'C02/{op}/copy-after-unshare', sample='after the one copy the collection is unshared and mutated in place')
            ob.witness('unique' if alias == 'none' else 'shared')
    ob.absorb_engine(E)

def items_for(tier, seed):
    rnd = random.Random(seed); items = []
    for op in OPS:
        for shape in SHAPES:
            for alias in ALIASES:
                depth = len(build(shape)[1])
                repc = list(itertools.product(('Small', 'Big'), repeat=depth))
                if tier == 'quick' and len(repc) > 2: repc = [repc[0], rnd.choice(repc[1:])]
                for reps in repc: items.append((op, shape, alias, reps + (('Small',) if depth == 1 else ())))
    rnd.shuffle(items); return items

def timing_replay(op, shape, alias, realloc=False):
    """scaling measurement that exhibits a hidden copy per mutation step (see lib.common.finish)"""
    if realloc and op in ('try_pop', 'try_remove_index'):
        # a buffer that is shrunk on pop: a stack built by appends to just above a power of two, then pop / append in turn, reallocates on every step
        rm = 'pop x' if op == 'try_pop' else 'remove x[0-1]'
        def osc(N, K): return f'x := []; for (i <- 0 til {N}) x append= i; for (i <- 0 til {K}) ({rm}; x append= 0); len(x)'
        # measured in bytes requested from the allocator: a large realloc can be an mremap, which wall time does not show
        return {'timing': {'small': osc(1025, 3000), 'base': osc(131073, 0), 'big': osc(131073, 3000), 'ratio': 5, 'metric': 'alloc'}, 'program': None}
    def prog(N, K):
        al = 'y := x; ' if alias != 'none' else ''
        if op == 'try_pop': return f'x := (0 til {N + K}) then list; {al}for (i <- 0 til {K}) pop x; len(x)'
        if op == 'try_remove_index': return f'x := (0 til {N + K}) then list; {al}for (i <- 0 til {K}) remove x[0-1]; len(x)'
        mk = {'list3': f'x := (0 til {N}) then list; ', 'list2x2': f'x := (0 til {N}) map (\\i -> [i, i]); ', 'vec3': f'x := vector(0 til {N}); ',
              'bytes3': f'x := bytes((0 til {N}) map (\\i -> i % 256)); ', 'list_of_vec': f'x := (0 til {N}) map (\\i -> V(i, i)); '}[shape]
        path = f'[i % {N}]' + ('[0]' if shape in ('list2x2', 'list_of_vec') else '')
        if op == 'set_index': body = f'x{path} = 7'
        elif op == 'modify_existing_index': body = f'x{path} += 1'
        else: body = 'every x[0:1] = 7'
        return mk + al + f'for (i <- 0 til {K}) {body}; len(x)'
    K = 6000
    # measured in bytes requested from the allocator (deterministic; wall time is load-sensitive and blind to mremap-style reallocation)
    return {'timing': {'small': prog(10, K), 'base': prog(30000, 0), 'big': prog(30000, K), 'ratio': 5, 'metric': 'alloc'}, 'program': None}

def native_cow_probe(ob_data):
    """C02 is about allocation behaviour, which nlrun cannot observe from the surface; counterexamples of C02 are structural
    (clone log of the Rc model) and are reported with the step that cloned."""
    return None
