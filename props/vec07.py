"""C07 — vectorisation wrappers keep operand order: expect_nums_and_vectorize_2 / _2_nums (the wrappers every two-number builtin
goes through) applied to scalar x scalar, scalar x vector, vector x scalar and vector x vector arguments with the per-element
body replaced by a recorder (an uninterpreted, non-commutative function of its two operands): the result is body(a, b) /
[body(a, b_i)] / [body(a_i, b)] / [body(a_i, b_i)] in element order; different lengths are an error."""
import z3
from lib.common import *

MIR = None
VF = z3.Function('vec_body', z3.IntSort(), z3.IntSort(), z3.IntSort())
def nn(v): return Adt('NNum', 'Int', [Adt('NInt', 'Small', [v])])
def onum(v): return Adt('Obj', 'Num', [nn(v)])
def ovec(vs): return Adt('Obj', 'Seq', [Adt('Seq', 'Vector', [RcV(RcObj(Seq([nn(v) for v in vs])))])])
def ival(n):
    """integer term of an NNum / Obj::Num"""
    if isinstance(n, Adt) and n.ty == 'Obj': n = n.fields[0]
    return n.fields[0].fields[0]
SHAPES = [('s', 's'), ('s', 'v2'), ('v2', 's'), ('v2', 'v2'), ('v1', 'v2'), ('s', 'v0')]
def items_for(tier, seed):
    return [('vectorize', (fn, sa, sb)) for fn in ('expect_nums_and_vectorize_2', 'expect_nums_and_vectorize_2_nums') for sa, sb in SHAPES]

def run_shape(item, ob):
    fn, sa, sb = item[1]
    from props.C07 import complex_models
    E = new_engine(MIR, [complex_models]); f = find_fn(E, fn)
    returns_obj = 'NRes<Obj>' in f.params[0][1] or 'Result<core::Obj' in f.params[0][1] or 'Obj' in f.params[0][1]
    def body(E_, args):
        x, y = ival(args[0]), ival(args[1]); r = VF(x, y)
        return ok(onum(r)) if returns_obj else nn(r)
    E.stubs['vec_body'] = body
    A = [z3.Int(f'a{i}') for i in range(2)]; B = [z3.Int(f'b{i}') for i in range(2)]
    def mk(shape, vs): return onum(vs[0]) if shape == 's' else ovec(vs[:int(shape[1:])])
    def run():
        E.assume(*[in_i64(v) for v in A + B])
        return E.run_fn(f, [Closure('vec_body', []), mk(sa, A), mk(sb, B), Opaque('str:"op"')])
    na = 1 if sa == 's' else int(sa[1:]); nb = 1 if sb == 's' else int(sb[1:])
    def lit(shape, vals): return fmt_int(vals[0]) if shape == 's' else 'V(' + ', '.join(fmt_int(v) for v in vals[:int(shape[1:])]) + ')'
    def replay(model):
        a = [mval(model, v) for v in A]; b = [mval(model, v) for v in B]
        if sa != 's' and sb != 's' and na != nb: return {'program': f'try ({lit(sa, a)} // {lit(sb, b)}) catch e -> "err"', 'expect': {'equals': 'OK "err"'}}
        if 0 in (b[:nb] if sb != 's' else b[:1]): return None
        if sa == 's' and sb == 's': want = str(a[0] // b[0])
        else:
            n = max(na, nb) if 's' in (sa, sb) else na
            want = 'V(' + ', '.join(str((a[0] if sa == 's' else a[i]) // (b[0] if sb == 's' else b[i])) for i in range(n)) + ')'
            if n == 0: want = 'V()'
        return {'program': f'{lit(sa, a)} // {lit(sb, b)}', 'expect': {'equals': 'OK ' + want}}
    for pc, kd, res, lg in E.explore(run):
        ob.paths += 1; name = f'{fn} on {sa} x {sb}'; pref = [[z3.And(*[z3.And(v >= 1, v <= 30) for v in A + B], A[0] != B[0], A[0] != A[1], B[0] != B[1])]]
        if kd == 'panic': ob.panic(name + ' panic-free', pc, res, replay=replay, cls='C07/vectorize/panic', prefer=pref); continue
        if kd != 'ok': ob.missing(name, f'{kd}: {res}'); continue
        if sa != 's' and sb != 's' and na != nb: goal = z3.BoolVal(res.variant == 'Err')
        elif res.variant != 'Ok': goal = z3.BoolVal(False)
        else:
            v = res.fields[0]
            if sa == 's' and sb == 's': goal = ival(v) == VF(A[0], B[0]) if v.variant == 'Num' else z3.BoolVal(False)
            elif not (v.variant == 'Seq' and v.fields[0].variant == 'Vector'): goal = z3.BoolVal(False)
            else:
                items = v.fields[0].fields[0].obj.cell.v.fields; n = nb if sa == 's' else na
                goal = z3.And(z3.BoolVal(len(items) == n), *[ival(items[i]) == VF(A[0] if sa == 's' else A[i], B[0] if sb == 's' else B[i]) for i in range(min(n, len(items)))])
        ob.check(name + ' applies the body to (left, right) element-wise in order', pc, goal, replay=replay, cls='C07/vectorize/order', prefer=pref,
                 sample='scalar op vector = [scalar op v_i]; vector op scalar = [v_i op scalar]; vector op vector pairs by position'); ob.witness(res.variant)
    ob.absorb_engine(E)
