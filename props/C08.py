"""C08 — numeric equality and ordering are exact and coherent across types.

Symbolic execution of the real MIR of NNum::{eq, partial_cmp, total_cmp_small_nan, total_cmp_big_nan, total_eq, min, max,
min_consuming, max_consuming} (through project_to_reals, NNumReal::{eq, partial_cmp, total_cmp_*}, cmp_nint_f64, to_nint_if_int,
exact_to_rational, NInt::{eq, cmp}), of lib::ncmp and of Obj/Seq PartialEq/PartialOrd on short sequences, for every pair of
numbers of every level/representation.  Oracle: the exact value in the extended reals (floats are exact reals, +-0 equal,
NaN unordered).  Because every pairwise answer is compared with the mathematical order, trichotomy, symmetry, transitivity
and compatibility of < with == follow for all values (they are properties of the order on the reals)."""
import itertools, random
import z3
from lib.common import *
from props.numlib import *

PROP = 'C08'
MIR = None
def eng(): return new_engine(MIR)

def nnum_fn(E, last, ptys):
    fs = [f for f in E.by_last.get(last, []) if f.name.startswith('nnum::<impl') and '{closure' not in f.name and [t.strip() for _, t in f.params] == ptys]
    if len(fs) != 1: raise Missing(f'NNum::{last}{ptys} not found uniquely ({len(fs)})')
    return fs[0]

def py_cmp_desc(x, y):
    """python oracle on concrete values (ints, Fractions, floats) -> 'Less'/'Equal'/'Greater'/None"""
    import math
    def nan(v): return isinstance(v, float) and math.isnan(v)
    if nan(x) or nan(y): return None
    def key(v):
        if isinstance(v, float) and math.isinf(v): return (1 if v > 0 else -1, 0)
        return (0, Fraction(v))
    a, b = key(x), key(y)
    return 'Less' if a < b else 'Equal' if a == b else 'Greater'

REAL_PAIRS = [(a, b) for a in LEVELS for b in LEVELS]

def shape_pair(item, ob):
    kernel, la, lb = item
    E = eng()
    X, Y = SymNum(la, 'a'), SymNum(lb, 'b')
    cplx = 'Complex' in (la, lb)
    kx, rx, ky, ry = X.kind(), X.real(), Y.kind(), Y.real()
    nan_x, nan_y = kx == 0, ky == 0
    if cplx:
        nan_x = z3.Or(X.k == 0, X.k2 == 0) if la == 'Complex' else nan_x
        nan_y = z3.Or(Y.k == 0, Y.k2 == 0) if lb == 'Complex' else nan_y
    lt, eq = ext_lt(kx, rx, ky, ry), ext_eq(kx, rx, ky, ry)
    anynan = z3.Or(nan_x, nan_y)
    if kernel in ('eq', 'partial_cmp', 'total_eq', 'min', 'max', 'total_cmp_small_nan', 'total_cmp_big_nan'): ptys = ['&NNum', '&NNum']
    else: ptys = ['NNum', 'NNum']
    f = nnum_fn(E, kernel, ptys)
    def run():
        E.assume(*X.pre, *Y.pre)
        xa, ya = X.obj(), Y.obj()
        args = [Ref(Cell(xa)), Ref(Cell(ya))] if ptys[0].startswith('&') else [xa, ya]
        r = E.run_fn(f, args)
        return r, xa, ya, args
    def replay(model):
        cx, cy = X.concrete(model), Y.concrete(model)
        if cx is None or cy is None: return None
        if kernel in ('eq', 'partial_cmp', 'total_eq'):
            d = py_cmp_desc(cx[2], cy[2]) if not cplx else None
            if cplx:
                import cmath
                ex = complex(cx[2]) == complex(cy[2])
                return {'program': f'@nnumrel {cx[0]} {cy[0]}', 'expect': {'prefix': f'K eq={"true" if ex else "false"} '}}
            pc_ = f'Some({d})' if d else 'None'
            import math
            bothnan = all(isinstance(v[2], float) and math.isnan(v[2]) for v in (cx, cy))
            return {'program': f'@nnumrel {cx[0]} {cy[0]}', 'expect': {'prefix': f'K eq={"true" if d == "Equal" else "false"} pcmp={pc_} total_eq={"true" if (d == "Equal" or bothnan) else "false"}'}}
        if kernel in ('min', 'max', 'min_consuming', 'max_consuming'):
            import math
            d = py_cmp_desc(cx[2], cy[2]); xn = isinstance(cx[2], float) and math.isnan(cx[2]); yn = isinstance(cy[2], float) and math.isnan(cy[2])
            if kernel.startswith('min'): pick = cy if (yn is False and xn) or d == 'Greater' else cx
            else: pick = cx if (yn and not xn) or d == 'Greater' else cy
            if xn and yn: return {'program': f'@nnum {kernel} rr {cx[0]} {cy[0]}', 'expect': {'not_panic': 1}}
            shown = {'S': 'I:Small(%s)', 'B': 'I:Big(%s)'}
            sp = pick[0]; exp = ('K ' + shown[sp[0]] % sp[1:]) if sp[0] in 'SB' else ('K Q:' + sp[1:] if sp[0] == 'Q' else 'K F:' + sp[1:])
            return {'program': f'@nnum {kernel} rr {cx[0]} {cy[0]}', 'expect': exp}
        return {'program': f'@nnumrel {cx[0]} {cy[0]}', 'expect': {'not_panic': 1}}      # total_cmp_*: private; replay shows the public relations
    for pc, kind, res, lg in E.explore(run):
        ob.paths += 1; name = f'NNum::{kernel} {la}x{lb}'
        pref = prefer_all(X, Y)
        if kind == 'panic': ob.panic(name + ' panic-free', pc, res, replay=replay, cls=f'C08/NNum::{kernel}/panic', prefer=pref); continue
        if kind != 'ok': ob.missing(name, f'{kind}: {res}'); continue
        r, xa, ya, args = res
        if cplx:
            # complex numbers: outside the order laws; == must be componentwise equality of the exact values, nothing may panic
            if kernel in ('eq',):
                def comp(S): return ((S.k, S.v), (S.k2, S.v2)) if S.level == 'Complex' else ((S.kind(), S.real()), (z3.IntVal(3), z3.RealVal(0)))
                (a1, a2), (b1, b2) = comp(X), comp(Y)
                goal = r == z3.And(z3.Not(anynan), ext_eq(a1[0], a1[1], b1[0], b1[1]), ext_eq(a2[0], a2[1], b2[0], b2[1]))
                ob.check(name, pc, goal, replay=replay, cls=f'C08/NNum::{kernel}/complex', prefer=pref, sample='complex == is componentwise exact equality')
            else: ob.check(name + ' (no panic only)', pc, z3.BoolVal(True)); ob.witness('complex-path')
            continue
        if kernel == 'eq': goal = r == z3.And(z3.Not(anynan), eq)
        elif kernel == 'total_eq': goal = r == z3.Or(z3.And(z3.Not(anynan), eq), z3.And(nan_x, nan_y))
        elif kernel == 'partial_cmp':
            if r.variant == 'None': goal = anynan
            else: goal = z3.And(z3.Not(anynan), {'Less': lt, 'Equal': eq, 'Greater': z3.And(z3.Not(lt), z3.Not(eq))}[r.fields[0].variant])
        elif kernel in ('total_cmp_small_nan', 'total_cmp_big_nan'):
            small = kernel.endswith('small_nan')
            o = r.variant
            # NaN below (small) / above (big) everything, NaN == NaN
            less = z3.If(anynan, (z3.And(nan_x, z3.Not(nan_y)) if small else z3.And(nan_y, z3.Not(nan_x))), lt)
            equal = z3.If(anynan, z3.And(nan_x, nan_y), eq)
            goal = {'Less': less, 'Equal': equal, 'Greater': z3.And(z3.Not(less), z3.Not(equal))}[o]
        else:
            # min/max: returns one of its arguments (identity through the Ref / the moved value)
            rr = E.deref(r) if isinstance(r, Ref) else r
            is_x = rr is xa or (isinstance(r, Ref) and r.cell is args[0].cell if isinstance(args[0], Ref) else False)
            is_y = rr is ya or (isinstance(r, Ref) and r.cell is args[1].cell if isinstance(args[1], Ref) else False)
            if not (is_x or is_y): goal = z3.BoolVal(False)
            else:
                gt = z3.And(z3.Not(lt), z3.Not(eq))
                if kernel.startswith('min'): want_y = z3.If(anynan, z3.And(nan_x, z3.Not(nan_y)), gt)      # NaN is "big": min avoids it
                else: want_y = z3.Not(z3.If(anynan, z3.And(nan_y, z3.Not(nan_x)), gt))                    # NaN is "small": max avoids it; ties -> right
                goal = want_y if (is_y and not is_x) else z3.Not(want_y)
        ob.check(name + f' -> {getattr(r, "variant", "")}', pc, goal, replay=replay, cls=f'C08/NNum::{kernel}/value', prefer=pref,
                 sample=f'{kernel} agrees with the exact order on the extended reals'); ob.witness('value-path')
    ob.absorb_engine(E)

# ------------------------------------------------------------------------------------------------ Obj level: ncmp, sequences
def obj_num(n): return Adt('Obj', 'Num', [n])
def obj_list(items): return Adt('Obj', 'Seq', [Adt('Seq', 'List', [RcV(RcObj(Seq(items)))])])
def obj_vector(items): return Adt('Obj', 'Seq', [Adt('Seq', 'Vector', [RcV(RcObj(Seq(items)))])])

def lit(c):
    """noulith literal for a concrete (spec, literal, value) triple; floats via division of integers by a power of two"""
    spec, l, v = c
    if l is not None: return l
    import math
    if isinstance(v, float):
        if math.isnan(v): return '(0.0/0.0)'
        if math.isinf(v): return '(1.0/0.0)' if v > 0 else '((0-1.0)/0.0)'
        if v == 0 and math.copysign(1, v) < 0: return '(0.0*(0-1.0))'
        q = Fraction(v); return f'({q.numerator}.0/{q.denominator}.0)' if q >= 0 else f'((0-{-q.numerator}.0)/{q.denominator}.0)'
    return None

def shape_ncmp(item, ob):
    """ncmp on numbers and on lists of length (1..2)x(1..2): lexicographic by the element order, shorter prefix first, error if incomparable"""
    shape, levels = item
    E = eng()
    f = find_fn(E, 'ncmp', pred=lambda g: len(g.params) == 2)
    n1, n2 = shape
    xs = [SymNum(l, f'a{i}') for i, l in enumerate(levels[:n1 or 1])]; ys = [SymNum(l, f'b{i}') for i, l in enumerate(levels[n1 or 1:])]
    allnums = xs + ys
    def run():
        for s in allnums: E.assume(*s.pre)
        if n1 == 0: a, b = obj_num(xs[0].obj()), obj_num(ys[0].obj())
        else: a, b = obj_list([obj_num(s.obj()) for s in xs]), obj_list([obj_num(s.obj()) for s in ys])
        return E.run_fn(f, [Ref(Cell(a)), Ref(Cell(b))])
    # oracle: lexicographic
    def oracle():
        """-> list of (cond, outcome) with outcome in Less/Equal/Greater/Err"""
        cases = []; prefix = []
        for i in range(min(len(xs), len(ys))):
            X, Y = xs[i], ys[i]
            an = z3.Or(X.kind() == 0, Y.kind() == 0)
            lt, eq = ext_lt(X.kind(), X.real(), Y.kind(), Y.real()), ext_eq(X.kind(), X.real(), Y.kind(), Y.real())
            cases.append((z3.And(*prefix, an), 'Err')); cases.append((z3.And(*prefix, z3.Not(an), lt), 'Less'))
            cases.append((z3.And(*prefix, z3.Not(an), z3.Not(lt), z3.Not(eq)), 'Greater'))
            prefix.append(z3.And(z3.Not(an), eq))
        tail = 'Equal' if len(xs) == len(ys) else ('Less' if len(xs) < len(ys) else 'Greater')
        cases.append((z3.And(*prefix), tail))
        return cases
    cases = oracle()
    def replay(model):
        cs = [s.concrete(model) for s in allnums]
        if any(c is None for c in cs): return None
        ls = [lit(c) for c in cs]
        if any(l is None for l in ls): return None
        if n1 == 0: prog = f'{ls[0]} <=> {ls[1]}'; vx, vy = [cs[0][2]], [cs[1][2]]
        else:
            prog = '[' + ', '.join(ls[:len(xs)]) + '] <=> [' + ', '.join(ls[len(xs):]) + ']'; vx, vy = [c[2] for c in cs[:len(xs)]], [c[2] for c in cs[len(xs):]]
        exp = None
        for p, q in zip(vx, vy):
            d = py_cmp_desc(p, q)
            if d is None: exp = 'ERR'; break
            if d != 'Equal': exp = {'Less': 'OK -1', 'Greater': 'OK 1'}[d]; break
        if exp is None: exp = 'OK 0' if len(vx) == len(vy) else ('OK -1' if len(vx) < len(vy) else 'OK 1')
        return {'program': prog, 'expect': {'prefix': exp}}
    for pc, kind, res, lg in E.explore(run):
        ob.paths += 1; name = f'ncmp {shape} {levels}'
        pref = prefer_all(*allnums)
        if kind == 'panic': ob.panic(name + ' panic-free', pc, res, replay=replay, cls='C08/ncmp/panic', prefer=pref); continue
        if kind != 'ok': ob.missing(name, f'{kind}: {res}'); continue
        out = 'Err' if res.variant == 'Err' else res.fields[0].variant
        goal = z3.Or(*[c for c, o in cases if o == out]) if any(o == out for c, o in cases) else z3.BoolVal(False)
        ob.check(name + f' -> {out}', pc, goal, replay=replay, cls='C08/ncmp/value', prefer=pref, sample='lexicographic order over exact element order; error iff incomparable before a decision')
        ob.witness(out)
    ob.absorb_engine(E)

def shape_selfeq(item, ob):
    """`==` on a list compared with itself (both operands hold the SAME allocation, as in `x == x` or `y := x; x == y`): still the
    element-wise numeric equality (a NaN element makes it false), not a property of the storage"""
    levels = item
    E = eng(); xs = [SymNum(l, f'a{i}') for i, l in enumerate(levels)]
    def run():
        for s_ in xs: E.assume(*s_.pre)
        rc = RcObj(Seq([obj_num(s_.obj()) for s_ in xs])); rc.count = 2
        a = Adt('Seq', 'List', [RcV(rc)]); b = Adt('Seq', 'List', [RcV(rc)])
        return E.call(None, None, '<core::Seq as PartialEq>::eq', [Ref(Cell(a)), Ref(Cell(b))], ['&core::Seq', '&core::Seq'])
    want = z3.And(*[s_.kind() != 0 for s_ in xs])          # x == x element-wise: true unless an element is NaN
    def replay(model):
        cs = [s_.concrete(model) for s_ in xs]
        if any(c is None for c in cs): return None
        ls = [lit(c) for c in cs]
        if any(l is None for l in ls): return None
        nan = any(isinstance(c[2], float) and c[2] != c[2] for c in cs)
        return {'program': 'x := [' + ', '.join(ls) + ']; y := x; [x == x, x == y, [x] == [y]]', 'expect': {'equals': 'OK [0, 0, 0]' if nan else 'OK [1, 1, 1]'}}
    for pc, kind, res, lg in E.explore(run):
        ob.paths += 1; name = f'Seq == on the same allocation {levels}'; pref = prefer_all(*xs)
        if kind == 'panic': ob.panic(name + ' panic-free', pc, res, replay=replay, cls='C08/self-eq/panic', prefer=pref); continue
        if kind != 'ok': ob.missing(name, f'{kind}: {res}'); continue
        ob.check(name + ' = element-wise equality', pc, res == want if z3.is_expr(res) else z3.BoolVal(False), replay=replay, cls='C08/self-eq/value', prefer=pref, sample='true iff no element is NaN'); ob.witness('eq')
    ob.absorb_engine(E)

def shape_incomparable(item, ob):
    """ncmp between different kinds (number vs list, list vs null, ...) must be an error, never an arbitrary answer"""
    ka, kb = item
    E = eng(); f = find_fn(E, 'ncmp', pred=lambda g: len(g.params) == 2)
    X = SymNum('IntSmall', 'a')
    def mk(k):
        if k == 'null': return Adt('Obj', 'Null', [])
        if k == 'num': return obj_num(X.obj())
        if k == 'list': return obj_list([obj_num(X.obj())])
        if k == 'vector': return obj_vector([X.obj()])
    def run():
        E.assume(*X.pre); return E.run_fn(f, [Ref(Cell(mk(ka))), Ref(Cell(mk(kb)))])
    srcs = {'null': 'null', 'num': '1', 'list': '[1]', 'vector': 'V(1)'}
    for pc, kind, res, lg in E.explore(run):
        ob.paths += 1; name = f'ncmp {ka} vs {kb}'
        replay = lambda model: {'program': f'{srcs[ka]} < {srcs[kb]}', 'expect': {'prefix': 'ERR'}}
        if kind == 'panic': ob.panic(name, pc, res, replay=replay, cls='C08/ncmp/panic'); continue
        if kind != 'ok': ob.missing(name, f'{kind}: {res}'); continue
        ob.check(name, pc, z3.BoolVal(res.variant == 'Err'), replay=replay, cls='C08/ncmp/incomparable', sample='different kinds are incomparable: error'); ob.witness('Err')
    ob.absorb_engine(E)

def run_shape(item, ob):
    fam, payload = item
    {'pair': shape_pair, 'ncmp': shape_ncmp, 'incomp': shape_incomparable, 'selfeq': shape_selfeq}[fam](payload, ob)

def main(tier, seed, t0):
    global MIR
    MIR, th = load_mir('on')
    items = []
    # total_cmp_small_nan / total_cmp_big_nan are private: they are executed (and decided) through their only users min/max/*_consuming
    for kernel in ('eq', 'partial_cmp', 'total_eq', 'min', 'max', 'min_consuming', 'max_consuming'):
        for la, lb in REAL_PAIRS: items.append(('pair', (kernel, la, lb)))
    for kernel in ('eq', 'partial_cmp'):
        for l in LEVELS_C:
            items.append(('pair', (kernel, 'Complex', l)))
            if l != 'Complex': items.append(('pair', (kernel, l, 'Complex')))
    for la, lb in REAL_PAIRS: items.append(('ncmp', ((0, 0), (la, lb))))
    for lv in (('Float',), ('IntSmall',), ('Float', 'IntBig'), ('Rational', 'Float')): items.append(('selfeq', lv))
    rnd = random.Random(seed)
    lv3 = ('IntSmall', 'IntBig', 'Rational', 'Float')
    shapes = [(1, 1), (1, 2), (2, 1), (2, 2)] if tier == 'quick' else [(1, 1), (1, 2), (2, 1), (2, 2), (2, 3), (3, 2)]
    for (n1, n2) in shapes:
        combos = list(itertools.product(lv3, repeat=n1 + n2))
        if tier == 'quick' and len(combos) > 24: combos = rnd.sample(combos, 24)
        elif len(combos) > 160: combos = rnd.sample(combos, 160)
        for c in combos: items.append(('ncmp', ((n1, n2), c)))
    for ka, kb in (('null', 'num'), ('num', 'list'), ('list', 'num'), ('list', 'vector'), ('null', 'null'), ('vector', 'num')):
        if (ka, kb) != ('null', 'null'): items.append(('incomp', (ka, kb)))
    rnd.shuffle(items)
    merged, per = pmap(run_shape, items, tier)
    return finish(PROP, tier, seed, merged, t0, th=th,
        kernels=['nnum.rs: NNum::{eq, partial_cmp, total_eq, total_cmp_small_nan, total_cmp_big_nan, min, max, min_consuming, max_consuming}, project_to_reals, NNumReal::{eq, partial_cmp, total_cmp_*, exact_to_rational}, cmp_nint_f64, to_nint_if_int',
                 'nint.rs: NInt::{eq, cmp, partial_cmp}', 'lib.rs: ncmp', 'core.rs: PartialOrd for Obj / Seq (lexicographic lists)'],
        bounds={'numbers': 'all integers (both representations), all rationals, all abstract doubles (NaN, +-inf, every finite real incl. +-0); complex for ==',
                'pairs': 'every ordered pair of levels', 'sequences': 'lists of length <= 2 (quick) / <= 3 (thorough) per side, element levels sampled by VERIF_SEED when the product is large'},
        outside=['complex numbers under < (ordered as (re, im) pairs by the implementation; only == and absence of panics are asserted)',
                 "std's sort_by given a consistent comparator (trusted)", 'strings/bytes comparison (std byte-wise order)'],
        assumptions=['a finite double is SOME real (sound over-approximation: trunc/floor/==/</to_bigint/from_float are exact on doubles)', 'num-bigint / num-rational implement Z / Q',
                     'transitivity etc. are inherited from the order on the extended reals because every pairwise answer is proved equal to it'])
