"""C06 — integer arithmetic is exact at every magnitude and representation.

Symbolic execution (mirsym) of the real MIR of src/nint.rs, the integer arms of src/nnum.rs and the builtin closures of
src/lib.rs, operands a, b ranging over ALL of Z in every Small/Big representation combination (a Small operand is in the
i64 range, a Big operand is unconstrained, so small values in big representation are included).  Oracle: the mathematical
operation on Z (SMT Int).  Counterexamples are replayed natively through nlrun (kernel mode or a noulith program)."""
import re, time, os, random
import z3
from lib.common import *
from mirsym.models import UF_AND, UF_OR, UF_XOR, UF_SHL, UF_SHR, UF_POW, UF_GCD, UF_LCM, UF_SQRT, zbit

PROP = 'C06'
REPS = ('Small', 'Big')

def nint(rep, v): return Adt('NInt', rep, [v])
def nnum_int(rep, v): return Adt('NNum', 'Int', [nint(rep, v)])
def pre_of(rep, v): return [in_i64(v)] if rep == 'Small' else []
def spec(rep, n): return ('S' if rep == 'Small' else 'B') + str(n)
def arg_for(ty, val): return Ref(Cell(val)) if ty.strip().startswith('&') else val
def variant_of(f): return ''.join('r' if t.strip().startswith('&') else 'v' for _, t in f.params)

def nint_val(res):
    if not (isinstance(res, Adt) and res.ty == 'NInt'): raise Missing(f'expected NInt result, got {res!r}')
    return res.variant, res.fields[0]

def py_tdiv(a, b):
    q = abs(a) // abs(b); return q if (a >= 0) == (b >= 0) else -q
ORACLE_PY = {
    'add': lambda a, b: a + b, 'sub': lambda a, b: a - b, 'mul': lambda a, b: a * b,
    'div': lambda a, b: py_tdiv(a, b), 'rem': lambda a, b: a - b * py_tdiv(a, b),
    'bitand': lambda a, b: a & b, 'bitor': lambda a, b: a | b, 'bitxor': lambda a, b: a ^ b,
    'div_floor': lambda a, b: a // b, 'mod_floor': lambda a, b: a - b * (a // b),
}
def oracle_z3(op, a, b):
    return {'add': lambda: a + b, 'sub': lambda: a - b, 'mul': lambda: a * b, 'div': lambda: tdiv(a, b), 'rem': lambda: trem(a, b),
            'bitand': lambda: zbit('BitAnd', a, b), 'bitor': lambda: zbit('BitOr', a, b), 'bitxor': lambda: zbit('BitXor', a, b),
            'div_floor': lambda: fdiv(a, b), 'mod_floor': lambda: fmod(a, b), 'gcd': lambda: UF_GCD(a, b), 'lcm': lambda: UF_LCM(a, b)}[op]()

def parse_kint(out):
    m = re.fullmatch(r'K I:(Small|Big)\((-?\d+)\)', out.strip())
    return (m.group(1), int(m.group(2))) if m else None

MIR = None
def eng():
    return new_engine(MIR)

A, B = z3.Int('a'), z3.Int('b')
def small(*vs, bound=1 << 70): return [[z3.And(*[z3.And(v >= -40, v <= 40) for v in vs])], [z3.And(*[z3.And(v >= -bound, v <= bound) for v in vs])]]

# ------------------------------------------------------------------------------------------------ family A: NInt binary operators
BIN_OPS = ['add', 'sub', 'mul', 'div', 'rem', 'bitand', 'bitor', 'bitxor']
def nint_binop_fns(E, op):
    fs = [f for f in E.by_last.get(op, []) if f.name.startswith('nint::<impl') and len(f.params) == 2 and all(t.strip().lstrip('&') == 'NInt' for _, t in f.params)]
    return sorted(fs, key=variant_of)

def shape_binop(item, ob):
    op, variant = item
    E = eng()
    fs = [f for f in nint_binop_fns(E, op) if variant_of(f) == variant]
    if len(fs) != 1: raise Missing(f'NInt::{op} ({variant}) not found uniquely')
    f = fs[0]
    for ra in REPS:
        for rb in REPS:
            def run():
                E.assume(*pre_of(ra, A), *pre_of(rb, B))
                return E.run_fn(f, [arg_for(f.params[0][1], nint(ra, A)), arg_for(f.params[1][1], nint(rb, B))])
            for pc, kind, res, lg in E.explore(run):
                ob.paths += 1
                name = f'NInt::{op}[{variant}] {ra}x{rb}'
                def replay(model, ra=ra, rb=rb):
                    a, b = mval(model, A), mval(model, B)
                    prog = f'@nint {op} {variant} {spec(ra, a)} {spec(rb, b)}'
                    if op in ('div', 'rem') and b == 0: return {'program': prog, 'expect': {'not_panic': 1}}
                    want = ORACLE_PY[op](a, b)
                    return {'program': prog, 'expect': {'one_of': [f'K I:Small({want})', f'K I:Big({want})']}, 'inputs': {'a': a, 'b': b}}
                if kind == 'panic':
                    # NInt Div/Rem by zero is the caller's obligation (the builtins guard it or not: family D); everything else must not panic
                    ob.panic(name + ' panic-free', pc, res, replay=replay, cls=f'C06/NInt::{op}/panic', pre=[B != 0] if op in ('div', 'rem') else [])
                    ob.witness('panic-path')
                    continue
                if kind != 'ok': ob.missing(name, f'{kind}: {res}'); continue
                rep, val = nint_val(res)
                goal = val == oracle_z3(op, A, B)
                if rep == 'Small': goal = z3.And(goal, in_i64(val))
                pre = [B != 0] if op in ('div', 'rem') else []
                ob.check(name + f' -> {rep}', list(pc) + pre, goal, replay=replay, cls=f'C06/NInt::{op}/value', sample=f'result value == a {op} b on Z')
                ob.witness('value-path')
    ob.absorb_engine(E)

# ------------------------------------------------------------------------------------------------ family B: NInt unary / relational kernels
def nint_fn(E, last, nparams=None, ptypes=None):
    fs = [f for f in E.by_last.get(last, []) if f.name.startswith('nint::<impl') and '{closure' not in f.name
          and (nparams is None or len(f.params) == nparams) and (ptypes is None or [t.strip() for _, t in f.params] == ptypes)]
    if len(fs) != 1: raise Missing(f'nint::{last} {ptypes} not found uniquely ({len(fs)})')
    return fs[0]

def shape_unary(item, ob):
    op = item
    E = eng()
    table = {
        'neg_v': ('neg', ['NInt'], lambda a: -a), 'neg_r': ('neg', ['&NInt'], lambda a: -a),
        'not_v': ('not', ['NInt'], lambda a: -a - 1), 'not_r': ('not', ['&NInt'], lambda a: -a - 1),
        'abs': ('abs', ['&NInt'], lambda a: z3.If(a < 0, -a, a)),
        'signum': ('signum', ['&NInt'], lambda a: z3.If(a > 0, 1, z3.If(a < 0, -1, 0))),
        'from_bigint': ('from', ['BigInt'], lambda a: a),
    }
    last, ptys, orc = table[op]
    f = nint_fn(E, last, ptypes=ptys)
    pyorc = {'neg_v': lambda a: -a, 'neg_r': lambda a: -a, 'not_v': lambda a: ~a, 'not_r': lambda a: ~a, 'abs': abs,
             'signum': lambda a: (a > 0) - (a < 0), 'from_bigint': lambda a: a}[op]
    for ra in REPS:
        if op == 'from_bigint' and ra == 'Small': continue
        def run():
            E.assume(*pre_of(ra, A))
            arg = A if op == 'from_bigint' else arg_for(ptys[0], nint(ra, A))
            return E.run_fn(f, [arg])
        for pc, kind, res, lg in E.explore(run):
            ob.paths += 1; name = f'NInt::{op} {ra}'
            def replay(model, ra=ra):
                a = mval(model, A); want = pyorc(a)
                if op == 'from_bigint': return {'program': f'@nnum1 show B{a}'.replace('show B', 'show S') if -(1 << 63) <= a < (1 << 63) else f'@nnum1 show B{a}', 'expect': {'not_panic': 1}}
                return {'program': f'@nint1 {op} {spec(ra, a)}', 'expect': {'one_of': [f'K I:Small({want})', f'K I:Big({want})']}}
            if kind == 'panic': ob.panic(name + ' panic-free', pc, res, replay=replay, cls=f'C06/NInt::{op}/panic'); continue
            if kind != 'ok': ob.missing(name, f'{kind}: {res}'); continue
            rep, val = nint_val(res)
            goal = val == orc(A)
            if rep == 'Small': goal = z3.And(goal, in_i64(val))
            if op == 'from_bigint': goal = z3.And(goal, z3.BoolVal(rep == 'Small') == in_i64(A))     # normalising constructor
            ob.check(name + f' -> {rep}', pc, goal, replay=replay, cls=f'C06/NInt::{op}/value', sample=f'{op}(a) exact on Z')
            ob.witness('value-path')
    ob.absorb_engine(E)

def hash_trace(lg): return [l[1:] for l in lg if l[0] == 'h']

def shape_rel(item, ob):
    """eq / partial_cmp / cmp / hash ignore representation; lte; sign"""
    what = item
    E = eng()
    if what in ('eq', 'partial_cmp', 'cmp'):
        f = nint_fn(E, what, ptypes=['&NInt', '&NInt'])
        for ra in REPS:
            for rb in REPS:
                def run():
                    E.assume(*pre_of(ra, A), *pre_of(rb, B))
                    return E.run_fn(f, [Ref(Cell(nint(ra, A))), Ref(Cell(nint(rb, B)))])
                for pc, kind, res, lg in E.explore(run):
                    ob.paths += 1; name = f'NInt::{what} {ra}x{rb}'
                    def replay(model, ra=ra, rb=rb):
                        a, b = mval(model, A), mval(model, B)
                        c = 'Less' if a < b else 'Equal' if a == b else 'Greater'
                        return {'program': f'@nintrel {spec(ra, a)} {spec(rb, b)}', 'expect': {'prefix': f'K eq={"true" if a == b else "false"} cmp={c} pcmp=Some({c})'}}
                    if kind == 'panic': ob.panic(name + ' panic-free', pc, res, replay=replay, cls=f'C06/NInt::{what}/panic'); continue
                    if kind != 'ok': ob.missing(name, f'{kind}: {res}'); continue
                    if what == 'eq': goal = res == (A == B)
                    else:
                        o = res.fields[0] if what == 'partial_cmp' else res
                        if what == 'partial_cmp' and res.variant != 'Some': goal = z3.BoolVal(False)
                        else: goal = {'Less': A < B, 'Equal': A == B, 'Greater': A > B}[o.variant]
                    ob.check(name, pc, goal, replay=replay, cls=f'C06/NInt::{what}/value', sample='relation equals the relation on values'); ob.witness('value-path')
    elif what == 'hash':
        f = nint_fn(E, 'hash', nparams=2)
        for ra in REPS:
            for rb in REPS:
                def run():
                    E.assume(*pre_of(ra, A), *pre_of(rb, B), A == B)
                    E.run_fn(f, [Ref(Cell(nint(ra, A))), Ref(Cell(Adt('Hasher', None, [])))]); h1 = hash_trace(E.log); E.log.clear()
                    E.run_fn(f, [Ref(Cell(nint(rb, B))), Ref(Cell(Adt('Hasher', None, [])))]); h2 = hash_trace(E.log)
                    return h1, h2
                for pc, kind, res, lg in E.explore(run):
                    ob.paths += 1; name = f'NInt::hash {ra}x{rb}'
                    def replay(model, ra=ra, rb=rb):
                        a = mval(model, A)
                        return {'program': f'@nintrel {spec(ra, a)} {spec(rb, a)}', 'expect': 'K eq=true cmp=Equal pcmp=Some(Equal) hasheq=true'}
                    if kind == 'panic': ob.panic(name + ' panic-free', pc, res, replay=replay, cls='C06/NInt::hash/panic'); continue
                    if kind != 'ok': ob.missing(name, f'{kind}: {res}'); continue
                    h1, h2 = res
                    same = z3.And(*[x[1] == y[1] for x, y in zip(h1, h2)]) if (len(h1) == len(h2) and all(x[0] == y[0] for x, y in zip(h1, h2))) else z3.BoolVal(False)
                    ob.check(name, pc, same, replay=replay, cls='C06/NInt::hash/value', sample='equal values => identical hash write trace'); ob.witness('value-path')
    elif what == 'sign':
        f = nint_fn(E, 'sign', nparams=1)
        for ra in REPS:
            def run():
                E.assume(*pre_of(ra, A)); return E.run_fn(f, [Ref(Cell(nint(ra, A)))])
            for pc, kind, res, lg in E.explore(run):
                ob.paths += 1; name = f'NInt::sign {ra}'
                def replay(model, ra=ra):
                    a = mval(model, A); return {'program': f'@nint1 sign {spec(ra, a)}', 'expect': 'K ' + ('Minus' if a < 0 else 'NoSign' if a == 0 else 'Plus')}
                if kind != 'ok': ob.panic(name, pc, res, replay=replay, cls='C06/NInt::sign/panic') if kind == 'panic' else ob.missing(name, res); continue
                goal = {'Minus': A < 0, 'NoSign': A == 0, 'Plus': A > 0}[res.variant]
                ob.check(name, pc, goal, replay=replay, cls='C06/NInt::sign/value'); ob.witness('value-path')
    elif what == 'lte':
        f = nint_fn(E, 'lte', nparams=2)
        for ra in REPS:
            def run():
                E.assume(*pre_of(ra, A), in_i64(B)); return E.run_fn(f, [Ref(Cell(nint(ra, A))), B])
            for pc, kind, res, lg in E.explore(run):
                ob.paths += 1; name = f'NInt::lte {ra}'
                def replay(model, ra=ra):
                    a, b = mval(model, A), mval(model, B); return {'program': f'@nint1 lte {spec(ra, a)} {b}', 'expect': 'K ' + ('true' if a <= b else 'false')}
                if kind != 'ok': ob.panic(name, pc, res, replay=replay, cls='C06/NInt::lte/panic') if kind == 'panic' else ob.missing(name, res); continue
                ob.check(name, pc, res == (A <= B), replay=replay, cls='C06/NInt::lte/value'); ob.witness('value-path')
    elif what in ('div_floor', 'mod_floor', 'gcd', 'lcm'):
        f = nint_fn(E, what, ptypes=['&NInt', '&NInt'])
        for ra in REPS:
            for rb in REPS:
                def run():
                    E.assume(*pre_of(ra, A), *pre_of(rb, B))
                    return E.run_fn(f, [Ref(Cell(nint(ra, A))), Ref(Cell(nint(rb, B)))])
                for pc, kind, res, lg in E.explore(run):
                    ob.paths += 1; name = f'NInt::{what} {ra}x{rb}'
                    def replay(model, ra=ra, rb=rb):
                        a, b = mval(model, A), mval(model, B); prog = f'@nint {what} rr {spec(ra, a)} {spec(rb, b)}'
                        if what in ('gcd', 'lcm'):
                            import math
                            want = math.gcd(a, b) if what == 'gcd' else (abs(a * b) // math.gcd(a, b) if a and b else 0)
                        elif b == 0: return {'program': prog, 'expect': {'not_panic': 1}}
                        else: want = ORACLE_PY[what](a, b)
                        return {'program': prog, 'expect': {'one_of': [f'K I:Small({want})', f'K I:Big({want})']}}
                    pre = [B != 0] if what in ('div_floor', 'mod_floor') else []
                    if kind == 'panic': ob.panic(name + ' panic-free', pc, res, replay=replay, cls=f'C06/NInt::{what}/panic', pre=pre); continue
                    if kind != 'ok': ob.missing(name, f'{kind}: {res}'); continue
                    rep, val = nint_val(res)
                    goal = val == oracle_z3(what, A, B)
                    if rep == 'Small': goal = z3.And(goal, in_i64(val))
                    ob.check(name + f' -> {rep}', list(pc) + pre, goal, replay=replay, cls=f'C06/NInt::{what}/value'); ob.witness('value-path')
    elif what in ('shl', 'shr'):
        f = nint_fn(E, what, ptypes=['NInt', 'usize'])
        K = z3.Int('k')
        for ra in REPS:
            def run():
                E.assume(*pre_of(ra, A), K >= 0, K <= (1 << 64) - 1); return E.run_fn(f, [nint(ra, A), K])
            for pc, kind, res, lg in E.explore(run):
                ob.paths += 1; name = f'NInt::{what} {ra}'
                def replay(model, ra=ra):
                    a, k = mval(model, A), mval(model, K)
                    if k > 200: return {'program': f'@nint1 {what} {spec(ra, a)} 3', 'expect': {'not_panic': 1}}
                    want = a << k if what == 'shl' else a >> k
                    return {'program': f'@nint1 {what} {spec(ra, a)} {k}', 'expect': {'one_of': [f'K I:Small({want})', f'K I:Big({want})']}}
                if kind != 'ok': ob.panic(name, pc, res, replay=replay, cls=f'C06/NInt::{what}/panic') if kind == 'panic' else ob.missing(name, res); continue
                rep, val = nint_val(res)
                goal = val == (UF_SHL if what == 'shl' else UF_SHR)(A, K)       # routing: exact shift of num-bigint on the same operands
                if rep == 'Small': goal = z3.And(goal, in_i64(val))
                ob.check(name, pc, goal, replay=replay, cls=f'C06/NInt::{what}/value', sample='a shifted by k via BigInt shift with the same operands'); ob.witness('value-path')
    elif what == 'pow_maybe_recip':
        f = nint_fn(E, 'pow_maybe_recip', nparams=2)
        for ra in REPS:
            for rb in REPS:
                def run():
                    E.assume(*pre_of(ra, A), *pre_of(rb, B))
                    return E.run_fn(f, [Ref(Cell(nint(ra, A))), Ref(Cell(nint(rb, B)))])
                for pc, kind, res, lg in E.explore(run):
                    ob.paths += 1; name = f'NInt::pow_maybe_recip {ra}x{rb}'
                    def replay(model, ra=ra, rb=rb):
                        a, b = mval(model, A), mval(model, B)
                        if abs(b) > 64 or abs(a) > (1 << 70): return {'program': f'@nnum pow_num rr {spec(ra, a % 7)} {spec(rb, b % 9)}', 'expect': {'not_panic': 1}}
                        if b >= 0: return {'program': f'@nnum pow_num rr {spec(ra, a)} {spec(rb, b)}', 'expect': {'one_of': [f'K I:Small({a ** b})', f'K I:Big({a ** b})']}}
                        return {'program': f'@nnum pow_num rr {spec(ra, a)} {spec(rb, b)}', 'expect': {'not_panic': 1}}
                    if kind != 'ok': ob.panic(name, pc, res, replay=replay, cls='C06/NInt::pow/panic') if kind == 'panic' else ob.missing(name, res); continue
                    recip, r = res.fields; rep, val = nint_val(r)
                    absb = z3.If(B < 0, -B, B)
                    goal = z3.And(recip == (B < 0), val == z3.If(B == 0, 1, UF_POW(A, absb)))
                    if rep == 'Small': goal = z3.And(goal, in_i64(val))
                    ob.check(name, pc, goal, replay=replay, cls='C06/NInt::pow/value', sample='(b<0, a^|b|) with 1 for b == 0'); ob.witness('value-path')
    ob.absorb_engine(E)

# ------------------------------------------------------------------------------------------------ family C: NNum integer arms
def nnum_fns(E, last, ptypes):
    fs = [f for f in E.by_last.get(last, []) if f.name.startswith('nnum::<impl') and '{closure' not in f.name and [t.strip() for _, t in f.params] == ptypes]
    return fs

NN_BIN = {'add': 'add', 'sub': 'sub', 'mul': 'mul', 'rem': 'rem', 'div_floor': 'div_floor', 'mod_floor': 'mod_floor',
          'bitand': 'bitand', 'bitor': 'bitor', 'bitxor': 'bitxor', 'gcd': 'gcd', 'lcm': 'lcm'}
def shape_nnum_bin(item, ob):
    op, ptys = item
    E = eng()
    fs = nnum_fns(E, op, list(ptys))
    if len(fs) != 1: raise Missing(f'NNum::{op} {ptys} not found uniquely ({len(fs)})')
    f = fs[0]; variant = variant_of(f)
    oname = 'rem' if op == 'rem' else op
    for ra in REPS:
        for rb in REPS:
            def run():
                E.assume(*pre_of(ra, A), *pre_of(rb, B))
                return E.run_fn(f, [arg_for(ptys[0], nnum_int(ra, A)), arg_for(ptys[1], nnum_int(rb, B))])
            for pc, kind, res, lg in E.explore(run):
                ob.paths += 1; name = f'NNum::{op}[{variant}] Int({ra})xInt({rb})'
                zero_sensitive = op in ('rem', 'div_floor', 'mod_floor')
                def replay(model, ra=ra, rb=rb):
                    a, b = mval(model, A), mval(model, B); prog = f'@nnum {op} {variant} {spec(ra, a)} {spec(rb, b)}'
                    if zero_sensitive and b == 0: return {'program': prog, 'expect': {'not_panic': 1}}
                    if op in ('gcd', 'lcm'):
                        import math
                        want = math.gcd(a, b) if op == 'gcd' else (abs(a * b) // math.gcd(a, b) if a and b else 0)
                    else: want = ORACLE_PY[oname](a, b)
                    return {'program': prog, 'expect': {'one_of': [f'K I:Small({want})', f'K I:Big({want})']}}
                pre = [B != 0] if zero_sensitive else []
                if kind == 'panic': ob.panic(name + ' panic-free', pc, res, replay=replay, cls=f'C06/NNum::{op}/panic', pre=pre); continue
                if kind != 'ok': ob.missing(name, f'{kind}: {res}'); continue
                if not (isinstance(res, Adt) and res.ty == 'NNum' and res.variant == 'Int'):
                    ob.check(name + ' level', list(pc) + pre, z3.BoolVal(False), replay=replay, cls=f'C06/NNum::{op}/level'); continue
                rep, val = nint_val(res.fields[0])
                goal = val == oracle_z3(oname, A, B)
                if rep == 'Small': goal = z3.And(goal, in_i64(val))
                ob.check(name + f' -> {rep}', list(pc) + pre, goal, replay=replay, cls=f'C06/NNum::{op}/value', sample=f'Int level: a {op} b exact'); ob.witness('value-path')
    ob.absorb_engine(E)

def shape_nnum_un(item, ob):
    op, ptys = item
    E = eng()
    last = {'neg': 'neg', 'not': 'not', 'abs': 'abs', 'signum': 'signum'}[op]
    fs = nnum_fns(E, last, list(ptys))
    if len(fs) != 1: raise Missing(f'NNum::{op} {ptys} not found uniquely ({len(fs)})')
    f = fs[0]; variant = variant_of(f)
    orc = {'neg': lambda a: -a, 'not': lambda a: -a - 1, 'abs': lambda a: z3.If(a < 0, -a, a), 'signum': lambda a: z3.If(a > 0, 1, z3.If(a < 0, -1, 0))}[op]
    pyorc = {'neg': lambda a: -a, 'not': lambda a: ~a, 'abs': abs, 'signum': lambda a: (a > 0) - (a < 0)}[op]
    for ra in REPS:
        def run():
            E.assume(*pre_of(ra, A)); return E.run_fn(f, [arg_for(ptys[0], nnum_int(ra, A))])
        for pc, kind, res, lg in E.explore(run):
            ob.paths += 1; name = f'NNum::{op}[{variant}] Int({ra})'
            def replay(model, ra=ra):
                a = mval(model, A); want = pyorc(a); kop = op + ('_' + variant if op in ('neg', 'not') else '')
                return {'program': f'@nnum1 {kop} {spec(ra, a)}', 'expect': {'one_of': [f'K I:Small({want})', f'K I:Big({want})']}}
            if kind == 'panic': ob.panic(name + ' panic-free', pc, res, replay=replay, cls=f'C06/NNum::{op}/panic'); continue
            if kind != 'ok': ob.missing(name, f'{kind}: {res}'); continue
            if not (isinstance(res, Adt) and res.ty == 'NNum' and res.variant == 'Int'):
                ob.check(name + ' level', pc, z3.BoolVal(False), replay=replay, cls=f'C06/NNum::{op}/level'); continue
            rep, val = nint_val(res.fields[0]); goal = val == orc(A)
            if rep == 'Small': goal = z3.And(goal, in_i64(val))
            ob.check(name + f' -> {rep}', pc, goal, replay=replay, cls=f'C06/NNum::{op}/value'); ob.witness('value-path')
    ob.absorb_engine(E)

# ------------------------------------------------------------------------------------------------ family D: builtin closures (zero guards, routing)
def builtin_closures(E):
    """name -> closure Fn for `name: "X".to_string(), body: |..|` registrations in initialize (span-matched against the current source)"""
    src = open(os.path.join(REPO, 'src', 'lib.rs')).read()
    out = {}
    for m in re.finditer(r'name:\s*"((?:[^"\\]|\\.)*)"\.to_string\(\),\s*body:\s*(\|)', src):
        pos = m.start(2); line = src.count('\n', 0, pos) + 1; col = pos - (src.rfind('\n', 0, pos) + 1) + 1
        key = f'{{closure@src/lib.rs:{line}:{col}:'
        for ty, f in E.closures.items():
            if ty.startswith(key): out[m.group(1)] = f
    return out

def obj_num(res):
    """Obj::Num(NNum) inside Result::Ok or bare NNum"""
    return res

D_OPS = {
    # name: (surface syntax, arity, oracle kind)
    '%': 'trem', '//': 'fdiv', '%%': 'fmod', '/!': 'exactdiv', 'gcd': 'gcd', 'lcm': 'lcm', '^': 'pow', '&': 'and', '|': 'or', '<<': 'shl', '>>': 'shr',
}
def shape_builtin(item, ob):
    name = item
    E = eng()
    cl = builtin_closures(E)
    if name not in cl: raise Missing(f'builtin closure for {name!r} not found in initialize (registration restructured?)')
    f = cl[name]
    kind_ = D_OPS[name]
    for ra in REPS:
        for rb in REPS:
            def run():
                E.assume(*pre_of(ra, A), *pre_of(rb, B))
                self_arg = Closure(f.params[0][1], [])
                return E.run_fn(f, [self_arg, nnum_int(ra, A), nnum_int(rb, B)])
            for pc, kind, res, lg in E.explore(run):
                ob.paths += 1; nm = f'builtin `{name}` Int({ra})xInt({rb})'
                def lit(rep, n): return fmt_big(n) if rep == 'Big' else fmt_int(n)
                def replay(model, ra=ra, rb=rb):
                    a, b = mval(model, A), mval(model, B)
                    prog = f'{lit(ra, a)} {name} {lit(rb, b)}' if not name.isalpha() else f'{name}({lit(ra, a)}, {lit(rb, b)})'
                    exp = {'not_panic': 1}
                    try:
                        if kind_ == 'trem' and b != 0: exp = {'equals': f'OK {ORACLE_PY["rem"](a, b)}'}
                        elif kind_ == 'trem': exp = {'prefix': 'ERR'}
                        elif kind_ == 'fdiv' and b != 0: exp = {'equals': f'OK {a // b}'}
                        elif kind_ == 'fmod' and b != 0: exp = {'equals': f'OK {a - b * (a // b)}'}
                        elif kind_ == 'exactdiv' and b != 0 and a % b == 0: exp = {'equals': f'OK {a // b}'}
                        elif kind_ == 'exactdiv' and b != 0: exp = {'prefix': 'ERR'}
                        elif kind_ in ('fdiv', 'fmod', 'exactdiv') and b == 0: exp = {'prefix': 'ERR'}
                        elif kind_ == 'and': exp = {'equals': f'OK {a & b}'}
                        elif kind_ == 'or': exp = {'equals': f'OK {a | b}'}
                        elif kind_ == 'shl' and 0 <= b <= 64: exp = {'equals': f'OK {a << b}'}
                        elif kind_ == 'shr' and 0 <= b <= 64: exp = {'equals': f'OK {a >> b}'}
                        elif kind_ == 'pow' and 0 <= b <= 64: exp = {'equals': f'OK {a ** b}'}
                    except Exception: pass
                    return {'program': prog, 'expect': exp}
                if kind == 'panic':
                    ob.panic(nm + ' panic-free', pc, res, replay=replay, cls=f'C06/builtin {name}/panic', prefer=small(A, B)); ob.witness('panic-path'); continue
                if kind != 'ok': ob.missing(nm, f'{kind}: {res}'); continue
                # result: Result<Obj> (TwoNumsBuiltin) or NNum (TwoNumsToNumsBuiltin)
                r = res; is_err = False
                if isinstance(r, Adt) and r.ty == 'Result':
                    if r.variant == 'Err': is_err = True
                    else: r = r.fields[0].fields[0]        # Ok(Obj::Num(n))
                def intval(r):
                    if isinstance(r, Adt) and r.ty == 'NNum' and r.variant == 'Int': return nint_val(r.fields[0])
                    return None, None
                if kind_ in ('fdiv', 'fmod'):
                    if is_err: goal = B == 0
                    else:
                        rep, val = intval(r); goal = z3.BoolVal(False) if val is None else z3.And(B != 0, val == (fdiv(A, B) if kind_ == 'fdiv' else fmod(A, B)))
                elif kind_ == 'exactdiv':
                    if is_err: goal = z3.Or(B == 0, fmod(A, B) != 0)
                    else:
                        rep, val = intval(r); goal = z3.BoolVal(False) if val is None else z3.And(B != 0, fmod(A, B) == 0, val == fdiv(A, B))
                elif kind_ == 'trem' and is_err: goal = B == 0
                elif kind_ == 'trem':
                    rep, val = intval(r); goal = z3.BoolVal(False) if val is None else z3.And(B != 0, val == trem(A, B))
                elif kind_ in ('gcd', 'lcm'):
                    rep, val = intval(r); goal = z3.BoolVal(False) if val is None else val == (UF_GCD if kind_ == 'gcd' else UF_LCM)(A, B)
                elif kind_ in ('and', 'or'):
                    rep, val = intval(r); goal = z3.BoolVal(False) if val is None else val == zbit('BitAnd' if kind_ == 'and' else 'BitOr', A, B)
                elif kind_ in ('shl', 'shr'):
                    rep, val = intval(r)
                    fits = z3.And(B >= 0, B <= (1 << 64) - 1)
                    if val is None: goal = z3.Not(fits)           # documented: shift counts outside usize (incl. negative) give float NaN
                    else: goal = z3.And(fits, val == (UF_SHL if kind_ == 'shl' else UF_SHR)(A, B))
                elif kind_ == 'pow':
                    rep, val = intval(r)
                    absb = z3.If(B < 0, -B, B)
                    if val is not None: goal = z3.And(B >= 0, val == z3.If(B == 0, 1, UF_POW(A, absb)))
                    elif isinstance(r, Adt) and r.ty == 'NNum' and r.variant == 'Rational':
                        rv = r.fields[0].cell.v.v
                        goal = z3.And(B < 0, UF_POW(A, absb) != 0, rv == 1 / z3.ToReal(UF_POW(A, absb)))
                    elif isinstance(r, Adt) and r.ty == 'NNum' and r.variant == 'Float':
                        want = Engine.fop_term('Div', F64(3, 1), F64(3, 0)); got = r.fields[0]   # 0 ^ -n == 1 / 0 at float level, like `/`
                        goal = z3.And(B < 0, A == 0, got.kind == want.kind, got.val == want.val, got.nz == want.nz)
                    else: goal = z3.BoolVal(False)
                ob.check(nm + (' -> Err' if is_err else ' -> value'), pc, goal, replay=replay, cls=f'C06/builtin {name}/value', sample=f'`{name}` on integers: {kind_} with zero-divisor guard', prefer=small(A, B))
                ob.witness('err-path' if is_err else 'value-path')
    ob.absorb_engine(E)

# ------------------------------------------------------------------------------------------------ translator validation: concrete boundary vectors through mirsym and natively
BOUNDARY = [0, 1, -1, 2, -2, 3, 7, -7, (1 << 31), -(1 << 31), (1 << 32) + 1, (1 << 62), (1 << 63) - 1, -(1 << 63), (1 << 63), -(1 << 63) - 1, (1 << 64), -(1 << 64) + 3, (1 << 100) + 5]
def validation(seed, n):
    """concrete vectors: mirsym (concrete run of the same MIR + models) vs the native kernel; returns (agreeing, failures)"""
    rnd = random.Random(seed); E = eng(); agree = 0; fails = []; progs = []; expect = []
    ops = [(op, 'rr') for op in BIN_OPS] + [('add', 'vv'), ('sub', 'vr'), ('mul', 'rv')]
    cases = []
    for op, variant in ops:
        for _ in range(n):
            a = rnd.choice(BOUNDARY) + rnd.choice([0, 0, 1, -1]); b = rnd.choice(BOUNDARY) + rnd.choice([0, 0, 1, -1])
            if op in ('div', 'rem') and b == 0: b = 5
            ra = 'Small' if -(1 << 63) <= a < (1 << 63) and rnd.random() < 0.6 else 'Big'
            rb = 'Small' if -(1 << 63) <= b < (1 << 63) and rnd.random() < 0.6 else 'Big'
            cases.append((op, variant, ra, a, rb, b))
    for op, variant, ra, a, rb, b in cases:
        f = [g for g in nint_binop_fns(E, op) if variant_of(g) == variant][0]
        def run():
            return E.run_fn(f, [arg_for(f.params[0][1], nint(ra, z3.IntVal(a))), arg_for(f.params[1][1], nint(rb, z3.IntVal(b)))])
        paths = E.explore(run)
        if len(paths) != 1 or paths[0][1] != 'ok': fails.append(f'concrete run of NInt::{op} not a single ok path: {paths[0][1:3] if paths else None}'); continue
        rep, val = nint_val(paths[0][2]); v = z3.simplify(val)
        if not z3.is_int_value(v):
            # uninterpreted bit operation beyond i64: not comparable, skip
            continue
        progs.append(f'@nint {op} {variant} {spec(ra, a)} {spec(rb, b)}'); expect.append(f'K I:{rep}({v.as_long()})')
    outs = nlrun(progs, 'dev')
    for p, e, o in zip(progs, expect, outs):
        if o == e: agree += 1
        else: fails.append(f'translator validation mismatch: {p}: mirsym {e} native {o}')
    return agree, fails

# ------------------------------------------------------------------------------------------------ main
def run_shape(item, ob):
    fam, payload = item
    {'binop': shape_binop, 'unary': shape_unary, 'rel': shape_rel, 'nnum_bin': shape_nnum_bin, 'nnum_un': shape_nnum_un, 'builtin': shape_builtin}[fam](payload, ob)

def main(tier, seed, t0):
    global MIR
    MIR, th = load_mir('on')
    items = []
    for op in BIN_OPS:
        for v in ('rr', 'rv', 'vr', 'vv'): items.append(('binop', (op, v)))
    for op in ('neg_v', 'neg_r', 'not_v', 'not_r', 'abs', 'signum', 'from_bigint'): items.append(('unary', op))
    for w in ('eq', 'partial_cmp', 'cmp', 'hash', 'sign', 'lte', 'div_floor', 'mod_floor', 'gcd', 'lcm', 'shl', 'shr', 'pow_maybe_recip'): items.append(('rel', w))
    for op in ('add', 'sub', 'mul', 'rem'):
        for ptys in (('&NNum', '&NNum'), ('&NNum', 'NNum'), ('NNum', '&NNum'), ('NNum', 'NNum')): items.append(('nnum_bin', (op, ptys)))
    for op in ('div_floor', 'mod_floor', 'gcd', 'lcm'): items.append(('nnum_bin', (op, ('&NNum', '&NNum'))))
    for op in ('bitand', 'bitor', 'bitxor'):
        for ptys in (('&NNum', '&NNum'), ('NNum', 'NNum')): items.append(('nnum_bin', (op, ptys)))
    for op, ptys in (('neg', ('NNum',)), ('neg', ('&NNum',)), ('not', ('NNum',)), ('not', ('&NNum',)), ('abs', ('&NNum',)), ('signum', ('&NNum',))): items.append(('nnum_un', (op, ptys)))
    for name in D_OPS: items.append(('builtin', name))
    rnd = random.Random(seed); rnd.shuffle(items)
    merged, per = pmap(run_shape, items, tier)
    agree, vfails = validation(seed, 3 if tier == 'quick' else 12)
    return finish(PROP, tier, seed, merged, t0, th=th, validated=agree, validation_failures=vfails,
        kernels=['nint.rs: Add/Sub/Mul/Div/Rem/BitAnd/BitOr/BitXor x 4 owned/borrowed impls, Neg, Not, abs, signum, sign, From<BigInt>, eq, partial_cmp, cmp, hash, lte, div_floor, mod_floor, gcd, lcm, Shl, Shr, pow_maybe_recip',
                 'nnum.rs integer arms: Add/Sub/Mul/Rem x 4 impls, div_floor, mod_floor, BitAnd/BitOr/BitXor, gcd, lcm, Neg, Not, abs, signum',
                 'lib.rs builtin closures: % // %% /! gcd lcm ^ & | << >>'],
        bounds={'integers': 'unbounded (SMT Int); Small operands constrained to the i64 range, Big operands unconstrained', 'representations': 'all Small/Big combinations of operands',
                'shift counts': 'all of usize (result compared with the BigInt shift on the same operands)'},
        outside=['is_prime / factorize (input-dependent trial-division loops)', 'bit-level correctness of num-bigint (BigInt ops are the SMT Int operations by contract)',
                 'gcd/lcm/pow/shift values are uninterpreted: the claim for them is routing to the num-bigint operation with the right operands'],
        assumptions=['num-bigint implements Z (add/sub/mul/truncating div+rem/div_floor/mod_floor/to_i64/sign/bit operations on infinite two\'s complement)',
                     'i64::checked_* return None exactly on overflow / zero divisor', 'rustc MIR semantics as implemented by mirsym (validated on concrete vectors against the native build on every run)'])
