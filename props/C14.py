"""C14 — every failure is a catchable error, never a crash.

Panic-reachability by symbolic execution: (1) a sweep over the builtin closures registered in `initialize` (found through
their `name: "..", body: |..|` registrations in the current source), each executed with 1-3 arguments whose KIND ranges over
null / int (both representations) / rational / float / string / list / vector / bytes / dict and whose numeric values are
symbolic over all of Z, Q and the abstract doubles; a feasible path that ends in panic!/unwrap/expect/todo!/overflow/
index-out-of-bounds/division-by-zero is replayed natively (`name(args)`) and reported when the interpreter really panics;
(2) the sites the property names: slice assignment, splat unpacking arithmetic, and the kernels of the other properties
(their panic obligations are part of those checks; the ones that changed hands are listed in known_findings.txt).
A builtin whose body needs something the encoder has no model for is listed as "not encoded" with the reason: the evidence
reports the encoded / total ratio, so coverage is a measured number."""
import itertools, random, signal, time as _time
import z3
from lib.common import *
from mirsym import strmodels, hashmap   # noqa
from props.numlib import *
from props.C06 import builtin_closures
from props.C08 import lit

PROP = 'C14'
MIR = None
def eng(): return new_engine(MIR, [extra_models])

SKIP_NAMES = {'print', 'echo', 'write', 'input', 'read', 'read_file', 'read_file?', 'read_file_bytes', 'read_file_bytes?', 'write_file', 'append_file', 'path_parent', 'path_join', 'list_files', 'time', 'now',
              'sleep', 'run_process', 'request', 'interact', 'flush', 'debug', 'random', 'random_bytes', 'random_range', 'shuffle', 'choose', 'assert', 'import', 'eval', 'exit', 'getenv', 'vars', 'read_compressed', 'env', 'aes128_hazmat_encrypt_block'}

def extra_models(E, callee, args, argtys, callee0):
    # error constructors build messages with Display of arbitrary values: opaque
    if re.fullmatch(r'(core::)?NErr::(argument_error_1|argument_error_2|argument_error_first|argument_error_second|argument_error_args|type_error|value_error|index_error|key_error|argument_error|generic_argument_error|empty_error|name_error|io_error|syntax_error|throw|assert_error)', callee):
        return Adt('NErr', 'Throw', [Opaque('errobj'), Seq([])])
    if re.fullmatch(r'(core::)?err_add_name|core::err_add_name', callee):
        return args[0]
    return NotImplemented

KINDS = ('null', 'IntSmall', 'IntBig', 'Rational', 'Float', 'str', 'list', 'elist', 'vector', 'bytes', 'dict')
def mk_arg(kind, tag, pty):
    """-> (value, preconditions, SymNum list for rendering)"""
    pty = pty.strip()
    if pty.endswith('NNum'):
        if kind not in ('IntSmall', 'IntBig', 'Rational', 'Float'): return None
        S = SymNum(kind, tag); return S.obj(), S.pre, [S]
    if not pty.endswith('Obj'): return None
    if kind == 'null': return Adt('Obj', 'Null', []), [], []
    if kind in ('IntSmall', 'IntBig', 'Rational', 'Float'):
        S = SymNum(kind, tag); return Adt('Obj', 'Num', [S.obj()]), S.pre, [S]
    if kind == 'str': return Adt('Obj', 'Seq', [Adt('Seq', 'String', [RcV(RcObj(Seq([z3.IntVal(97), z3.IntVal(98)])))])]), [], []
    if kind == 'chr1':          # a one-character string whose character is any Unicode scalar value (only used where the code works on chars, not byte offsets)
        c = z3.Int('c' + tag)
        return Adt('Obj', 'Seq', [Adt('Seq', 'String', [RcV(RcObj(Seq([c])))])]), [z3.Or(z3.And(c >= 0, c < 0xD800), z3.And(c >= 0xE000, c <= 0x10FFFF))], [('chr', c)]
    S = SymNum('IntSmall', tag)
    if kind == 'list': return Adt('Obj', 'Seq', [Adt('Seq', 'List', [RcV(RcObj(Seq([Adt('Obj', 'Num', [S.obj()])])))])]), S.pre, [S]
    if kind == 'elist': return Adt('Obj', 'Seq', [Adt('Seq', 'List', [RcV(RcObj(Seq([])))])]), [], []
    if kind == 'vector': return Adt('Obj', 'Seq', [Adt('Seq', 'Vector', [RcV(RcObj(Seq([S.obj()])))])]), S.pre, [S]
    if kind == 'bytes': return Adt('Obj', 'Seq', [Adt('Seq', 'Bytes', [RcV(RcObj(Seq([z3.IntVal(7)])))])]), [], []
    if kind == 'dict':
        from mirsym.hashmap import hm
        return Adt('Obj', 'Seq', [Adt('Seq', 'Dict', [RcV(RcObj(hm([Tup([Adt('ObjKey', None, [Adt('Obj', 'Num', [S.obj()])]), Adt('Obj', 'Null', [])])]))), opt()])]), S.pre, [S]
def render(kind, syms, model):
    if kind == 'null': return 'null'
    if kind == 'str': return '"ab"'
    if kind == 'elist': return '[]'
    if kind == 'bytes': return 'B[7]'
    if kind == 'chr1': return f'chr({mval(model, syms[0][1])})'
    c = syms[0].concrete(model)
    if c is None: return None
    l = lit(c)
    if l is None: return None
    if kind in ('IntSmall', 'IntBig', 'Rational', 'Float'): return l
    return {'list': f'[{l}]', 'vector': f'V({l})', 'dict': f'{{{l}}}'}[kind]

class _TO(Exception): pass

def shape_builtin(item, ob):
    name, combos = item
    E = eng(); cl = builtin_closures(E)
    f = cl.get(name)
    if f is None: raise Missing(f'builtin closure {name!r} not found')
    ptys = [t for _, t in f.params[1:]]
    encoded = 0; reasons = set(); panics = 0; timeouts = 0
    def on_alarm(*_): raise _TO()
    for combo in combos:
        made = [mk_arg(k, f'x{i}', ptys[i]) for i, k in enumerate(combo)]
        if any(m is None for m in made): continue
        def run(combo=combo):
            # the argument values are rebuilt for every path: builtins take them by value and mutate them in place (Rc counts, make_mut)
            fresh = [mk_arg(k, f'x{i}', ptys[i]) for i, k in enumerate(combo)]
            for m in fresh: E.assume(*m[1])
            return E.run_fn(f, [Closure(f.params[0][1], [])] + [m[0] for m in fresh])
        old = signal.signal(signal.SIGALRM, on_alarm); signal.alarm(20)
        try: paths = E.explore(run, max_paths=400)
        except (_TO, Fuel):
            reasons.add('path explosion / time limit'); signal.alarm(0); timeouts += 1
            if timeouts >= 2: reasons.add('remaining kind tuples skipped after two time-outs'); break          # loops over a symbolic bound (is_prime, factorize, str_radix): every tuple would time out
            continue
        except Missing as e: reasons.add(str(e)[:120]); continue
        except Exception as e: reasons.add('encoder limitation: ' + repr(e)[:100]); continue
        finally: signal.alarm(0); signal.signal(signal.SIGALRM, old)
        allsyms = [m[2] for m in made]
        def replay(model, combo=combo, allsyms=allsyms):
            ls = [render(k, s, model) for k, s in zip(combo, allsyms)]
            if any(l is None for l in ls): return None
            call = f'{name}({", ".join(ls)})' if re.fullmatch(r'[A-Za-z_][A-Za-z0-9_?\']*', name) else (f'({ls[0]}) {name} ({ls[1]})' if len(ls) == 2 else f'(\\x -> {name} x)({ls[0]})' if len(ls) == 1 else None)
            if call is None: return None
            return {'program': f'try ({call}) catch e -> "caught"', 'expect': {'not_panic': 1}}
        ok_combo = True
        for pc, kd, res, lg in paths:
            ob.paths += 1
            if kd in ('missing', 'fuel'): reasons.add(str(res).split('  argtys')[0][:120]); ok_combo = False; continue
            nums_ = [s for ss in allsyms for s in ss if not isinstance(s, tuple)]
            pref = prefer_all(*nums_) if nums_ else ()
            if kd == 'panic':
                panics += 1
                ob.panic(f'builtin {name}{combo}: {str(res)[:80]}', pc, res, replay=replay, cls=f'C14/builtin {name}/panic', prefer=pref)
            else:
                # a completed path: it returned a value or an error value — that is the property; count it
                ob.check(f'builtin {name}{combo} returns a value or an error', pc, z3.BoolVal(isinstance(res, Adt)), replay=replay, cls=f'C14/builtin {name}/result', sample='Ok(value) / Err(error) — no unwinding')
        if ok_combo: encoded += 1
    ob.extra = {'builtin': name, 'combos_tried': len(combos), 'combos_encoded': encoded, 'not_encoded_reasons': sorted(reasons)[:4], 'panic_paths': panics}
    ob.absorb_engine(E)

_STRUCTS = None
def struct_builtins():
    """unit structs that implement Builtin in lib.rs -> {struct name: surface name}"""
    global _STRUCTS
    if _STRUCTS is None:
        src = open(os.path.join(REPO, 'src', 'lib.rs')).read(); _STRUCTS = {}
        units = set(re.findall(r'^struct (\w+);', src, re.M))
        for m in re.finditer(r'^impl Builtin for (\w+) \{(.*?)^\}', src, re.M | re.S):
            nm = re.search(r'fn builtin_name\(&self\) -> &str \{\s*"((?:[^"\\]|\\.)*)"', m.group(2))
            if m.group(1) in units and nm: _STRUCTS[m.group(1)] = nm.group(1)
    return _STRUCTS
def shape_struct(item, ob):
    """`<S as Builtin>::run(&S, env, vec![args])` for a unit struct S: panic reachability over kind tuples (a builtin that calls back into the
    evaluator through the environment ends in a missing model for that tuple, which is listed, not hidden)"""
    sname, combos = item
    from props import evalh
    E = new_engine(MIR, [extra_models, evalh.eval_models]); surface = struct_builtins()[sname]
    fs = [f for f in E.by_last.get('run', []) if len(f.params) == 3 and f.params[0][1].strip() in ('&' + sname, '&lib::' + sname)]
    if len(fs) != 1: raise Missing(f'run of struct builtin {sname} not found uniquely')
    f = fs[0]; encoded = 0; reasons = set(); panics = 0; timeouts = 0
    def on_alarm(*_): raise _TO()
    for combo in combos:
        made = [mk_arg(k, f'x{i}', 'core::Obj') for i, k in enumerate(combo)]
        def run(combo=combo):
            fresh = [mk_arg(k, f'x{i}', 'core::Obj') for i, k in enumerate(combo)]
            for m in fresh: E.assume(*m[1])
            return E.run_fn(f, [Ref(Cell(Adt(sname, None, []))), Ref(Cell(evalh.top_env({}, builtins=()))), Seq([m[0] for m in fresh])])
        old = signal.signal(signal.SIGALRM, on_alarm); signal.alarm(20)
        try: paths = E.explore(run, max_paths=300)
        except (_TO, Fuel):
            reasons.add('path explosion / time limit'); timeouts += 1
            if timeouts >= 2: break
            continue
        except Missing as e: reasons.add(str(e)[:120]); continue
        except Exception as e: reasons.add('encoder limitation: ' + repr(e)[:100]); continue
        finally: signal.alarm(0); signal.signal(signal.SIGALRM, old)
        allsyms = [m[2] for m in made]
        def replay(model, combo=combo, allsyms=allsyms):
            ls = [render(k, s_, model) for k, s_ in zip(combo, allsyms)]
            if any(l is None for l in ls): return None
            call = f'{surface}({", ".join(ls)})' if re.fullmatch(r"[A-Za-z_][A-Za-z0-9_?']*", surface) else (f'({ls[0]}) {surface} ({ls[1]})' if len(ls) == 2 else None)
            if call is None: return None
            return {'program': f'try ({call}) catch e -> "caught"', 'expect': {'not_panic': 1}}
        ok_combo = True
        for pc, kd, res, lg in paths:
            ob.paths += 1
            if kd in ('missing', 'fuel'): reasons.add(str(res).split('  argtys')[0][:120]); ok_combo = False; continue
            nums_ = [s_ for ss in allsyms for s_ in ss if not isinstance(s_, tuple)]
            pref = prefer_all(*nums_) if nums_ else ()
            if kd == 'panic':
                panics += 1
                ob.panic(f'struct builtin {surface}{combo}: {str(res)[:80]}', pc, res, replay=replay, cls=f'C14/struct builtin {surface}/panic', prefer=pref)
            else:
                ob.check(f'struct builtin {surface}{combo} returns a value or an error', pc, z3.BoolVal(isinstance(res, Adt)), replay=replay, cls=f'C14/struct builtin {surface}/result', sample='Ok(value) / Err(error) — no unwinding')
        if ok_combo: encoded += 1
    ob.extra = {'builtin': f'{surface} (struct {sname})', 'combos_tried': len(combos), 'combos_encoded': encoded, 'not_encoded_reasons': sorted(reasons)[:4], 'panic_paths': panics}
    ob.absorb_engine(E)

def shape_site(item, ob):
    """named sites"""
    what = item
    E = eng()
    if what == 'set_index_slice':
        from props.cow import num, lst
        f = find_fn(E, 'set_index'); LO, HI = z3.Int('lo'), z3.Int('hi')
        for every in (False, True):
            def run():
                E.assume(in_i64(LO), in_i64(HI))
                cell = Cell(lst([num(0), num(1), num(2)]))
                idx = Cell(Seq([Adt('EvaluatedIndexOrSlice', 'Slice', [opt(num(LO)), opt(num(HI))])]))
                return E.run_fn(f, [Ref(cell), Ref(idx), opt(num(9)), z3.BoolVal(every)])
            replay = lambda model: {'program': f'x := [0, 1, 2]; try (x[{fmt_int(mval(model, LO))}:{fmt_int(mval(model, HI))}] = 9) catch e -> "caught"', 'expect': {'not_panic': 1}}
            for pc, kd, res, lg in E.explore(run):
                ob.paths += 1; name = f'set_index list slice every={every}'
                pref = [[z3.And(LO >= -3, LO <= 3, HI >= -3, HI <= 3)]]
                if kd == 'panic': ob.panic(name + ' panic-free', pc, res, replay=replay, cls='C14/set_index slice/panic', prefer=pref)
                elif kd != 'ok': ob.missing(name, f'{kd}: {res}')
                else: ob.check(name + ' returns', pc, z3.BoolVal(True), replay=replay, cls='C14/set_index slice/result')
    ob.absorb_engine(E)

def shape_string_assign(item, ob):
    """byte assignment into a string (set_index string arm) with one-byte, two-byte, multi-byte-character and non-string values: errors, never panics"""
    from props import cow2
    cow2.MIR = MIR
    cow2.run_str(item, ob, 'C14')

def run_shape(item, ob):
    fam, payload = item
    {'builtin': shape_builtin, 'struct': shape_struct, 'site': shape_site, 'string_assign': shape_string_assign}[fam](payload, ob)

def main(tier, seed, t0):
    global MIR
    MIR, th = load_mir('on')
    E = eng(); cl = builtin_closures(E)
    rnd = random.Random(seed); items = [('site', 'set_index_slice')]
    for vk in ('byte', 'two', 'mb', 'num', 'none'): items.append(('string_assign', (False, 'Small', vk)))
    items.append(('string_assign', (False, 'Small', 'byte', 'multibyte')))
    names = sorted(n for n in cl if n not in SKIP_NAMES)
    total = len(names); skipped_sig = []
    for name in names:
        f = cl[name]; ptys = [t.strip() for _, t in f.params[1:]]
        if not ptys or len(ptys) > 3 or any(not (t.endswith('Obj') or t.endswith('NNum')) for t in ptys): skipped_sig.append(name); continue
        kinds = [[k for k in KINDS if mk_arg(k, 'p', t) is not None] for t in ptys]
        combos = list(itertools.product(*kinds))
        cap = {1: 11, 2: 14, 3: 8}[len(ptys)] if tier == 'quick' else {1: 11, 2: 60, 3: 40}[len(ptys)]
        if len(combos) > cap:
            # always keep the homogeneous tuples (both machine-word ints, both big ints, ...): that is where arithmetic fast paths live
            homog = [c for c in combos if len(set(c)) == 1 or set(c) <= {'IntSmall', 'IntBig'}]
            rest_ = [c for c in combos if c not in homog]
            combos = homog + rnd.sample(rest_, max(0, min(len(rest_), cap - len(homog))))
        items.append(('builtin', (name, combos)))
    # struct-implemented builtins (unit structs): 1 and 2 arguments over the kinds plus one-character strings with a symbolic character
    SK = KINDS + ('chr1',)
    for sname in sorted(struct_builtins()):
        if struct_builtins()[sname] in SKIP_NAMES: continue
        c1 = [(k,) for k in SK]
        homog = [(k, k) for k in SK] + [('IntSmall', 'IntBig'), ('IntBig', 'IntSmall'), ('str', 'chr1'), ('list', 'IntSmall'), ('IntSmall', 'list'), ('list', 'elist'), ('str', 'IntSmall')]
        more = [c for c in itertools.product(SK, SK) if c not in homog]
        c2 = homog + rnd.sample(more, 6 if tier == 'quick' else 40)
        items.append(('struct', (sname, c1 + c2)))
    merged, per = pmap(run_shape, items, tier)
    extras = [e for e in merged.get('extra', []) if e]
    enc = [e for e in extras if e.get('combos_encoded', 0) > 0]
    notenc = {e['builtin']: e['not_encoded_reasons'] for e in extras if e.get('combos_encoded', 0) == 0}
    return finish(PROP, tier, seed, merged, t0, th=th,
        kernels=['lib.rs: builtin closures registered with `name: .., body: |..|` in initialize (OneArgBuiltin, TwoArgBuiltin, OneNumBuiltin, TwoNumsBuiltin, TwoNumsToNumsBuiltin ...)', 'eval.rs: set_index slice arms'],
        bounds={'arguments': 'kinds null / int Small / int Big / rational / float / string "ab" / one-element list / empty list / one-element vector / bytes / one-entry dict; numeric values symbolic (unbounded)',
                'combinations': 'all kinds for 1-argument builtins; a VERIF_SEED sample of kind tuples for 2- and 3-argument builtins', 'per builtin': '20 s / 400 paths, otherwise listed as not encoded'},
        outside=['builtins that need the environment, I/O, clock, randomness or processes (excluded by the property or by signature)', 'struct builtins with fields (ComparisonOperator, Extremum, Group, the *Builtin wrappers are reached through their registrations) and struct-builtin kind tuples that call back into the evaluator (listed with the missing model)', 'builtins listed under not_encoded (reason given)', 'hangs other than fuel exhaustion',
                 'the panic obligations of the kernels of C01-C12/C15/C16 are discharged in those checks'],
        assumptions=['error constructors (NErr::*) are opaque: formatting of error messages is not executed', 'std/num contracts of the model table incl. their documented panics'],
        extra_cov={'builtins_total_with_closure_body': total, 'builtins_skipped_by_signature': len(skipped_sig), 'builtins_with_encoded_combinations': len(enc),
                   'builtins_not_encoded': dict(list(notenc.items())[:120]), 'sweep_detail': extras[:300]})
