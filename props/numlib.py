"""Symbolic numbers of every tower level, their mathematical value, and their rendering for native replay."""
import struct
from fractions import Fraction
import z3
from lib.common import *
from mirsym.core import DENOM, NUMER

LEVELS = ('IntSmall', 'IntBig', 'Rational', 'Float')
LEVELS_C = LEVELS + ('Complex',)

class SymNum:
    """a symbolic NNum: .obj (NNum Adt), .pre (constraints), level, and z3 handles"""
    def __init__(s, level, tag):
        s.level, s.tag = level, tag
        s.i = z3.Int('i' + tag); s.v = z3.Real('v' + tag); s.k = z3.Int('k' + tag); s.nz = z3.Bool('nz' + tag)
        s.v2 = z3.Real('w' + tag); s.k2 = z3.Int('l' + tag); s.nz2 = z3.Bool('mz' + tag)
        if level == 'IntSmall': s.pre = [in_i64(s.i)]
        elif level == 'IntBig': s.pre = []
        elif level == 'Rational': s.pre = [z3.Or(z3.IsInt(s.v), DENOM(s.v) > 1)]
        elif level == 'Float': s.pre = canon_float(s.k, s.v, s.nz)
        elif level == 'Complex': s.pre = canon_float(s.k, s.v, s.nz) + canon_float(s.k2, s.v2, s.nz2)
        else: raise ValueError(level)
    def obj(s):
        if s.level == 'IntSmall': return Adt('NNum', 'Int', [Adt('NInt', 'Small', [s.i])])
        if s.level == 'IntBig': return Adt('NNum', 'Int', [Adt('NInt', 'Big', [s.i])])
        if s.level == 'Rational': return Adt('NNum', 'Rational', [BoxV(Rat(s.v))])
        if s.level == 'Float': return Adt('NNum', 'Float', [F64(s.k, s.v, s.nz)])
        return Adt('NNum', 'Complex', [Adt('Complex', None, [F64(s.k, s.v, s.nz), F64(s.k2, s.v2, s.nz2)])])
    # ---- mathematical value as an extended real: (kind, real) with kind 0 NaN, 1 +inf, 2 -inf, 3 finite
    def kind(s): return s.k if s.level in ('Float', 'Complex') else z3.IntVal(3)
    def real(s):
        if s.level in ('IntSmall', 'IntBig'): return z3.ToReal(s.i)
        return s.v
    def is_int_level(s): return s.level in ('IntSmall', 'IntBig')
    def rank(s): return {'IntSmall': 0, 'IntBig': 0, 'Rational': 1, 'Float': 2, 'Complex': 3}[s.level]
    # ---- prefer small / dyadic models so that a counterexample is a real double and short to print
    def prefer(s):
        if s.is_int_level(): return [z3.And(s.i >= -40, s.i <= 40)], [z3.And(s.i >= -(1 << 70), s.i <= (1 << 70))]
        dy = lambda v, sc, bd: z3.And(z3.IsInt(v * sc), v >= -bd, v <= bd)
        if s.level == 'Rational': return [dy(s.v, 12, 40)], [dy(s.v, 720720, 1 << 40)]
        if s.level == 'Float': return [dy(s.v, 8, 40)], [dy(s.v, 1 << 20, 1 << 60)]
        return [z3.And(dy(s.v, 8, 40), dy(s.v2, 8, 40))], [z3.And(dy(s.v, 1 << 20, 1 << 60), dy(s.v2, 1 << 20, 1 << 60))]
    # ---- concrete rendering of a model
    def concrete(s, model):
        """-> (numspec for nlrun kernel mode, surface literal or None, python value description)"""
        if s.is_int_level():
            n = mval(model, s.i); return (('S' if s.level == 'IntSmall' else 'B') + str(n), fmt_int(n) if s.level == 'IntSmall' else fmt_big(n), n)
        if s.level == 'Rational':
            q = mval(model, s.v)
            if q is None: return None
            return (f'Q{q.numerator}/{q.denominator}', fmt_frac(q), q)
        def fl(k, v, nz):
            kk = mval(model, k)
            if kk == 0: return float('nan')
            if kk == 1: return float('inf')
            if kk == 2: return float('-inf')
            q = mval(model, v)
            if q is None: return None
            f = float(q)
            if Fraction(f) != q: return None          # not a double: cannot be replayed
            if q == 0 and mval(model, nz): return -0.0
            return f
        def bits(f): return '%016x' % struct.unpack('<Q', struct.pack('<d', f))[0]
        if s.level == 'Float':
            f = fl(s.k, s.v, s.nz)
            if f is None: return None
            return ('F' + bits(f), None, f)
        a, b = fl(s.k, s.v, s.nz), fl(s.k2, s.v2, s.nz2)
        if a is None or b is None: return None
        return (f'C{bits(a)},{bits(b)}', None, complex(a, b))

def canon_float(k, v, nz):
    """canonical abstract float: payload only when finite; sign-of-zero bit only at zero"""
    from mirsym.models import UF_RAT2F, UF_BIG2F
    # a finite double is a fixed point of the rounding conversions (Ratio::to_f64, BigInt::to_f64) that are otherwise uninterpreted
    return [k >= 0, k <= 3, z3.Implies(k != 3, v == 0), z3.Implies(z3.Or(k != 3, v != 0), z3.Not(nz)),
            UF_RAT2F(v) == v, z3.Implies(z3.IsInt(v), UF_BIG2F(z3.ToInt(v)) == v)]

def prefer_all(*nums):
    a = []; b = []; c = []
    for n in nums:
        p, q = n.prefer(); a += p; b += q
        # third choice: huge but still a double (a multiple of 2^12 below 2^75) / any integer
        if n.level in ('Float', 'Complex'):
            c.append(z3.And(z3.IsInt(n.v / 4096), n.v >= -(1 << 75), n.v <= (1 << 75)))
            if n.level == 'Complex': c.append(z3.And(z3.IsInt(n.v2 / 4096), n.v2 >= -(1 << 75), n.v2 <= (1 << 75)))
        elif n.level == 'Rational': c.append(z3.IsInt(n.v * 720720))
    return [a, b, c]

# order on extended reals (no NaN): -inf < finite < +inf
def ekey(k): return z3.If(k == 1, 1, z3.If(k == 2, -1, 0))
def ext_lt(k1, r1, k2, r2): return z3.Or(ekey(k1) < ekey(k2), z3.And(ekey(k1) == 0, ekey(k2) == 0, r1 < r2))
def ext_eq(k1, r1, k2, r2): return z3.And(ekey(k1) == ekey(k2), z3.Or(ekey(k1) != 0, r1 == r2))

def out_num(res):
    """decode an NNum result Adt -> (level, payload)"""
    if not (isinstance(res, Adt) and res.ty == 'NNum'): raise Missing(f'expected NNum, got {res!r}')
    if res.variant == 'Int': return 'Int', res.fields[0]
    if res.variant == 'Rational':
        b = res.fields[0]; r = b.cell.v if isinstance(b, BoxV) else b
        return 'Rational', r
    if res.variant == 'Float': return 'Float', res.fields[0]
    return 'Complex', res.fields[0]
