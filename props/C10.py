"""C10 — indexing and slicing follow Python semantics on every sequence kind.

K (Kani/CBMC over the compiled code): pythonic_index_isize, clamped_pythonic_index, pythonic_slice against Python's rule written
   in i128, for EVERY isize index and EVERY slice length 0..=isize::MAX (slice of zero-sized elements), overflow checks on.
M (mirsym over rustc MIR): the same three kernels on the overflow-checks=off dump (release profile) for lengths 0..N, and the
   Obj-level entry points index, slice_seq, linear_index_isize, obj_cyclic_index, safe_index, pythonic_mut for lists, vectors,
   bytes and ASCII strings of length 0..N with the index an arbitrary value of every kind (all integers in both representations,
   rationals, floats, null).  Oracle: norm(i, n), clamp(i, n) from DESIGN Appendix A.5."""
import os, re, subprocess, random, shutil, struct
import z3
from lib.common import *
from props.numlib import *

PROP = 'C10'
MIR = None; MIR_OFF = None
ISZ = (-(1 << 63), (1 << 63) - 1)

# ------------------------------------------------------------------------------------------------ K: Kani
KANI_HARNESSES = ['index_isize_matches_python', 'clamped_index_matches_python', 'slice_matches_python']

def py_norm(i, n):
    if 0 <= i < n: return i
    if -n <= i < 0: return n + i
    return None
def py_clamp(i, n): return min(i, n) if i >= 0 else max(n + i, 0)

def run_kani(tier):
    """returns (results list, violations list of replay specs, inconclusive list)"""
    kdir = os.path.join(VERIF, 'kani'); tgt = os.path.join(CACHE, 'kani-target')
    try: shutil.copy(os.path.join(REPO, 'Cargo.lock'), os.path.join(kdir, 'Cargo.lock'))
    except OSError: pass
    cap = 240 if tier == 'quick' else 900
    cmd = ['bash', '-c', f'ulimit -v 12000000; cd {kdir} && timeout {cap} cargo kani -Z stubbing -Z concrete-playback --concrete-playback=print --target-dir {tgt} 2>&1']
    t0 = time.time()
    with Lock('kani'):
        r = subprocess.run(cmd, env=ENV, capture_output=True, text=True)
    out = r.stdout; wall = time.time() - t0
    results, viol, inc = [], [], []
    blocks = re.split(r'\nChecking harness ', out)
    seen = set()
    for b in blocks[1:]:
        name = b.split('...')[0].strip().split('::')[-1]
        if name not in KANI_HARNESSES or name in seen: continue
        seen.add(name)
        ok_ = 'VERIFICATION:- SUCCESSFUL' in b; failed = 'VERIFICATION:- FAILED' in b
        covers = re.findall(r'Check \d+: [^\n]*\.cover\.\d+\s*\n\s*- Status: (\w+)', b)
        unwind_fail = bool(re.search(r'unwinding assertion[^\n]*\n[^\n]*\n?\s*- Status: FAILURE', b))
        stub_ok = ('Stub: std :: fmt :: format' in b) or name != 'index_isize_matches_python'
        tm = re.search(r'Verification Time: ([0-9.]+)s', b)
        res = {'harness': name, 'result': 'SUCCESSFUL' if ok_ else 'FAILED' if failed else 'INCONCLUSIVE', 'covers': covers, 'time_s': float(tm.group(1)) if tm else None, 'unwind': 2}
        results.append(res)
        if ok_:
            if not covers or any(c != 'SATISFIED' for c in covers): inc.append({'obligation': 'kani ' + name, 'reason': f'vacuity: cover results {covers}'})
            if not stub_ok: inc.append({'obligation': 'kani ' + name, 'reason': 'expected stub of std::fmt::format not applied'})
        elif failed:
            fc = re.findall(r'Failed Checks: ([^\n]*)', b)
            real = [c for c in fc if 'not currently supported' not in c and 'unsupported' not in c]
            if not real or unwind_fail: inc.append({'obligation': 'kani ' + name, 'reason': f'failed only on unsupported constructs / unwinding: {fc}'}); continue
            # concrete playback values for the failing assertion(s)
            specs = []
            for pb in re.finditer(r"Concrete playback unit test for `harness::" + name + r"`:\n```\n(.*?)```", out, re.S):
                body = pb.group(1)
                chk = re.search(r'Check for `(\w+)`: "([^"]*)"', body)
                if not chk or chk.group(1) == 'cover': continue
                vals = [bytes(int(x) for x in v.split(',')) for v in re.findall(r'vec!\[([0-9, ]+)\],', body)]
                specs.append((chk.group(2), vals))
            if not specs: inc.append({'obligation': 'kani ' + name, 'reason': f'FAILED ({real}) but no concrete playback values'}); continue
            for what, vals in specs[:3]:
                sp = kani_replay(name, vals)
                viol.append({'obligation': f'kani {name}: {what}', 'class': f'C10/kani/{name}', 'model': str([v.hex() for v in vals]), 'replay': sp})
        else:
            inc.append({'obligation': 'kani ' + name, 'reason': 'no verdict (timeout / out of memory / build error): ' + b[-300:].replace('\n', ' | ')})
    for h in KANI_HARNESSES:
        if h not in seen: inc.append({'obligation': 'kani ' + h, 'reason': 'harness did not run: ' + out[-400:].replace('\n', ' | ')})
    return results, viol, inc, wall

def kani_replay(name, vals):
    def i64(b): return struct.unpack('<q', b)[0]
    def u64(b): return struct.unpack('<Q', b)[0]
    try:
        if name == 'index_isize_matches_python':
            n, i = u64(vals[0]), i64(vals[1]); w = py_norm(i, n)
            return {'program': f'@pyindex {n} {i}', 'expect': {'equals': f'K Ok({w})' if w is not None else 'K Err'}}
        if name == 'clamped_index_matches_python':
            n, i = u64(vals[0]), i64(vals[1]); return {'program': f'@pyclamp {n} {i}', 'expect': {'equals': f'K {py_clamp(i, n)}'}}
        if name == 'slice_matches_python':
            n = u64(vals[0]); k = 1; lo = hi = None
            if vals[k][0]: lo = i64(vals[k + 1]); k += 2
            else: k += 1
            if vals[k][0]: hi = i64(vals[k + 1])
            l = py_clamp(lo, n) if lo is not None else 0; h = py_clamp(hi, n) if hi is not None else n
            return {'program': f'@pyslice {n} {"_" if lo is None else lo} {"_" if hi is None else hi}', 'expect': {'equals': f'K ({l}, {max(l, h)})'}}
    except Exception as e: return {'error': repr(e)}

# ------------------------------------------------------------------------------------------------ M: machine-word kernels, release profile (and dev)
def eng(off=False): return new_engine(MIR_OFF if off else MIR)
I = z3.Int('i'); LO = z3.Int('lo'); HI = z3.Int('hi')
def in_isz(v): return z3.And(v >= ISZ[0], v <= ISZ[1])
def z_norm(i, n): return z3.And(i >= -n, i < n), z3.If(i >= 0, i, i + n)
def z_clamp(i, n): return z3.If(i >= 0, z3.If(i < n, i, n), z3.If(n + i > 0, n + i, 0))

def shape_word(item, ob):
    kernel, n, off = item
    E = eng(off)
    xs = Seq([z3.IntVal(k) for k in range(n)])
    prof = 'release' if off else 'dev'
    if kernel == 'index':
        f = find_fn(E, 'pythonic_index_isize')
        def run(): E.assume(in_isz(I)); return E.run_fn(f, [Ref(Cell(xs)), I])
        def replay(model):
            i = mval(model, I); w = py_norm(i, n); return {'program': f'@pyindex {n} {i}', 'expect': {'equals': f'K Ok({w})' if w is not None else 'K Err'}}
        for pc, kind, res, lg in E.explore(run):
            ob.paths += 1; name = f'pythonic_index_isize[{prof}] len={n}'
            if kind == 'panic': ob.panic(name + ' panic-free', pc, res, replay=replay, cls=f'C10/pythonic_index_isize/panic'); continue
            if kind != 'ok': ob.missing(name, f'{kind}: {res}'); continue
            valid, pos = z_norm(I, n)
            goal = z3.And(valid, res.fields[0] == pos) if res.variant == 'Ok' else z3.Not(valid)
            ob.check(name + f' -> {res.variant}', pc, goal, replay=replay, cls='C10/pythonic_index_isize/value', sample='Ok(norm(i, n)) or index error'); ob.witness(res.variant)
    elif kernel == 'clamp':
        f = find_fn(E, 'clamped_pythonic_index')
        def run(): E.assume(in_isz(I)); return E.run_fn(f, [Ref(Cell(xs)), I])
        def replay(model):
            i = mval(model, I); return {'program': f'@pyclamp {n} {i}', 'expect': {'equals': f'K {py_clamp(i, n)}'}}
        for pc, kind, res, lg in E.explore(run):
            ob.paths += 1; name = f'clamped_pythonic_index[{prof}] len={n}'
            if kind == 'panic': ob.panic(name + ' panic-free', pc, res, replay=replay, cls='C10/clamped_pythonic_index/panic'); continue
            if kind != 'ok': ob.missing(name, f'{kind}: {res}'); continue
            ob.check(name, pc, res == z_clamp(I, n), replay=replay, cls='C10/clamped_pythonic_index/value', sample='clamp(i, n)'); ob.witness('value')
    else:
        f = find_fn(E, 'pythonic_slice')
        for hl in (False, True):
            for hh in (False, True):
                def run():
                    E.assume(in_isz(LO), in_isz(HI))
                    return E.run_fn(f, [Ref(Cell(xs)), opt(LO) if hl else opt(), opt(HI) if hh else opt()])
                def replay(model, hl=hl, hh=hh):
                    lo = mval(model, LO) if hl else None; hi = mval(model, HI) if hh else None
                    l = py_clamp(lo, n) if lo is not None else 0; h = py_clamp(hi, n) if hi is not None else n
                    return {'program': f'@pyslice {n} {"_" if lo is None else lo} {"_" if hi is None else hi}', 'expect': {'equals': f'K ({l}, {max(l, h)})'}}
                for pc, kind, res, lg in E.explore(run):
                    ob.paths += 1; name = f'pythonic_slice[{prof}] len={n} lo={"i" if hl else "_"} hi={"i" if hh else "_"}'
                    if kind == 'panic': ob.panic(name + ' panic-free', pc, res, replay=replay, cls='C10/pythonic_slice/panic'); continue
                    if kind != 'ok': ob.missing(name, f'{kind}: {res}'); continue
                    l = z_clamp(LO, n) if hl else z3.IntVal(0); h = z_clamp(HI, n) if hh else z3.IntVal(n)
                    goal = z3.And(res.fields[0] == l, res.fields[1] == z3.If(h > l, h, l))
                    ob.check(name, pc, goal, replay=replay, cls='C10/pythonic_slice/value', sample='(clamp(lo), max(clamp(lo), clamp(hi)))'); ob.witness('value')
    ob.absorb_engine(E)

# ------------------------------------------------------------------------------------------------ M: Obj-level entry points
KINDS = ('list', 'vector', 'bytes', 'string')
def elem(kind, k):
    """k-th element of the test sequence as (stored value, Obj the reads must return (a recogniser))"""
    if kind == 'list': return Adt('Obj', 'Num', [Adt('NNum', 'Int', [Adt('NInt', 'Small', [z3.IntVal(100 + k)])])])
    if kind == 'vector': return Adt('NNum', 'Int', [Adt('NInt', 'Small', [z3.IntVal(100 + k)])])
    return z3.IntVal(97 + k)     # bytes / ASCII string: 'a' + k
def mk_seq(kind, n):
    items = Seq([elem(kind, k) for k in range(n)])
    v = {'list': 'List', 'vector': 'Vector', 'bytes': 'Bytes', 'string': 'String'}[kind]
    return Adt('Seq', v, [RcV(RcObj(items))])
def src_seq(kind, n):
    if kind == 'list': return '[' + ', '.join(str(100 + k) for k in range(n)) + ']'
    if kind == 'vector': return 'V(' + ', '.join(str(100 + k) for k in range(n)) + ')'
    s = ''.join(chr(97 + k) for k in range(n))
    return f'B"{s}"' if kind == 'bytes' else f'"{s}"'
def show_elem(kind, k):
    if kind in ('list', 'vector'): return str(100 + k)
    if kind == 'bytes': return str(97 + k)
    return f'"{chr(97 + k)}"' if False else chr(97 + k)
def ident(kind, res):
    """which element index does a returned Obj denote? -> python int or None"""
    try:
        if kind in ('list', 'vector'):
            v = z3.simplify(res.fields[0].fields[0].fields[0]); return v.as_long() - 100
        if kind == 'bytes':
            v = z3.simplify(res.fields[0].fields[0].fields[0]); return v.as_long() - 97
        # string: Obj::Seq(Seq::String(Rc<String>)) holding one byte
        rc = res.fields[0].fields[0]; b = rc.obj.cell.v.fields
        return z3.simplify(b[0]).as_long() - 97 if len(b) == 1 else None
    except Exception: return None

IDX_KINDS = ('IntSmall', 'IntBig', 'Rational', 'Float', 'null')
def mk_index(kind_):
    if kind_ == 'null': return None, Adt('Obj', 'Null', []), []
    S = SymNum(kind_, 'x'); return S, Adt('Obj', 'Num', [S.obj()]), S.pre
def index_lit(S, kind_, model):
    if kind_ == 'null': return 'null', None
    c = S.concrete(model)
    if c is None: return None, None
    from props.C08 import lit
    return lit(c), c[2]

def string_models(E, callee, args, argtys, callee0):
    if callee in ('std::string::String::as_bytes', 'core::str::<impl str>::as_bytes', 'String::as_bytes') or re.fullmatch(r'<(std::string::)?String as Deref>::deref', callee): return args[0]
    if callee in ('std::string::String::from_utf8', 'String::from_utf8'):
        v = args[0]
        for b in v.fields:
            bs = z3.simplify(b)
            if not z3.is_int_value(bs) or bs.as_long() >= 128: raise Missing('from_utf8 on non-ASCII / symbolic bytes')
        return ok(v)
    if re.fullmatch(r'<Obj as From<(std::string::)?String>>::from', callee) and False: return NotImplemented
    return NotImplemented
def eng2(off=False): return new_engine(MIR_OFF if off else MIR, [string_models])

def shape_obj(item, ob):
    fn, kind, n, ik = item
    E = eng2()
    S, iobj, pre = mk_index(ik)
    seq = None
    if fn == 'index': f = find_fn(E, 'index', pred=lambda g: g.name.startswith('eval::') and len(g.params) == 2)
    elif fn == 'cyclic': f = find_fn(E, 'obj_cyclic_index')
    elif fn == 'safe': f = find_fn(E, 'safe_index')
    def run():
        E.assume(*pre)
        return E.run_fn(f, [Adt('Obj', 'Seq', [mk_seq(kind, n)]), iobj])
    opname = {'index': lambda s, i: f'{s}[{i}]', 'cyclic': lambda s, i: f'{s} !% {i}', 'safe': lambda s, i: f'{s} !? {i}'}[fn]
    def expected_py(v):
        """python oracle for a concrete index value v (int / Fraction / float / None)"""
        isint = isinstance(v, int)
        if fn == 'index':
            if not isint: return 'ERR'
            w = py_norm(v, n) if ISZ[0] <= v <= ISZ[1] else None
            return 'ERR' if w is None else w
        if fn == 'cyclic':
            if not isint or not (ISZ[0] <= v <= ISZ[1]) or n == 0: return 'ERR'
            return v % n
        if not isint or not (0 <= v < n): return 'null'
        return v
    def replay(model):
        l, v = index_lit(S, ik, model)
        if l is None: return None
        e = expected_py(v)
        if e == 'ERR': exp = {'prefix': 'ERR'}
        elif e == 'null': exp = {'equals': 'OK null'}
        else: exp = {'equals': 'OK ' + (show_elem(kind, e) if kind != 'string' else f'"{chr(97 + e)}"')}
        return {'program': opname(src_seq(kind, n), l), 'expect': exp}
    for pc, kd, res, lg in E.explore(run):
        ob.paths += 1; name = f'{fn} {kind}[{n}] index:{ik}'; pref = prefer_all(S) if S else ()
        if kd == 'panic': ob.panic(name + ' panic-free', pc, res, replay=replay, cls=f'C10/{fn}/panic', prefer=pref); continue
        if kd != 'ok': ob.missing(name, f'{kd}: {res}'); continue
        isint = ik in ('IntSmall', 'IntBig')
        iv = S.i if isint else None
        if fn == 'index':
            valid = z3.And(in_isz(iv), z_norm(iv, n)[0]) if isint else z3.BoolVal(False)
            pos = z_norm(iv, n)[1] if isint else None
        elif fn == 'cyclic':
            valid = z3.And(in_isz(iv), z3.BoolVal(n > 0)) if isint else z3.BoolVal(False)
            pos = (iv % n) if (isint and n > 0) else None
        else:
            valid = z3.And(iv >= 0, iv < n) if isint else z3.BoolVal(False); pos = iv
        if res.variant == 'Err':
            goal = z3.Not(valid) if fn != 'safe' else z3.BoolVal(False)
        else:
            o = res.fields[0]
            if fn == 'safe' and o.variant == 'Null': goal = z3.Not(valid)
            else:
                k = ident(kind, o)
                goal = z3.BoolVal(False) if (k is None or pos is None) else z3.And(valid, pos == k)
        ob.check(name + f' -> {res.variant}', pc, goal, replay=replay, cls=f'C10/{fn}/{kind}', prefer=pref, sample=f'{fn}: element norm(i, n) or the documented failure'); ob.witness(res.variant)
    ob.absorb_engine(E)

def shape_slice(item, ob):
    kind, n, lk, hk = item         # lk/hk in {'none','IntSmall','IntBig','Float','null'}
    E = eng2()
    f = find_fn(E, 'slice_seq')
    def mk(k, tag):
        if k == 'none': return None, opt(), []
        if k == 'null': return None, opt(Adt('Obj', 'Null', [])), []
        S = SymNum(k, tag); return S, opt(Adt('Obj', 'Num', [S.obj()])), S.pre
    SL, lo, pl = mk(lk, 'l'); SH, hi, ph = mk(hk, 'h')
    def run():
        E.assume(*pl, *ph); return E.run_fn(f, [mk_seq(kind, n), lo, hi])
    def bound(S, k):
        """(is usable bound, z3 clamp or default)"""
        if k == 'none': return z3.BoolVal(True), None
        if k in ('IntSmall', 'IntBig'): return in_isz(S.i), S.i
        return z3.BoolVal(False), None
    okl, il = bound(SL, lk); okh, ih = bound(SH, hk)
    def replay(model):
        from props.C08 import lit
        def one(S, k):
            if k == 'none': return '', None, True
            if k == 'null': return 'null', None, False
            c = S.concrete(model)
            if c is None: return None, None, False
            return lit(c), c[2], isinstance(c[2], int) and ISZ[0] <= c[2] <= ISZ[1]
        a, av, aok = one(SL, lk); b, bv, bok = one(SH, hk)
        if a is None or b is None: return None
        prog = f'{src_seq(kind, n)}[{a}:{b}]'
        if not (aok and bok): return {'program': prog, 'expect': {'prefix': 'ERR'}}
        l = py_clamp(av, n) if av is not None else 0; h = py_clamp(bv, n) if bv is not None else n; h = max(l, h)
        items = [show_elem(kind, k) for k in range(l, h)]
        if kind == 'list': exp = 'OK [' + ', '.join(items) + ']'
        elif kind == 'vector': exp = 'OK V(' + ', '.join(items) + ')'
        elif kind == 'bytes': exp = 'OK B[' + ','.join(items) + ']'
        else: exp = 'OK "' + ''.join(chr(97 + k) for k in range(l, h)) + '"'
        return {'program': prog, 'expect': {'equals': exp}, 'loose': kind in ('bytes', 'string')}
    for pc, kd, res, lg in E.explore(run):
        ob.paths += 1; name = f'slice_seq {kind}[{n}] [{lk}:{hk}]'; pref = prefer_all(*[s for s in (SL, SH) if s])
        if kd == 'panic': ob.panic(name + ' panic-free', pc, res, replay=replay, cls='C10/slice_seq/panic', prefer=pref); continue
        if kd != 'ok': ob.missing(name, f'{kd}: {res}'); continue
        usable = z3.And(okl, okh)
        if res.variant == 'Err': goal = z3.Not(usable)
        else:
            # extract the element identities of the result
            o = res.fields[0]
            try:
                rc = o.fields[0].fields[0]; got = rc.obj.cell.v.fields
                if kind == 'list': ks = [z3.simplify(g.fields[0].fields[0].fields[0]).as_long() - 100 for g in got]
                elif kind == 'vector': ks = [z3.simplify(g.fields[0].fields[0]).as_long() - 100 for g in got]
                else: ks = [z3.simplify(g).as_long() - 97 for g in got]
            except Exception as e: ks = None
            if ks is None: goal = z3.BoolVal(False)
            else:
                l = z_clamp(il, n) if il is not None else z3.IntVal(0); h = z_clamp(ih, n) if ih is not None else z3.IntVal(n)
                h = z3.If(h > l, h, l)
                contiguous = all(b == a + 1 for a, b in zip(ks, ks[1:]))
                if not contiguous: goal = z3.BoolVal(False)
                elif ks: goal = z3.And(usable, l == ks[0], h == ks[-1] + 1)
                else: goal = z3.And(usable, l == h)
        ob.check(name + f' -> {res.variant}', pc, goal, replay=replay, cls=f'C10/slice_seq/{kind}', prefer=pref, sample='s[a:b] == elements clamp(a) .. max(clamp(a), clamp(b))'); ob.witness(res.variant)
    ob.absorb_engine(E)

def run_shape(item, ob):
    if item[0] == 'pair':
        from props import equiv
        equiv.MIR = MIR; return equiv.run_item(item, ob)
    fam, payload = item
    {'word': shape_word, 'obj': shape_obj, 'slice': shape_slice}[fam](payload, ob)

def main(tier, seed, t0):
    global MIR, MIR_OFF
    MIR, th = load_mir('on'); MIR_OFF, th2 = load_mir('off')
    N = 3 if tier == 'quick' else 5
    items = []
    for kernel in ('index', 'clamp', 'slice'):
        for n in range(N + 1):
            items.append(('word', (kernel, n, True)))
            if n <= 2: items.append(('word', (kernel, n, False)))
    rnd = random.Random(seed)
    for fn in ('index', 'cyclic', 'safe'):
        for kind in KINDS:
            for n in range(N + 1):
                for ik in IDX_KINDS: items.append(('obj', (fn, kind, n, ik)))
    bk = ('none', 'IntSmall', 'IntBig', 'Float', 'null')
    for kind in KINDS:
        for n in range(N + 1):
            combos = [(a, b) for a in bk for b in bk]
            if tier == 'quick': combos = [c for c in combos if c[0] in ('none', 'IntSmall', 'IntBig') and c[1] in ('none', 'IntSmall', 'IntBig')] + rnd.sample([c for c in combos if 'Float' in c or 'null' in c], 3)
            for a, b in combos: items.append(('slice', (kind, n, a, b)))
    rnd.shuffle(items)
    # Kani runs concurrently with the mirsym workers (one core)
    import threading
    kres = {}
    th_k = threading.Thread(target=lambda: kres.update(zip(('results', 'viol', 'inc', 'wall'), run_kani(tier))))
    th_k.start()
    from props import equiv
    equiv.MIR = MIR; equiv.preparse('C10'); items += equiv.items_for('C10')          # statement-level equivalences (props/equiv.py family C10)
    merged, per = pmap(run_shape, items, tier, jobs=max(2, NCPU - 2))
    th_k.join()
    merged['viol'] += kres.get('viol', []); merged['inconclusive'] += kres.get('inc', [{'obligation': 'kani', 'reason': 'kani thread failed'}])
    merged['n'] += len(KANI_HARNESSES); merged['discharged'] += sum(1 for r in kres.get('results', []) if r['result'] == 'SUCCESSFUL')
    return finish(PROP, tier, seed, merged, t0, th=th, kani=kres.get('results', []),
        kernels=['core.rs: pythonic_index_isize, clamped_pythonic_index, pythonic_slice (Kani: all lengths; mirsym: release profile), pythonic_index, obj_to_isize_slice_index, pythonic_slice_obj',
                 'eval.rs: index, slice_seq, weird_string_as_bytes_index, soft_from_utf8', 'lib.rs: obj_cyclic_index, cyclic_index, safe_index, safe_index_inner'],
        bounds={'kani': 'every isize index/bound, every length 0..=isize::MAX, overflow checks on (dev profile), unwind 2 (loop-free kernels, unwinding assertions on)',
                'mirsym': f'lengths 0..{N}; index/bounds: every integer in both representations, rationals, floats, null, omitted; release profile (overflow-checks=off dump) for the word kernels'},
        outside=['streams (C11)', 'non-ASCII strings (byte indexing goes through std from_utf8)', 'take/drop/first/last/... builtins (one-line closures over these kernels)', 'dict indexing (C09)'],
        assumptions=['Kani/CBMC models the dev profile; std::fmt::format stubbed (error messages only)', 'num-bigint to_isize contract'],
        extra_cov={'kani_wall_s': round(kres.get('wall', 0), 1)})
