"""C17 — freeze preserves meaning and binds free variables eagerly (statement level, bounded program family).

The real `evaluate` (Expr::Freeze -> core::freeze / freeze_lvalue / FreezeEnv, then Expr::Frozen at use) runs on the parse trees of a
family of programs `… f := freeze \\a, b -> BODY; …; f(x, y)` with symbolic integer inputs (statement-level harness, props/evalh.py).
Oracle: the reference interpreter of C05 extended with the documented meaning of `freeze`: the frozen function computes what the
unfrozen one computes from the values its free variables had at freeze time (later reassignment of an outer variable is not seen);
freezing raises at once when the body mentions an unbound name or assigns to an outer variable.  Every implementation path must
agree with the reference on value / raised-or-not / printed output, for all x, y."""
import z3
from lib.common import *
from props import evalh, C05
from props.C05 import N, V, B, SEQ, LAM, X, Y, RErr, RBrk, RCont, RRet, Scope, Clo

PROP = 'C17'
MIR = None

_orig_src = C05.src
def src(p, top=True):
    """C05's printer plus the `freeze` node (C05.src recurses through its module-level name, which is redirected here)"""
    if p[0] == 'freeze': return '(freeze ' + src(p[1], False) + ')'
    return _orig_src(p, top)
C05.src = src

# ------------------------------------------------------------------------------------------------ free-variable analysis over the DSL
def names(p, bound, free, assigned):
    """collect free variable uses and assignments to names not bound inside (bound: set of names declared so far in this lambda)"""
    k = p[0]
    if k in ('num', 'null', 'opref'): return
    if k == 'var':
        if p[1] not in bound: free.add(p[1])
        return
    if k == 'decl': names(p[2], bound, free, assigned); bound.add(p[1]); return
    if k in ('set', 'opset'):
        if p[1] not in bound: assigned.add(p[1])
        names(p[-1], bound, free, assigned); return
    if k in ('for', 'foryield'):
        names(p[2], bound, free, assigned); b2 = set(bound) | {p[1]}
        for q in p[3:]:
            if q is not None: names(q, b2, free, assigned)
        return
    if k == 'lam':
        b2 = set(bound)
        for n, d in p[1]:
            if d is not None: names(d, b2, free, assigned)
            b2.add(n)
        names(p[2], b2, free, assigned); return
    if k == 'try': names(p[1], set(bound), free, assigned); names(p[3], set(bound) | {p[2]}, free, assigned); return
    if k == 'seq':
        for q in p[1]: names(q, bound, free, assigned)
        return
    if k == 'bin': free.add(p[1]); names(p[2], bound, free, assigned); names(p[3], bound, free, assigned); return
    if k == 'list':
        for q in p[1]: names(q, bound, free, assigned)
        return
    if k == 'call':
        names(p[1], bound, free, assigned)
        for q in p[2]: names(q, bound, free, assigned)
        return
    if k == 'break':
        if p[2] is not None: names(p[2], bound, free, assigned)
        return
    if k == 'continue': return
    if k == 'print': free.add('print'); names(p[1], bound, free, assigned); return
    for q in p[1:]:
        if isinstance(q, tuple) and q and isinstance(q[0], str): names(q, bound, free, assigned)

BUILTIN_NAMES = {'+', '-', '*', '<', '>', '<=', '>=', '==', '!=', 'print'}
class FRef(C05.Ref):
    def ev(s, p, sc):
        if p[0] == 'freeze':
            lam = p[1]; free, assigned = set(), set()
            names(lam, set(), free, assigned)
            if assigned: raise RErr('error')                               # a frozen body may not assign to an outer variable
            snap = Scope()
            for n in free:
                if n in BUILTIN_NAMES: continue
                c = sc.find(n)
                if c is None: raise RErr('error')                           # unbound free variable: freezing fails immediately
                snap.vars[n] = [c[0]]                                       # resolved once, at freeze time
            return Clo(lam[1], lam[2], snap)
        return super().ev(p, sc)

def ref_outcomes(prog, pre):
    outs = []; stack = [[]]
    while stack:
        dec = stack.pop(); r = FRef(list(dec)); n0 = len(dec)
        top = Scope(); top.vars['x'] = [X]; top.vars['y'] = [Y]
        try: o = ('val', r.ev(prog, Scope(top)))
        except RErr as e:
            if e.kind == 'fuel': raise Missing('reference interpreter: fuel exhausted')
            o = ('throw', e.val) if e.kind == 'throw' else ('error',)
        except (RBrk, RCont): o = ('error',)
        except RRet as e: o = ('val', e.val)
        cond = z3.And(*r.conds) if r.conds else z3.BoolVal(True)
        sv = z3.Solver(); sv.set('timeout', 3000); sv.add(*pre, cond)
        if sv.check() != z3.unsat: outs.append((cond, o, list(r.out)))
        for i in range(n0, len(r.dec)): stack.append(r.dec[:i] + [False])
        if len(outs) > 400: raise Missing('reference interpreter: too many cases')
    return outs

def FZ(params, body): return ('freeze', LAM(params, body))
def family():
    P = []
    a, b, g, h, f = V('a'), V('b'), V('g'), V('h'), V('f')
    L123 = ('list', [N(1), N(2), N(3)])
    bodies = [
        B('+', B('*', a, N(2)), b),
        ('if', B('<', a, b), a, b),
        SEQ(('decl', 't', N(0)), ('for', 'i', L123, ('opset', 't', '+', B('*', V('i'), a))), V('t')),
        SEQ(('decl', 't', N(0)), ('decl', 'k', N(0)), ('while', B('<', V('k'), N(3)), SEQ(('opset', 'k', '+', N(1)), ('if', B('==', V('k'), a), ('continue', 0), None), ('opset', 't', '+', V('k')))), V('t')),
        ('foryield', 'i', L123, B('!=', V('i'), a), B('+', V('i'), b)),
        ('try', ('if', B('<', a, N(0)), ('throw', a), B('+', a, N(1))), 'e', B('*', V('e'), N(-1))),
        SEQ(('decl', 'q', LAM(['m'], B('+', V('m'), a))), ('call', V('q'), [b])),
        ('for', 'i', L123, ('if', B('==', V('i'), a), ('break', 0, B('*', V('i'), b)), None)),
        ('and', a, b), ('or', a, ('throw', b)), ('coalesce', ('null',), a),
        SEQ(('print', a), ('print', b), B('-', a, b)),
        # free variables: outer data and an outer function
        B('+', B('*', a, g), ('call', h, [b])),
        SEQ(('decl', 'g', B('+', g, N(1))), B('*', g, a)) if False else B('*', g, a),
        # local declarations shadowing an outer name
        SEQ(('decl', 'g', B('+', a, N(1))), B('*', g, b)),
    ]
    pre = [('decl', 'g', N(7)), ('decl', 'h', LAM(['k'], B('*', V('k'), N(3))))]
    for body in bodies:
        P.append(SEQ(*pre, ('decl', 'f', FZ(['a', 'b'], body)), ('call', f, [V('x'), V('y')])))
    # eager binding: a later reassignment of an outer variable (data or function) is not seen by the frozen function
    P += [SEQ(('decl', 'g', N(1)), ('decl', 'f', FZ([], g)), ('set', 'g', V('x')), ('list', [('call', f, []), g])),
          SEQ(('decl', 'g', V('x')), ('decl', 'f', FZ(['a'], B('+', a, g))), ('opset', 'g', '+', N(100)), ('call', f, [V('y')])),
          SEQ(('decl', 'h', LAM(['k'], B('+', V('k'), N(1)))), ('decl', 'f', FZ(['a'], ('call', h, [a]))), ('set', 'h', LAM(['k'], B('*', V('k'), N(50)))), ('call', f, [V('x')])),
          SEQ(('decl', 'g', N(1)), ('decl', 'f', LAM([], g)), ('set', 'g', V('x')), ('call', f, []))]          # control: the unfrozen closure sees the reassignment
    # freezing fails immediately: unbound free variable, assignment to an outer variable — even if the function is never called
    P += [SEQ(('decl', 'f', FZ([], V('qq'))), N(5)), SEQ(('decl', 'g', N(1)), ('decl', 'f', FZ([], ('set', 'g', N(2)))), N(5)),
          SEQ(('decl', 'g', N(1)), ('decl', 'f', FZ([], ('opset', 'g', '+', N(2)))), N(5)),
          ('try', SEQ(('decl', 'f', FZ(['a'], B('+', a, V('qq')))), N(5)), 'e', N(-1)),
          SEQ(('decl', 'f', FZ(['a'], SEQ(('decl', 'loc', a), ('set', 'loc', B('+', V('loc'), N(1))), V('loc')))), ('call', f, [V('x')]))]          # assigning to its own local is fine
    return P

def shape_program(item, ob):
    idx, = item
    prog = family()[idx]; text = src(prog)
    E = evalh.eng(MIR); ast, = evalh.parse_programs([text])
    pre = [in_i64(X), in_i64(Y)]
    outcomes = ref_outcomes(prog, pre)
    def run():
        E.assume(*pre)
        return evalh.run_program(E, ast, evalh.top_env({'x': evalh.num(X), 'y': evalh.num(Y)}))
    def replay(model):
        x, y = mval(model, X), mval(model, Y); exp = None
        for c, o, out in outcomes:
            if z3.is_true(model.eval(c, model_completion=True)): exp = (o, out)
        if exp is None: return None
        o, out = exp
        def wrap(body): return f'out := []; (\\x, y, print -> {body})({fmt_int(x)}, {fmt_int(y)}, \\v -> (out append= v; null))'
        outs = [C05.render(v, model) for v in out]
        if any(q is None for q in outs): return None
        if o[0] == 'val':
            r = C05.render(o[1], model)
            if r is None: return None
            return {'program': wrap(f'try [({text}), out] catch e__ -> "raised"'), 'expect': {'equals': f'OK [{r}, [' + ', '.join(outs) + ']]'}}
        return {'program': wrap(f'try [({text}), out] catch e__ -> ["raised", out]'), 'expect': {'equals': 'OK ["raised", [' + ', '.join(outs) + ']]'}}
    pref = [[z3.And(X >= -3, X <= 4, Y >= -3, Y <= 4)]]
    for pc, kd, res, lg in E.explore(run, max_paths=600):
        ob.paths += 1; name = f'program #{idx}: {text[:100]}'
        if kd == 'panic': ob.panic(name + ' panic-free', pc, res, replay=replay, cls='C17/panic', prefer=pref); continue
        if kd != 'ok': ob.missing(name, f'{kd}: {res}'); continue
        printed = [l[1][0] for l in lg if l[0] == 'print']
        clauses = []
        for c, o, out in outcomes:
            outm = z3.And(*[C05.val_eq(p_, q_) for p_, q_ in zip(printed, out)]) if len(printed) == len(out) and out else z3.BoolVal(len(printed) == len(out))
            if o[0] == 'val': m_ = z3.And(C05.val_eq(res.fields[0], o[1]), outm) if res.variant == 'Ok' else z3.BoolVal(False)
            elif o[0] == 'throw':
                e = res.fields[0] if res.variant == 'Err' else None
                m_ = z3.And(C05.val_eq(e.fields[0], o[1]), outm) if e is not None and e.variant == 'Throw' and isinstance(e.fields[0], Adt) else z3.BoolVal(e is not None and e.variant == 'Throw')
            else: m_ = z3.And(z3.BoolVal(res.variant == 'Err'), outm)
            clauses.append(z3.Implies(c, m_))
        ob.check(name + ' agrees with the reference (frozen = unfrozen on freeze-time values)', pc, z3.And(*clauses) if clauses else z3.BoolVal(False), replay=replay, cls='C17/outcome', prefer=pref,
                 sample='value / raised-or-not / printed output of the frozen function equal the documented semantics'); ob.witness(res.variant)
    ob.absorb_engine(E)

def run_shape(item, ob):
    if item[0] == 'pair':
        from props import equiv
        equiv.MIR = MIR; return equiv.run_item(item, ob)
    shape_program(item[1], ob)

def main(tier, seed, t0):
    global MIR
    MIR, th = load_mir('on')
    fam = family(); evalh.parse_programs([src(p) for p in fam])
    items = [('program', (i,)) for i in range(len(fam))]
    # differential family: a frozen function vs the unfrozen one on bodies given as source text (literals, constant folding, switch)
    from props import equiv
    equiv.preparse('C17'); items += equiv.items_for('C17')
    merged, per = pmap(run_shape, items, tier)
    return finish(PROP, tier, seed, merged, t0, th=th,
        kernels=['core.rs: freeze, freeze_lvalue, FreezeEnv, Expr::constant_value', 'eval.rs: evaluate (Expr::Freeze, Expr::Frozen and the arms the frozen bodies use)'],
        bounds={'programs': f'{len(fam)} programs: a lambda of two parameters frozen over {15} bodies (arithmetic, if, for, while with continue, for-yield with guard, try / throw, nested lambda, break with value, and / or / coalesce, print, free outer data and an outer function, shadowing local), '
                            'eager-binding programs (outer data / function reassigned after the freeze) and freeze-time failures (unbound name, assignment to an outer variable)', 'inputs': 'x, y: every i64 value'},
        outside=['switch, struct definitions, import, bare underscore, operators with changed precedence inside frozen code, constant folding of list literals', 'programs outside the family'],
        assumptions=['as C05: comparison operators and print are stub builtins; RefCell borrow flags are not modelled; error messages are opaque'])
