"""C12 — patterns, destructuring and runtime type annotations (pattern-matcher and type-predicate layer).

Symbolic execution of the real MIR of
  (T) eval::is_type, core::type_of, core::call_type1 on every value kind x every builtin type: `v is type(v)`, `v is anything`,
      `v is T` exactly for the documented classification, `T(v) is T` for the numeric conversion functions;
  (D) Builtin::destructure of Plus, Minus, Times, Divide, Append, Prepend: a successful destructuring inverts the constructor
      (x + k == r, x * k == r, -x == r, n / d == r, init +. last == r, head .+ tail == r), never panics;
  (P) eval::assign (with assign_all, assign_all_basic, insert_declare, to_type, is_type, the destructure impls, Obj equality)
      on a family of pattern shapes x value shapes with symbolic numbers: the environment write (Env::insert) and default-expression
      evaluation are recorders, so the observable is the sequence of (name, declared type, value) declarations.  Oracle: a
      reference matcher written from the documented rules, evaluated symbolically; every implementation path must agree with
      it on match / no match and on the value bound to every name; no path panics.
Outside: assignment to existing variables (assign_respecting_type and the later-assignment type checks need the environment),
struct patterns, comparison-operator patterns, `satisfying` types, switch arm selection, catch."""
import itertools, random
import z3
from lib.common import *
from props.numlib import *
from props.C08 import lit
from props import C14

PROP = 'C12'
MIR = None

# ------------------------------------------------------------------------------------------------ values
def objnum(n): return Adt('Obj', 'Num', [n])
def small(v): return objnum(Adt('NNum', 'Int', [Adt('NInt', 'Small', [v])]))
def big(v): return objnum(Adt('NNum', 'Int', [Adt('NInt', 'Big', [v])]))
def olist(items): return Adt('Obj', 'Seq', [Adt('Seq', 'List', [RcV(RcObj(Seq(list(items))))])])
def otype(name, *f): return Adt('ObjType', name, list(f))
def struct_adt(sid): return Adt('Struct', None, [z3.IntVal(sid), RcV(RcObj(Seq([z3.IntVal(70)]))), RcV(RcObj(Seq([])))])
def string_seq(s): return Seq([z3.IntVal(ord(c)) for c in s])
ENV = lambda: Ref(Cell(RcV(RcObj(Adt('Env', None, [])))), [])

VKINDS = C14.KINDS + ('Complex', 'func', 'typefunc', 'instance', 'stream')
def mkval(kind, tag):
    """-> (Obj, preconditions, render(model) -> noulith source or None)"""
    if kind in C14.KINDS:
        m = C14.mk_arg(kind, tag, 'core::Obj'); return m[0], m[1], (lambda model, k=kind, s=m[2]: C14.render(k, s, model))
    if kind == 'Complex':
        S = SymNum('Complex', tag)
        def r(model):
            c = S.concrete(model)
            if c is None: return None
            a, b = lit((None, None, c[2].real)), lit((None, None, c[2].imag))
            return None if a is None or b is None else f'({a} + {b} * 1i)'
        return objnum(S.obj()), S.pre, r
    if kind == 'func': return Adt('Obj', 'Func', [Adt('Func', 'Builtin', [RcV(RcObj(Adt('StubBuiltin', None, ['f'])))]), Opaque('prec')]), [], (lambda model: 'print')
    if kind == 'typefunc': return Adt('Obj', 'Func', [Adt('Func', 'Type', [otype('Int')]), Opaque('prec')]), [], (lambda model: 'int')
    if kind == 'instance': return Adt('Obj', 'Instance', [struct_adt(7), BoxV(Seq([small(z3.IntVal(1))]))]), [], (lambda model: 'Foo(1)')
    if kind == 'stream': return Adt('Obj', 'Seq', [Adt('Seq', 'Stream', [RcV(RcObj(Adt('StubStream', None, [])))])]), [], (lambda model: '(1 to 3)')
    raise ValueError(kind)

BASE = {'null': 'Null', 'IntSmall': 'Int', 'IntBig': 'Int', 'Rational': 'Rational', 'Float': 'Float', 'Complex': 'Complex', 'str': 'String', 'list': 'List', 'elist': 'List',
        'vector': 'Vector', 'bytes': 'Bytes', 'dict': 'Dict', 'stream': 'Stream', 'func': 'Func', 'typefunc': 'Type', 'instance': 'StructInstance'}
TYPES = ('Null', 'Int', 'Rational', 'Float', 'Complex', 'Number', 'List', 'String', 'Dict', 'Vector', 'Bytes', 'Stream', 'Func', 'Type', 'Any', 'StructInstance', 'Struct:7', 'Struct:8')
TNAME = {'Null': 'nulltype', 'Int': 'int', 'Rational': 'rational', 'Float': 'float', 'Complex': 'complex', 'Number': 'number', 'List': 'list', 'String': 'str', 'Dict': 'dict',
         'Vector': 'vector', 'Bytes': 'bytes', 'Stream': 'stream', 'Func': 'func', 'Type': 'type', 'Any': 'anything', 'StructInstance': 'type(Foo(0))', 'Struct:7': 'Foo', 'Struct:8': 'Bar'}
def mktype(t):
    if t.startswith('Struct:'): return otype('Struct', struct_adt(int(t[7:])))
    return otype(t)
def classifies(t, kind):
    """the documented classification: a value belongs to its own type, numbers to `number`, types (conversion functions) to `func`, everything to `anything`"""
    b = BASE[kind]
    return t == 'Any' or t == b or (t == 'Number' and b in ('Int', 'Rational', 'Float', 'Complex')) or (t == 'Func' and b == 'Type') or (t == 'Struct:7' and kind == 'instance')
PRELUDE = 'struct Foo(a); struct Bar(b); '

def eng():
    from props.C07 import complex_models
    return new_engine(MIR, [C14.extra_models, complex_models])

# ------------------------------------------------------------------------------------------------ (T) type predicate / type-of / conversions
def shape_istype(item, ob):
    kind, t = item
    E = eng(); f_is = find_fn(E, 'is_type'); f_of = find_fn(E, 'type_of')
    holder = {}
    def run():
        v, pre, rend = mkval(kind, 'x'); holder['r'] = rend; E.assume(*pre)
        vc = Cell(v)
        if t == 'typeof':
            ty = E.run_fn(f_of, [Ref(vc)]); return ty, E.run_fn(f_is, [Ref(Cell(ty)), Ref(vc)])
        return None, E.run_fn(f_is, [Ref(Cell(mktype(t))), Ref(vc)])
    want = True if t == 'typeof' else classifies(t, kind)
    def replay(model):
        src = holder['r'](model)
        if src is None: return None
        tn = f'type({src})' if t == 'typeof' else TNAME[t]
        return {'program': PRELUDE + f'({src}) is {tn}', 'expect': {'equals': f'OK {1 if want else 0}'}}
    for pc, kd, res, lg in E.explore(run):
        ob.paths += 1; name = f'is_type({t}, {kind})'
        if kd == 'panic': ob.panic(name + ' panic-free', pc, res, replay=replay, cls='C12/is_type/panic'); continue
        if kd != 'ok': ob.missing(name, f'{kd}: {res}'); continue
        ty, r = res
        goal = z3.And(z3.BoolVal(r.variant == 'Ok'), r.fields[0] == z3.BoolVal(want)) if r.variant == 'Ok' else z3.BoolVal(False)
        if t == 'typeof': goal = z3.And(goal, z3.BoolVal(ty.variant == BASE[kind]))
        ob.check(name + (' == type_of agrees' if t == 'typeof' else f' == {want}'), pc, goal, replay=replay, cls=f'C12/is_type/{"type_of" if t == "typeof" else t} on {BASE[kind]}',
                 sample='v is type(v); v is T exactly for the documented classification'); ob.witness(str(want))
    ob.absorb_engine(E)

def shape_convert(item, ob):
    t, level = item
    E = eng(); f_is = find_fn(E, 'is_type'); f_conv = find_fn(E, 'call_type1')
    S = SymNum(level, 'x')
    def run():
        E.assume(*S.pre)
        r = E.run_fn(f_conv, [Ref(Cell(otype(t))), objnum(S.obj())])
        if r.variant != 'Ok': return r, None
        return r, E.run_fn(f_is, [Ref(Cell(otype(t))), Ref(Cell(r.fields[0]))])
    def replay(model):
        c = S.concrete(model)
        if c is None: return None
        l = lit(c)
        if l is None: return None
        return {'program': f'try ({TNAME[t]}({l}) is {TNAME[t]}) catch e -> 1', 'expect': {'equals': 'OK 1'}}
    for pc, kd, res, lg in E.explore(run):
        ob.paths += 1; name = f'{TNAME[t]}({level}) is {TNAME[t]}'; pref = prefer_all(S)
        if kd == 'panic': ob.panic(name + ' panic-free', pc, res, replay=replay, cls='C12/convert/panic', prefer=pref); continue
        if kd != 'ok': ob.missing(name, f'{kd}: {res}'); continue
        r, ok2 = res
        goal = z3.BoolVal(True) if ok2 is None else (ok2.fields[0] if ok2.variant == 'Ok' else z3.BoolVal(False))
        ob.check(name, pc, goal, replay=replay, cls='C12/convert/classified', prefer=pref, sample='a conversion function returns a value of its type or raises'); ob.witness(r.variant)
    ob.absorb_engine(E)

# ------------------------------------------------------------------------------------------------ (D) destructure inverts the constructor
def impl_destructure(E, struct):
    fs = [f for f in E.by_last.get('destructure', []) if f.params and re.sub(r'^&', '', norm(f.params[0][1])) == struct]
    if len(fs) != 1: raise Missing(f'{struct}::destructure not found uniquely ({len(fs)})')
    return fs[0]
def numval(o):
    """(is_exact, real value term) of an Obj::Num result, or None"""
    if not (isinstance(o, Adt) and o.ty == 'Obj' and o.variant == 'Num'): return None
    lvl, pay = out_num(o.fields[0])
    if lvl == 'Int': return z3.ToReal(pay.fields[0])
    if lvl == 'Rational': return pay.v
    return None
def shape_destructure_num(item, ob):
    struct, slot, lr, la = item          # slot: which argument is the literal (0 / 1 / None for unary)
    E = eng(); f = impl_destructure(E, struct)
    R, A = SymNum(lr, 'r'), SymNum(la, 'a')
    def run():
        E.assume(*R.pre, *A.pre)
        if lr == 'Rational':      # num-rational contract: numer / denom is the value, denom >= 1 (the two accessors are otherwise uninterpreted)
            E.assume(DENOM(R.v) >= 1, z3.ToReal(NUMER(R.v)) == R.v * z3.ToReal(DENOM(R.v)))
        if struct == 'Minus': lhs = Seq([opt()])
        elif struct == 'Divide': lhs = Seq([opt(), opt()])
        else: lhs = Seq([opt(objnum(A.obj())), opt()] if slot == 0 else [opt(), opt(objnum(A.obj()))])
        return E.run_fn(f, [Ref(Cell(Adt(struct, None, []))), objnum(R.obj()), lhs])
    op = {'Plus': '+', 'Times': '*', 'Minus': '-', 'Divide': '/'}[struct]
    def replay(model):
        cr, ca = R.concrete(model), A.concrete(model)
        if cr is None or ca is None: return None
        l_r, l_a = lit(cr), lit(ca)
        if l_r is None or l_a is None: return None
        if struct == 'Minus': pat, rebuilt = '-x', '-x'
        elif struct == 'Divide': pat, rebuilt = 'x / y', 'x / y'
        elif slot == 0: pat, rebuilt = f'{l_a} {op} x', f'{l_a} {op} x'
        else: pat, rebuilt = f'x {op} {l_a}', f'x {op} {l_a}'
        if struct in ('Plus', 'Times') and ca[1] is None: return None          # only literal patterns can be written in source
        return {'program': f'try (switch ({l_r}) case {pat} -> ({rebuilt}) == ({l_r}) case _ -> 1) catch e -> 1', 'expect': {'equals': 'OK 1'}}
    exact = R.rank() <= 1 and A.rank() <= 1
    for pc, kd, res, lg in E.explore(run):
        ob.paths += 1; name = f'{struct}::destructure slot={slot} {lr} by {la}'; pref = prefer_all(R, A)
        if kd == 'panic': ob.panic(name + ' panic-free', pc, res, replay=replay, cls=f'C12/destructure {struct}/panic', prefer=pref); continue
        if kd != 'ok': ob.missing(name, f'{kd}: {res}'); continue
        goal = z3.BoolVal(True)
        if res.variant == 'Ok' and exact:
            parts = [numval(x) for x in res.fields[0].fields]
            if any(p is None for p in parts): goal = z3.BoolVal(False)
            elif struct == 'Plus': goal = z3.And(parts[0] + parts[1] == R.real(), parts[slot] == A.real())
            elif struct == 'Times': goal = z3.And(parts[0] * parts[1] == R.real(), parts[slot] == A.real())
            elif struct == 'Minus': goal = -parts[0] == R.real()
            elif struct == 'Divide': goal = z3.And(parts[1] != 0, parts[0] / parts[1] == R.real(), z3.IsInt(parts[0]), z3.IsInt(parts[1]))
        ob.check(name + ' inverts the constructor', pc, goal, replay=replay, cls=f'C12/destructure {struct}/inverse', prefer=pref,
                 sample='Ok([x, y]) implies x op y == r and the literal operand is returned unchanged'); ob.witness(res.variant)
    ob.absorb_engine(E)

def shape_destructure_seq(item, ob):
    struct, n = item
    E = eng(); f = impl_destructure(E, struct)
    V = [z3.Int(f'e{i}') for i in range(n)]
    def run():
        E.assume(*[in_i64(v) for v in V])
        return E.run_fn(f, [Ref(Cell(Adt(struct, None, []))), olist([small(v) for v in V]), Seq([opt(), opt()])])
    def replay(model):
        vals = [mval(model, v) for v in V]; src = '[' + ', '.join(fmt_int(x) for x in vals) + ']'
        pat, back = ('xs +. x', 'xs +. x') if struct == 'Append' else ('x .+ xs', 'x .+ xs')
        return {'program': f'try (switch ({src}) case {pat} -> ({back}) == {src} case _ -> 1) catch e -> 1', 'expect': {'equals': 'OK 1'}}
    for pc, kd, res, lg in E.explore(run):
        ob.paths += 1; name = f'{struct}::destructure on a list of {n}'
        if kd == 'panic': ob.panic(name + ' panic-free', pc, res, replay=replay, cls=f'C12/destructure {struct}/panic'); continue
        if kd != 'ok': ob.missing(name, f'{kd}: {res}'); continue
        if n == 0: goal = z3.BoolVal(res.variant == 'Err')
        elif res.variant != 'Ok': goal = z3.BoolVal(False)
        else:
            a, b = res.fields[0].fields
            seqpart, elem = (a, b) if struct == 'Append' else (b, a)
            want_seq = V[:-1] if struct == 'Append' else V[1:]; want_el = V[-1] if struct == 'Append' else V[0]
            goal = z3.And(val_eq(seqpart, ('list', [('num', z3.ToReal(v)) for v in want_seq])), val_eq(elem, ('num', z3.ToReal(want_el))))
        ob.check(name + ' inverts the constructor', pc, goal, replay=replay, cls=f'C12/destructure {struct}/inverse', sample='init +. last == r / head .+ tail == r; empty is an error'); ob.witness(res.variant)
    ob.absorb_engine(E)

# ------------------------------------------------------------------------------------------------ (P) the pattern matcher against a reference
# reference values: ('num', Real term) | ('list', [values]) | ('null',)
def val_eq(o, ref):
    """z3 Bool: the Obj produced by the real code is the reference value"""
    if ref[0] == 'num':
        v = numval(o); return z3.BoolVal(False) if v is None else v == ref[1]
    if ref[0] == 'null': return z3.BoolVal(isinstance(o, Adt) and o.ty == 'Obj' and o.variant == 'Null')
    if ref[0] == 'list':
        if not (isinstance(o, Adt) and o.ty == 'Obj' and o.variant == 'Seq' and o.fields[0].variant == 'List'): return z3.BoolVal(False)
        items = o.fields[0].fields[0].obj.cell.v.fields
        if len(items) != len(ref[1]): return z3.BoolVal(False)
        return z3.And(*[val_eq(x, y) for x, y in zip(items, ref[1])]) if items else z3.BoolVal(True)
    raise ValueError(ref)
def ref_obj(ref):
    if ref[0] == 'num': return small(ref[2]) if len(ref) > 2 else None
    if ref[0] == 'null': return Adt('Obj', 'Null', [])
    return olist([ref_obj(x) for x in ref[1]])
def ref_type_ok(t, v):
    """reference `v is T` for the value shapes used here"""
    if t is None or t == 'Any': return True
    if v[0] == 'num': return t in ('Int', 'Number')          # the numbers of the pattern harness are integers
    if v[0] == 'list': return t == 'List'
    if v[0] == 'null': return t == 'Null'
    return False

def ref_match(p, v, t):
    """reference matcher.  -> list of (condition, bindings or None); conditions are exhaustive and mutually exclusive.
    p: ('id', name) | ('_',) | ('lit', Real term, int term) | ('seq', [items]) with items possibly ('splat', p) / ('default', p, value)
       | ('or', p, q) | ('and', p, q) | ('anno', p, T) | ('plus', p, lit) | ('neg', p)"""
    T = z3.BoolVal(True)
    k = p[0]
    if k == 'id': return [(T, [(p[1], v)] if ref_type_ok(t, v) else None)]
    if k == '_': return [(T, [] if ref_type_ok(t, v) else None)]
    if k == 'lit':
        if v[0] != 'num': return [(T, None)]
        return [(v[1] == p[1], []), (v[1] != p[1], None)]
    if k == 'anno': return ref_match(p[1], v, p[2])
    if k == 'or':
        out = []
        for c1, b1 in ref_match(p[1], v, t):
            if b1 is not None: out.append((c1, b1))
            else: out += [(z3.And(c1, c2), b2) for c2, b2 in ref_match(p[2], v, t)]
        return out
    if k == 'and':
        out = []
        for c1, b1 in ref_match(p[1], v, t):
            if b1 is None: out.append((c1, None))
            else: out += [(z3.And(c1, c2), None if b2 is None else b1 + b2) for c2, b2 in ref_match(p[2], v, t)]
        return out
    if k == 'neg':
        if v[0] != 'num': return [(T, None)]
        return ref_match(p[1], ('num', -v[1]), t)
    if k == 'plus':
        if v[0] != 'num': return [(T, None)]
        d = v[1] - p[2][1]
        return [(z3.And(d >= 0, c), b) for c, b in ref_match(p[1], ('num', d), t)] + [(d < 0, None)]
    if k == 'seq':
        if v[0] != 'list': return [(T, None)]
        items = p[1]; n = len(v[1]); kk = len(items)
        si = [i for i, it in enumerate(items) if it[0] == 'splat']
        if len(si) > 1: return [(T, None)]
        # an un-delimited sequence pattern hands the declared type to its items
        if si:
            s = si[0]; after = kk - s - 1
            ndef = 0
            for it in reversed(items):
                if it[0] == 'default': ndef += 1
                else: break
            if n < kk - 1:
                # too few values for the non-splat items: trailing defaults fill the missing ones, the splat is empty
                missing = kk - 1 - n
                if missing > ndef: return [(T, None)]
                nonsplat = [it for i, it in enumerate(items) if i != s]
                pairs = [(nonsplat[i], v[1][i]) for i in range(n)] + [(nonsplat[i], nonsplat[i][2]) for i in range(n, kk - 1)] + [(items[s][1], ('list', []))]
            else:
                pairs = [(items[i], v[1][i]) for i in range(s)] + [(items[s][1], ('list', v[1][s:n - after]))] + [(items[s + 1 + j], v[1][n - after + j]) for j in range(after)]
        else:
            ndef = 0
            for it in reversed(items):
                if it[0] == 'default': ndef += 1
                else: break
            if not (kk - ndef <= n <= kk): return [(T, None)]
            pairs = [(items[i], v[1][i]) for i in range(n)] + [(items[i], items[i][2]) for i in range(n, kk)]
        out = [(T, [])]
        for sub, val in pairs:
            sp = sub[1] if sub[0] == 'default' else sub
            nxt = []
            for c, b in out:
                if b is None: nxt.append((c, None)); continue
                nxt += [(z3.And(c, c2), None if b2 is None else b + b2) for c2, b2 in ref_match(sp, val, t)]
            out = nxt
        return out
    raise ValueError(p)

def lv(p, E_defaults):
    """EvaluatedLvalue Adt for a reference pattern"""
    k = p[0]
    def box(x): return BoxV(x)
    if k == 'id': return Adt('EvaluatedLvalue', 'IndexedIdent', [Adt('Ident', 'Ident', [string_seq(p[1])]), Seq([])])
    if k == '_': return Adt('EvaluatedLvalue', 'Underscore', [])
    if k == 'lit': return Adt('EvaluatedLvalue', 'Literal', [small(p[2])])
    if k == 'anno': return Adt('EvaluatedLvalue', 'Annotation', [box(lv(p[1], E_defaults)), opt(Adt('Obj', 'Func', [Adt('Func', 'Type', [otype(p[2])]), Opaque('prec')]))])
    if k == 'or': return Adt('EvaluatedLvalue', 'Or', [box(lv(p[1], E_defaults)), box(lv(p[2], E_defaults))])
    if k == 'and': return Adt('EvaluatedLvalue', 'And', [box(lv(p[1], E_defaults)), box(lv(p[2], E_defaults))])
    if k == 'neg': return Adt('EvaluatedLvalue', 'Destructure', [RcV(RcObj(Adt('Minus', None, []))), Seq([box(lv(p[1], E_defaults))])])
    if k == 'plus': return Adt('EvaluatedLvalue', 'Destructure', [RcV(RcObj(Adt('Plus', None, []))), Seq([box(lv(p[1], E_defaults)), box(lv(p[2], E_defaults))])])
    if k == 'splat': return Adt('EvaluatedLvalue', 'Splat', [box(lv(p[1], E_defaults))])
    if k == 'default':
        E_defaults.append(p[2]); return Adt('EvaluatedLvalue', 'WithDefault', [box(lv(p[1], E_defaults)), RcV(RcObj(Adt('LocExprStub', None, [len(E_defaults) - 1])))])
    if k == 'seq': return Adt('EvaluatedLvalue', 'CommaSeq', [Seq([box(lv(it, E_defaults)) for it in p[1]]), z3.BoolVal(False)])
    raise ValueError(p)
def src_pat(p, model):
    k = p[0]
    if k == 'id': return p[1]
    if k == '_': return '_'
    if k == 'lit':
        n = mval(model, p[2]); return str(n) if n >= 0 else f'-{-n}'          # a negative literal pattern is written with the unary minus pattern
    if k == 'anno': return f'({src_pat(p[1], model)}: {TNAME[p[2]]})'
    if k == 'or': return f'({src_pat(p[1], model)} or {src_pat(p[2], model)})'
    if k == 'and': return f'({src_pat(p[1], model)} and {src_pat(p[2], model)})'
    if k == 'neg': return f'(-{src_pat(p[1], model)})'
    if k == 'plus':
        if mval(model, p[2][2]) < 0: return None          # `x + -k` is not a literal operand in the surface syntax: not replayable through source
        inner = src_pat(p[1], model); return None if inner is None else f'({inner} + {src_pat(p[2], model)})'
    if k == 'splat': return '...' + src_pat(p[1], model)
    if k == 'default': return None
    if k == 'seq':
        parts = [src_pat(it, model) for it in p[1]]
        return None if any(x is None for x in parts) else '(' + ', '.join(parts) + (',' if len(parts) == 1 else '') + ')'
def src_val(v, model):
    if v[0] == 'num': return fmt_int(mval(model, v[2]))
    if v[0] == 'null': return 'null'
    return '[' + ', '.join(src_val(x, model) for x in v[1]) + ']'
def names_of(p):
    if p[0] == 'id': return [p[1]]
    out = []
    for x in p[1:]:
        if isinstance(x, tuple) and x and isinstance(x[0], str) and x[0] in ('id', '_', 'lit', 'seq', 'or', 'and', 'anno', 'plus', 'neg', 'splat', 'default'): out += names_of(x)
        elif isinstance(x, list): out += [n for y in x for n in names_of(y)]
    return list(dict.fromkeys(out))

def pattern_family(tier, rnd):
    """(pattern, value) shapes; numbers are symbolic"""
    def N(tag):
        z = z3.Int(tag); return ('num', z3.ToReal(z), z)
    def L(tag):
        z = z3.Int(tag); return ('lit', z3.ToReal(z), z)
    ids = lambda *ns: [('id', n) for n in ns]
    fam = []
    vals = {n: ('list', [N(f'v{i}') for i in range(n)]) for n in range(0, 5)}
    # sequence patterns with and without a splat against lists of every length 0..4
    for k in range(1, 4):
        names = ['a', 'b', 'c'][:k]
        for n in range(0, 5):
            fam.append((('seq', ids(*names)), vals[n]))
            for s in range(k):
                items = ids(*names); items[s] = ('splat', items[s]); fam.append((('seq', items), vals[n]))
    fam.append((('seq', [('splat', ('id', 'a')), ('splat', ('id', 'b'))]), vals[2]))
    # literals, alternatives, conjunctions, arithmetic patterns
    x = N('v0')
    fam += [(L('k0'), x), (('or', L('k0'), L('k1')), x), (('or', L('k0'), ('id', 'a')), x), (('and', ('id', 'a'), ('id', 'b')), x), (('and', ('id', 'a'), L('k0')), x),
            (('plus', ('id', 'a'), L('k0')), x), (('neg', ('id', 'a')), x), (('neg', L('k0')), x), (('plus', ('neg', ('id', 'a')), L('k0')), x),
            (('or', ('plus', ('id', 'a'), L('k0')), ('id', 'a')), x), (('id', 'a'), vals[2]), (('_',), x), (L('k0'), vals[1]), (('plus', ('id', 'a'), L('k0')), vals[1]), (('neg', ('id', 'a')), vals[1])]
    # nested sequences and literals inside sequences
    fam += [(('seq', [('id', 'a'), ('seq', ids('b', 'c'))]), ('list', [N('v0'), ('list', [N('v1'), N('v2')])])),
            (('seq', [('id', 'a'), ('seq', ids('b', 'c'))]), ('list', [N('v0'), N('v1')])),
            (('seq', [('id', 'a'), L('k0'), ('id', 'b')]), vals[3]), (('seq', [L('k0'), ('splat', ('id', 'a'))]), vals[2]),
            (('seq', [('or', L('k0'), L('k1')), ('id', 'a')]), vals[2]), (('seq', [('plus', ('id', 'a'), L('k0')), ('id', 'b')]), vals[2]),
            (('seq', ids('a', 'b')), x), (('seq', ids('a', 'b')), ('null',))]
    # annotations
    for t in ('Int', 'Number', 'List', 'String', 'Any', 'Float'):
        fam += [(('anno', ('id', 'a'), t), x), (('anno', ('id', 'a'), t), vals[1]), (('seq', [('anno', ('id', 'a'), t), ('id', 'b')]), vals[2]), (('anno', ('_',), t), x)]
    fam += [(('seq', [('id', 'a'), ('anno', ('splat', ('id', 'b')), 'List')]), vals[3])] if False else []
    # defaults (lambda-parameter form): trailing defaults fill missing items
    d = ('num', z3.RealVal(7), z3.IntVal(7))
    for n in range(0, 4):
        fam += [(('seq', [('id', 'a'), ('default', ('id', 'b'), d)]), vals[n]), (('seq', [('default', ('id', 'a'), d), ('default', ('id', 'b'), d)]), vals[n])]
    # a splat together with trailing defaults
    for n in range(0, 4):
        fam += [(('seq', [('splat', ('id', 'b')), ('default', ('id', 'c'), d)]), vals[n]), (('seq', [('id', 'a'), ('splat', ('id', 'b')), ('default', ('id', 'c'), d)]), vals[n])]
    return fam

def shape_pattern(item, ob):
    idx, = item
    fam = pattern_family('quick', None); p, v = fam[idx]
    E = eng(); f_assign = find_fn(E, 'assign', pred=lambda g: len(g.params) == 4)
    defaults = []
    syms = sorted({str(s): s for s in z3_consts(p) + z3_consts(v)}.items())
    decls = []
    def hook(orig):
        def run_fn(f, fargs):
            nm = f.name
            if nm.endswith('try_borrow_mut_nres') or nm.endswith('try_borrow_nres'): E.used_stubs.add('core::try_borrow(_mut)_nres -> the environment cell'); return ok(Ref(Cell(Adt('Env', None, []))))
            if nm.endswith('::insert') and f.params and 'Env' in f.params[0][1] and len(f.params) == 4:
                E.used_stubs.add('Env::insert -> declaration recorder')
                name = ''.join(chr(z3.simplify(c).as_long()) for c in fargs[1].fields); E.log.append(('declare', name, fargs[2].variant, fargs[3])); return ok(UNIT)
            if nm == 'eval::evaluate' or nm.endswith('::evaluate') and len(f.params) == 2:
                E.used_stubs.add('eval::evaluate (default expressions) -> recorder')
                e = E.deref(fargs[1]); e = e.obj.cell.v if isinstance(e, RcV) else e
                return ok(ref_obj(defaults[e.fields[0]]))
            return orig(f, fargs)
        return run_fn
    E.run_fn = hook(E.run_fn)
    def run():
        E.assume(*[in_i64(s) for _, s in syms]); del defaults[:]
        pat = lv(p, defaults)
        return E.run_fn(f_assign, [ENV(), Ref(Cell(pat)), opt(Ref(Cell(otype('Any')))), ref_obj(v)])
    outcomes = ref_match(p, v, 'Any')
    names = names_of(p)
    def replay(model):
        lam = None
        if p[0] == 'seq' and any(it[0] == 'default' for it in p[1]) and v[0] == 'list' and all(it[0] in ('id', 'splat', 'default') for it in p[1]):
            # defaults exist only in parameter lists: replay as a lambda applied to the list's elements
            def par(it): return it[1] if it[0] == 'id' else '...' + it[1][1] if it[0] == 'splat' else f'{it[1][1]} = {src_val(it[2], model)}'
            lam = '\\' + ', '.join(par(it) for it in p[1])
        sp = src_pat(p, model) if lam is None else lam
        if sp is None or 'None' in sp: return None
        exp = None
        for c, b in outcomes:
            if z3.is_true(model.eval(c, model_completion=True)): exp = b
        if exp is None: want = 'OK "nomatch"'
        else:
            last = {}
            for n_, val in exp: last[n_] = val
            def rv(val):
                if val[0] == 'num':
                    q = mval(model, val[1]); return str(q.numerator if hasattr(q, 'numerator') else q)
                if val[0] == 'null': return 'null'
                return '[' + ', '.join(rv(x) for x in val[1]) + ']'
            want = 'OK [' + ', '.join(rv(last[n_]) for n_ in names) + ']'
        if lam is not None:
            return {'program': f'try (({lam} -> [{", ".join(names)}])({", ".join(src_val(x, model) for x in v[1])})) catch e -> "nomatch"', 'expect': {'equals': want}}
        return {'program': f'try (switch ({src_val(v, model)}) case {sp} -> [{", ".join(names)}] case _ -> "nomatch") catch e -> "nomatch"', 'expect': {'equals': want}}
    pref = [[z3.And(*[z3.And(s >= 0, s <= 9) for _, s in syms])]] if syms else ()
    for pc, kd, res, lg in E.explore(run):
        ob.paths += 1; name = f'assign #{idx} {show_pat(p)} := {show_val(v)}'
        if kd == 'panic': ob.panic(name + ' panic-free', pc, res, replay=replay, cls='C12/assign/panic', prefer=pref); continue
        if kd != 'ok': ob.missing(name, f'{kd}: {res}'); continue
        rec = {}
        for l in lg:
            if l[0] == 'declare': rec[l[1]] = (l[2], l[3])
        clauses = []
        for c, b in outcomes:
            if b is None: clauses.append(z3.Implies(c, z3.BoolVal(res.variant == 'Err')))
            elif res.variant != 'Ok': clauses.append(z3.Not(c))
            else:
                last = {}
                for n_, val in b: last[n_] = val
                eqs = [val_eq(rec[n_][1], val) if n_ in rec else z3.BoolVal(False) for n_, val in last.items()]
                clauses.append(z3.Implies(c, z3.And(*eqs) if eqs else z3.BoolVal(True)))
        ob.check(name + ' agrees with the reference matcher', pc, z3.And(*clauses), replay=replay, cls='C12/assign/bindings', prefer=pref,
                 sample='match / no match and the value bound to every name equal the documented rules'); ob.witness(res.variant)
    ob.absorb_engine(E)

def z3_consts(x):
    out = []
    def walk(y):
        if z3.is_expr(y):
            if z3.is_const(y) and y.decl().kind() == z3.Z3_OP_UNINTERPRETED and y.sort() == z3.IntSort(): out.append(y)
            for c in y.children(): walk(c)
        elif isinstance(y, (tuple, list)):
            for c in y: walk(c)
    walk(x); return out
def show_pat(p):
    k = p[0]
    if k == 'id': return p[1]
    if k == '_': return '_'
    if k == 'lit': return str(p[2])
    if k == 'seq': return '(' + ', '.join(show_pat(x) for x in p[1]) + ')'
    if k == 'splat': return '...' + show_pat(p[1])
    if k == 'default': return show_pat(p[1]) + '=7'
    if k == 'anno': return f'{show_pat(p[1])}: {p[2]}'
    if k in ('or', 'and'): return f'({show_pat(p[1])} {k} {show_pat(p[2])})'
    if k == 'plus': return f'({show_pat(p[1])} + {show_pat(p[2])})'
    if k == 'neg': return f'-{show_pat(p[1])}'
def show_val(v): return str(v[2]) if v[0] == 'num' else 'null' if v[0] == 'null' else '[' + ', '.join(show_val(x) for x in v[1]) + ']'

# ------------------------------------------------------------------------------------------------ (S) later assignments to an annotated variable
def kind_of(o):
    """BASE type name of a result Obj"""
    if o.variant == 'Null': return 'Null'
    if o.variant == 'Num': return {'Int': 'Int', 'Rational': 'Rational', 'Float': 'Float', 'Complex': 'Complex'}[o.fields[0].variant]
    if o.variant == 'Seq': return {'List': 'List', 'String': 'String', 'Dict': 'Dict', 'Vector': 'Vector', 'Bytes': 'Bytes', 'Stream': 'Stream'}[o.fields[0].variant]
    if o.variant == 'Func': return 'Type' if o.fields[0].variant == 'Type' else 'Func'
    return 'StructInstance'
def accepts(t, base): return t == 'Any' or t == base or (t == 'Number' and base in ('Int', 'Rational', 'Float', 'Complex')) or (t == 'Func' and base == 'Type')
TYPED_STMTS = {
    'Int': ['x = y', 'x = [y]', 'x = null', 'x = z', 'x += y', 'x -= y', 'x, z = z, x', 'swap x, z', 'x, w = [y, 2]', 'x, w = [[y], 2]', 'every x, w = y', 'every x, w = [y]', 'x = (x = [1]; 5)',
            'x /= 2', 'every x /= 2', 'every x += y', 'every x, w /= 2'],          # 3 / 2 is a rational: an int-typed variable must refuse it
    'List': ['x = y', 'x = [y]', 'x = null', 'x = z', 'x[0] = y', 'x[0] = [y]', 'x[y] = 1', 'every x[0:2] -= y', 'every x[0:2] = null', 'x append= y', 'x, z = z, x', 'swap x, z', 'swap x[0], z', 'pop x'],          # (`consume x` leaves null by definition and is not in the property's list)
    'Stream': ['x = y', 'x = [y]', 'x = z', 'x[0] = y', 'every x[0:2] -= y', 'every x[0:2] = 7', 'x, z = z, x', 'swap x, z'],
    'Number': ['x = y', 'x = [y]', 'x = null', 'x += y', 'x, z = z, x'],
}
def shape_typed(item, ob):
    """a statement that assigns to a variable declared with a type, in the real evaluator and a real Env: when it completes without raising, the variable still holds a value of its type"""
    from props import evalh
    tname, si, zkind = item
    stmt = TYPED_STMTS[tname][si]; text = stmt + '; 0'
    E = evalh.eng(MIR); ast, = evalh.parse_programs([text]); Yv = z3.Int('y')
    def val(kind):
        if kind == 'Int': return evalh.num(z3.IntVal(3))
        if kind == 'List': return evalh.olist([evalh.num(z3.IntVal(1)), evalh.num(z3.IntVal(2))])
        if kind == 'Null': return Adt('Obj', 'Null', [])
        if kind == 'Stream': return Adt('Obj', 'Seq', [Adt('Seq', 'Stream', [RcV(RcObj(Adt('WrappedVec', None, [RcV(RcObj(Seq([evalh.num(z3.IntVal(1)), evalh.num(z3.IntVal(2)), evalh.num(z3.IntVal(3))]))), z3.IntVal(0)])))])])
    x0 = {'Int': 'Int', 'List': 'List', 'Stream': 'Stream', 'Number': 'Int'}[tname]
    holder = {}
    def run():
        E.assume(in_i64(Yv))
        env = evalh.top_env({'x': (otype(tname), val(x0)), 'y': evalh.num(Yv), 'z': val(zkind), 'w': evalh.num(z3.IntVal(0))},
                            builtins=('+', '-', '*', '/', '<', '>', '==', 'append'))
        holder['env'] = env
        r = evalh.run_program(E, ast, env)
        return r, evalh.get_var(env, 'x')
    lits = {'Int': '3', 'List': '[1, 2]', 'Null': 'null', 'Stream': 'stream([1, 2, 3])'}
    def replay(model):
        y = mval(model, Yv)
        return {'program': f'x: {TNAME[tname]} = {lits[x0]}; y := {fmt_int(y)}; z := {lits[zkind]}; w := 0; ok := try ({stmt}; 1) catch e__ -> 0; (ok == 0) or (x is {TNAME[tname]})', 'expect': {'equals': 'OK 1'}}
    for pc, kd, res, lg in E.explore(run, max_paths=300):
        ob.paths += 1; name = f'{TNAME[tname]}-typed x (z: {zkind}): {stmt}'; pref = [[z3.And(Yv >= 0, Yv <= 3)]]
        if kd == 'panic': ob.panic(name + ' panic-free', pc, res, replay=replay, cls='C12/typed statement/panic', prefer=pref); continue
        if kd != 'ok': ob.missing(name, f'{kd}: {res}'); continue
        r, xv = res
        if r.variant == 'Ok':
            goal = z3.BoolVal(xv is not None and xv[0].variant == tname and accepts(tname, kind_of(xv[1])))
        else: goal = z3.BoolVal(True)
        ob.check(name + ' keeps `x is T` when it completes', pc, goal, replay=replay, cls='C12/typed statement/annotation', prefer=pref,
                 sample='after a statement that completes without raising, the annotated variable holds a value of its declared type'); ob.witness(r.variant)
    ob.absorb_engine(E)

def run_shape(item, ob):
    if item[0] == 'pair':
        from props import equiv
        equiv.MIR = MIR; return equiv.run_item(item, ob)
    fam, payload = item
    {'istype': shape_istype, 'convert': shape_convert, 'dnum': shape_destructure_num, 'dseq': shape_destructure_seq, 'pattern': shape_pattern, 'typed': shape_typed}[fam](payload, ob)

def main(tier, seed, t0):
    global MIR
    MIR, th = load_mir('on')
    rnd = random.Random(seed); items = []
    for kind in VKINDS:
        items.append(('istype', (kind, 'typeof')))
        for t in TYPES: items.append(('istype', (kind, t)))
    for t in ('Int', 'Rational', 'Float', 'Number', 'Complex'):
        for lvl in LEVELS_C: items.append(('convert', (t, lvl)))
    lv4 = LEVELS
    for struct in ('Plus', 'Times'):
        pairs = [(a, b) for a in lv4 for b in lv4]
        if tier == 'quick': pairs = [(a, b) for a, b in pairs if a == b or {a, b} <= {'IntSmall', 'IntBig'}] + rnd.sample(pairs, 3)
        for a, b in pairs:
            for slot in (0, 1): items.append(('dnum', (struct, slot, a, b)))
    for lvl in LEVELS_C:
        items.append(('dnum', ('Minus', None, lvl, 'IntSmall'))); items.append(('dnum', ('Divide', None, lvl, 'IntSmall')))
    for struct in ('Append', 'Prepend'):
        for n in range(0, 4): items.append(('dseq', (struct, n)))
    nfam = len(pattern_family(tier, rnd))
    for i in range(nfam): items.append(('pattern', (i,)))
    from props import evalh
    evalh.parse_programs([s + '; 0' for ss in TYPED_STMTS.values() for s in ss])          # one native call for all parse trees
    for tname, stmts in TYPED_STMTS.items():
        for si in range(len(stmts)):
            for zk in (('Int', 'List') if tier == 'quick' else ('Int', 'List', 'Null', 'Stream')): items.append(('typed', (tname, si, zk)))
    from props import equiv
    equiv.MIR = MIR; equiv.preparse('C12'); items += equiv.items_for('C12')          # statement-level equivalences (props/equiv.py family C12)
    merged, per = pmap(run_shape, items, tier)
    return finish(PROP, tier, seed, merged, t0, th=th,
        kernels=['eval.rs: is_type, assign, assign_all, assign_all_basic, insert_declare', 'core.rs: type_of, call_type1 (numeric arms), to_type, Obj equality',
                 'lib.rs: Builtin::destructure of Plus, Minus, Times, Divide, Append, Prepend'],
        bounds={'values': '16 value kinds (numbers of every level and representation with symbolic values, containers with one symbolic element, function / type / struct instance / stream values)',
                'types': '18 types (every builtin type, a struct type with the instance\'s id and one with another id)',
                'patterns': f'{nfam} pattern x value shapes: sequence patterns of 1-3 names with the splat in every position against lists of length 0-4, two splats, literals, or / and, n + k, -x, nested sequences, '
                            'annotations of 6 types, trailing defaults; every number symbolic over i64',
                'destructure': 'operands of every exact level pair (sampled in quick), lists of length 0-3'},
        outside=['assignment to existing variables (assign_respecting_type, later-assignment type checks, every-assignment, swap)', 'struct patterns, comparison-operator patterns, satisfying types',
                 'switch arm selection and catch clauses (they call assign)', 'conversion functions on strings and containers', 'float / complex operands of + and * patterns: panic-freedom only'],
        assumptions=['Env::insert always succeeds (no redeclaration in the pattern shapes)', 'error constructors are opaque', 'default expressions evaluate to the recorded value'])
