"""C04 — operators are ordinary functions: all application forms agree (dispatch layer).

Symbolic execution of the real MIR of Func::{run, run1, run2} on the wrapper variants (PartialApp1, PartialApp2, PartialAppLast,
Flip, Composition) and the section variants (ListSection, IndexSection, SliceSection, CallSection via apply_section), and of the
hand-written run / run1 / run2 triples of the arithmetic builtins (Plus, Minus, Times and the TwoNums*/OneNum*/OneArg/TwoArg
wrappers).  Arguments are numbers with symbolic values (every tower level for the builtin triples); the wrapped callee is a
recorder (`dyn Builtin` stub) and index / slice / call are recorders, so the result is the application term itself.
Obligations: each wrapper applies the callee to the documented argument list; sections fill their slots left to right and
reject too few arguments; run(vec![a]) == run1(a), run(vec![a, b]) == run2(a, b); f.run1(b) then .run1(a) == f.run2(a, b)."""
import itertools, random
import z3
from lib.common import *
from props.numlib import *

PROP = 'C04'
MIR = None

def leaf(v): return Adt('Obj', 'Num', [Adt('NNum', 'Int', [Adt('NInt', 'Small', [v])])])
def app(name, args): return Adt('Obj', 'App', [name, list(args)])
def stub_func(name='f'): return Adt('Func', 'Builtin', [RcV(RcObj(Adt('StubBuiltin', None, [name])))])

def recorder_models(E, callee, args, argtys, callee0):
    m = re.fullmatch(r'<dyn (?:core::)?Builtin as (?:core::)?Builtin>::(run|run1|run2)', callee)
    if m:
        b = E.deref(args[0]); name = b.fields[0] if isinstance(b, Adt) and b.ty == 'StubBuiltin' else None
        if name is None: return NotImplemented
        rest = list(args[2].fields) if m.group(1) == 'run' else list(args[2:])
        E.log.append(('call', name, m.group(1), len(rest)))
        return ok(app(name, rest))
    return NotImplemented
def eng():
    from props.C07 import complex_models
    return new_engine(MIR, [recorder_models, complex_models])

def term(o):
    """application term of a result Obj as nested python tuples with z3 leaves"""
    if isinstance(o, Adt) and o.ty == 'Obj' and o.variant == 'App': return (o.fields[0], tuple(term(x) for x in o.fields[1]))
    if isinstance(o, Adt) and o.ty == 'Obj' and o.variant == 'Num': return ('num', o.fields[0].fields[0].fields[0])
    if isinstance(o, Adt) and o.ty == 'Obj' and o.variant == 'Seq' and o.fields[0].variant == 'List': return ('list', tuple(term(x) for x in o.fields[0].fields[0].obj.cell.v.fields))
    if isinstance(o, Adt) and o.ty == 'Option': return ('none',) if o.variant == 'None' else ('some', term(o.fields[0]))
    return ('opaque', repr(o)[:60])
def term_eq(a, b):
    """z3 Bool: the two terms are the same application of the same symbolic leaves"""
    if a[0] != b[0]: return z3.BoolVal(False)
    if a[0] == 'num': return a[1] == b[1]
    if a[0] in ('none',): return z3.BoolVal(True)
    if a[0] == 'some': return term_eq(a[1], b[1])
    if a[0] == 'opaque': return z3.BoolVal(a[1] == b[1])
    if len(a[1]) != len(b[1]): return z3.BoolVal(False)
    return z3.And(*[term_eq(x, y) for x, y in zip(a[1], b[1])]) if a[1] else z3.BoolVal(True)

X, A, B, C = z3.Int('x'), z3.Int('a'), z3.Int('b'), z3.Int('c')
def func_fn(E, meth, nparams):
    fs = [f for f in E.by_last.get(meth, []) if f.params and f.params[0][1].strip() in ('&Func', '&core::Func') and len(f.params) == nparams and f.name.startswith('eval::')]
    if len(fs) != 1: raise Missing(f'Func::{meth} not found uniquely ({len(fs)})')
    return fs[0]
ENV = lambda: Ref(Cell(Adt('Env', None, [])), [])

def py_floordiv(a, b): return a // b if b else None

def shape_wrapper(item, ob):
    variant, entry, nargs = item
    E = eng(); f_run, f_run1, f_run2 = func_fn(E, 'run', 3), func_fn(E, 'run1', 3), func_fn(E, 'run2', 4)
    inner = stub_func('f'); g = stub_func('g')
    def mk():
        if variant == 'PartialApp1': return Adt('Func', 'PartialApp1', [BoxV(inner), BoxV(leaf(X))])
        if variant == 'PartialApp2': return Adt('Func', 'PartialApp2', [BoxV(inner), BoxV(leaf(X))])
        if variant == 'PartialAppLast': return Adt('Func', 'PartialAppLast', [BoxV(inner), BoxV(leaf(X))])
        if variant == 'Flip': return Adt('Func', 'Flip', [BoxV(inner)])
        if variant == 'Composition': return Adt('Func', 'Composition', [BoxV(inner), BoxV(g)])
        if variant == 'Builtin': return inner
    args = [leaf(v) for v in (A, B, C)[:nargs]]
    def run():
        fv = Ref(Cell(mk()))
        if entry == 'run': return E.run_fn(f_run, [fv, ENV(), Seq(list(args))])
        if entry == 'run1': return E.run_fn(f_run1, [fv, ENV(), args[0]])
        return E.run_fn(f_run2, [fv, ENV(), args[0], args[1]])
    la, lb, lc, lx = ('num', A), ('num', B), ('num', C), ('num', X)
    largs = [la, lb, lc][:nargs]
    want = None          # expected application term, or 'err', or a description of a function value
    if variant == 'PartialApp1': want = ('f', (lx, la)) if nargs == 1 else 'err'
    elif variant == 'PartialApp2': want = ('f', (la, lx)) if nargs == 1 else 'err'
    elif variant == 'PartialAppLast': want = ('f', tuple(largs) + (lx,))
    elif variant == 'Flip': want = ('f', (lb, la)) if nargs == 2 else ('func' if nargs == 1 else 'err')
    elif variant == 'Composition': want = ('f', (('g', tuple(largs)),))
    elif variant == 'Builtin': want = ('f', tuple(largs))
    def replay(model):
        x, a, b = mval(model, X), mval(model, A), mval(model, B)
        if variant == 'PartialApp2' and nargs == 1 and x != 0: return {'program': f'(//)({fmt_int(x)})({fmt_int(a)})', 'expect': {'equals': f'OK {a // x}'}}
        if variant == 'Flip' and nargs == 2 and a != 0: return {'program': f'flip(//)({fmt_int(a)}, {fmt_int(b)})', 'expect': {'equals': f'OK {b // a}'}}
        # one argument to a flipped function is the right-section rule F(b)(a) == F(a, b): flip(f)(a)(7) == flip(f)(7, a) == f(a, 7)
        if variant == 'Flip' and nargs == 1: return {'program': f'flip(//)({fmt_int(a)})(7)', 'expect': {'equals': f'OK {a // 7}'}}
        if variant == 'PartialApp1' and nargs == 1 and a != 0: return {'program': f'({fmt_int(x)} //)({fmt_int(a)})', 'expect': {'equals': f'OK {x // a}'}}
        if variant == 'Composition' and nargs == 2: return {'program': f'((-) >>> (\\t -> t // 3))({fmt_int(a)}, {fmt_int(b)})', 'expect': {'equals': f'OK {(a - b) // 3}'}}
        return None
    for pc, kd, res, lg in E.explore(run):
        ob.paths += 1; name = f'Func::{variant}.{entry} with {nargs} arg(s)'
        pref = [[z3.And(X >= 1, X <= 9, A >= 1, A <= 40, B >= 1, B <= 40, C >= 1, C <= 9, A != B)]]
        if kd == 'panic': ob.panic(name + ' panic-free', pc, res, replay=replay, cls=f'C04/{variant}/panic', prefer=pref); continue
        if kd != 'ok': ob.missing(name, f'{kd}: {res}'); continue
        if want == 'err': goal = z3.BoolVal(res.variant == 'Err')
        elif want == 'func':
            # Flip(f)(a) is the partial application that, given b, computes f(a, b) [so that Flip(f)(a)(b) == Flip(f)(b', a) pattern holds]
            v = res.fields[0] if res.variant == 'Ok' else None
            goal = z3.BoolVal(v is not None and v.variant == 'Func' and v.fields[0].variant == 'PartialApp1')
        else: goal = term_eq(term(res.fields[0]), want) if res.variant == 'Ok' else z3.BoolVal(False)
        ob.check(name, pc, goal, replay=replay, cls=f'C04/{variant}/{entry}', prefer=pref, sample=f'expected {want!r}'[:200]); ob.witness(res.variant)
    ob.absorb_engine(E)

def shape_section(item, ob):
    kind, slots, nargs = item          # slots: tuple of booleans (True = `_` slot) per position of the section
    E = eng(); f_run = func_fn(E, 'run', 3)
    FIX = [z3.Int(f's{i}') for i in range(len(slots))]
    args = [leaf(v) for v in (A, B, C)[:nargs]]
    rec = {}
    def hook(orig):
        def run_fn(f, fargs):
            nm = f.name
            if nm == 'eval::index' and len(f.params) == 2: E.used_stubs.add('eval::index -> recorder'); return ok(app('index', fargs))
            if nm == 'eval::slice' and len(f.params) == 3: E.used_stubs.add('eval::slice -> recorder'); return ok(app('slice', fargs))
            if nm == 'eval::call' and len(f.params) == 3: E.used_stubs.add('eval::call -> recorder'); return ok(app('call', [fargs[1]] + list(fargs[2].fields)))
            return orig(f, fargs)
        return run_fn
    E.run_fn = hook(E.run_fn)
    def slot(i): return leaf(FIX[i])
    def mk():
        if kind == 'ListSection': return Adt('Func', 'ListSection', [Seq([err(z3.BoolVal(False)) if s else ok(slot(i)) for i, s in enumerate(slots)])])
        if kind == 'IndexSection': return Adt('Func', 'IndexSection', [opt() if slots[0] else opt(BoxV(slot(0))), opt() if slots[1] else opt(BoxV(slot(1)))])
        if kind == 'SliceSection':
            def b(i): return opt(BoxV(opt())) if slots[i] else opt(BoxV(opt(slot(i))))
            return Adt('Func', 'SliceSection', [opt() if slots[0] else opt(BoxV(slot(0))), b(1), b(2)])
        if kind == 'CallSection':
            return Adt('Func', 'CallSection', [opt() if slots[0] else opt(BoxV(slot(0))), BoxV(Seq([err(z3.BoolVal(False)) if s else ok(slot(i + 1)) for i, s in enumerate(slots[1:])]))])
    def run(): return E.run_fn(f_run, [Ref(Cell(mk())), ENV(), Seq(list(args))])
    # expected: slots are filled left to right with the arguments
    need = sum(1 for s in slots if s)
    filled = []; k = 0
    for i, s in enumerate(slots):
        if s: filled.append(('num', (A, B, C)[k]) if k < nargs else None); k += 1
        else: filled.append(('num', FIX[i]))
    def replay(model):
        vals = {str(v): mval(model, v) for v in (A, B, C) + tuple(FIX)}
        a = [vals['a'], vals['b'], vals['c']][:nargs]
        if kind == 'SliceSection' and slots == (True, True, True) and nargs == 3:
            lo, hi = a[1] % 6, a[2] % 6
            return {'program': f'(_[_:_])([10, 11, 12, 13, 14, 15], {lo}, {hi})', 'expect': {'equals': 'OK [' + ', '.join(str(10 + q) for q in range(lo, max(lo, hi))) + ']'}}
        if kind == 'IndexSection' and slots == (True, True) and nargs == 2:
            i = a[1] % 3; return {'program': f'(_[_])([10, 11, 12], {i})', 'expect': {'equals': f'OK {10 + i}'}}
        if kind == 'ListSection' and nargs == need:
            it = iter(a); items = [str(next(it)) if s else str(vals[f's{i}']) for i, s in enumerate(slots)]
            sec = '[' + ', '.join('_' if s else str(vals[f's{i}']) for i, s in enumerate(slots)) + ']'
            return {'program': f'{sec}({", ".join(map(fmt_int, a))})', 'expect': {'equals': 'OK [' + ', '.join(items) + ']'}}
        return None
    for pc, kd, res, lg in E.explore(run):
        ob.paths += 1; name = f'Func::{kind}{tuple("_" if s else "v" for s in slots)} with {nargs} arg(s)'
        pref = [[z3.And(*[z3.And(v >= 0, v <= 9) for v in (A, B, C) + tuple(FIX)], A != B, B != C, A != C)]]
        if kd == 'panic': ob.panic(name + ' panic-free', pc, res, replay=replay, cls=f'C04/{kind}/panic', prefer=pref); continue
        if kd != 'ok': ob.missing(name, f'{kd}: {res}'); continue
        if nargs < need: goal = z3.BoolVal(res.variant == 'Err')
        elif res.variant != 'Ok': goal = z3.BoolVal(False)
        else:
            t = term(res.fields[0])
            if kind == 'ListSection': want = ('list', tuple(filled))
            elif kind == 'IndexSection': want = ('index', tuple(filled))
            elif kind == 'SliceSection':
                # slice(x, Some(lo), Some(hi)): the recorder sees Option arguments
                want = ('slice', (filled[0], ('some', filled[1]), ('some', filled[2])))
            else: want = ('call', tuple(filled))
            goal = term_eq(t, want)
        ob.check(name, pc, goal, replay=replay, cls=f'C04/{kind}/slots', prefer=pref, sample='slots are filled left to right; too few arguments is an error'); ob.witness(res.variant)
    ob.absorb_engine(E)

def struct_eq(E, r1, r2):
    """z3 Bool: two results of the real code are the same value (structure and leaves)"""
    if type(r1) is not type(r2):
        if z3.is_expr(r1) and z3.is_expr(r2): return r1 == r2
        return z3.BoolVal(False)
    if z3.is_expr(r1): return r1 == r2
    if isinstance(r1, F64): return z3.And(r1.kind == r2.kind, r1.val == r2.val, r1.nz == r2.nz)
    if isinstance(r1, Rat): return r1.v == r2.v
    if isinstance(r1, (BoxV,)): return struct_eq(E, r1.cell.v, r2.cell.v)
    if isinstance(r1, RcV): return struct_eq(E, r1.obj.cell.v, r2.obj.cell.v)
    if isinstance(r1, Opaque): return z3.BoolVal(True)       # error messages
    if isinstance(r1, Adt):
        if r1.ty != r2.ty or r1.variant != r2.variant: return z3.BoolVal(False)
        if r1.ty == 'NErr': return z3.BoolVal(True)
        if len(r1.fields) != len(r2.fields): return z3.BoolVal(False)
        return z3.And(*[struct_eq(E, x, y) for x, y in zip(r1.fields, r2.fields)]) if r1.fields else z3.BoolVal(True)
    if isinstance(r1, (Tup, Seq, Closure)):
        if len(r1.fields) != len(r2.fields): return z3.BoolVal(False)
        return z3.And(*[struct_eq(E, x, y) for x, y in zip(r1.fields, r2.fields)]) if r1.fields else z3.BoolVal(True)
    return z3.BoolVal(r1 is r2 or r1 == r2)

BUILTIN_STRUCTS = ('Plus', 'Minus', 'Times', 'Divide')
def shape_triple(item, ob):
    """run(vec![a, b]) == run2(a, b) and run(vec![a]) == run1(a) for the hand-written builtin impls, numbers of symbolic level and value"""
    struct, la, lb = item
    E = eng()
    def impl_fn(meth, nparams):
        fs = [f for f in E.by_last.get(meth, []) if f.params and re.sub(r'^&', '', norm(f.params[0][1])) == struct and len(f.params) == nparams and f.name.startswith('<impl at src/lib.rs') or
              (f.params and re.sub(r'^&', '', norm(f.params[0][1])) == struct and len(f.params) == nparams and '<impl' in f.name and f.name.split('::')[-1] == meth)]
        fs = list({id(f): f for f in fs}.values())
        if not fs:      # not overridden: the trait's provided method
            fs = [f for f in E.by_last.get(meth, []) if f.name.startswith('core::Builtin::') and len(f.params) == nparams]
        if len(fs) != 1: raise Missing(f'{struct}::{meth} not found uniquely ({len(fs)})')
        return fs[0]
    f_run, f_run1, f_run2 = impl_fn('run', 3), impl_fn('run1', 3), impl_fn('run2', 4)
    Xn, Yn = SymNum(la, 'a'), SymNum(lb, 'b') if lb else None
    recv = lambda: Ref(Cell(Adt(struct, None, [])))
    def mkobj(S): return Adt('Obj', 'Num', [S.obj()])
    def run():
        E.assume(*Xn.pre, *(Yn.pre if Yn else []))
        if Yn is None:
            r1 = E.run_fn(f_run, [recv(), ENV(), Seq([mkobj(Xn)])]); r2 = E.run_fn(f_run1, [recv(), ENV(), mkobj(Xn)])
        else:
            r1 = E.run_fn(f_run, [recv(), ENV(), Seq([mkobj(Xn), mkobj(Yn)])]); r2 = E.run_fn(f_run2, [recv(), ENV(), mkobj(Xn), mkobj(Yn)])
        return r1, r2
    opname = {'Plus': '+', 'Minus': '-', 'Times': '*', 'Divide': '/'}[struct]
    def replay(model):
        from props.C08 import lit
        cx = Xn.concrete(model); cy = Yn.concrete(model) if Yn else None
        if cx is None or (Yn and cy is None): return None
        lx = lit(cx); ly = lit(cy) if Yn else None
        if lx is None or (Yn and ly is None): return None
        if Yn: return {'program': f'g := ({opname}); [{lx} {opname} {ly}] == [g({lx}, {ly})]', 'expect': {'equals': 'OK 1'}}
        return None
    for pc, kd, res, lg in E.explore(run):
        ob.paths += 1; name = f'{struct}: run(vec) vs run{"2" if Yn else "1"} on {la}{"x" + lb if lb else ""}'
        pref = prefer_all(*([Xn] + ([Yn] if Yn else [])))
        if kd == 'panic': ob.panic(name + ' panic-free', pc, res, replay=replay, cls=f'C04/{struct}/panic', prefer=pref); continue
        if kd != 'ok': ob.missing(name, f'{kd}: {res}'); continue
        r1, r2 = res
        ob.check(name, pc, struct_eq(E, r1, r2), replay=replay, cls=f'C04/{struct}/triple', prefer=pref, sample='vector entry point and the fixed-arity entry point return the same value or both fail'); ob.witness(r1.variant)
    ob.absorb_engine(E)

def run_shape(item, ob):
    fam, payload = item
    if fam == 'pair':
        from props import equiv
        equiv.MIR = MIR; return equiv.run_item(item, ob)
    {'wrapper': shape_wrapper, 'section': shape_section, 'triple': shape_triple}[fam](payload, ob)

def main(tier, seed, t0):
    global MIR
    MIR, th = load_mir('on')
    rnd = random.Random(seed); items = []
    for variant in ('PartialApp1', 'PartialApp2', 'PartialAppLast', 'Flip', 'Composition', 'Builtin'):
        for n in (1, 2, 3): items.append(('wrapper', (variant, 'run', n)))
        items.append(('wrapper', (variant, 'run1', 1))); items.append(('wrapper', (variant, 'run2', 2)))
    for slots in itertools.product((False, True), repeat=2):
        for n in range(0, 3): items.append(('section', ('IndexSection', slots, n)))
    for slots in itertools.product((False, True), repeat=3):
        for n in range(0, 4):
            items.append(('section', ('SliceSection', slots, n))); items.append(('section', ('ListSection', slots, n))); items.append(('section', ('CallSection', slots, n)))
    levels = LEVELS_C
    for st in BUILTIN_STRUCTS:
        pairs = [(a, b) for a in levels for b in levels]
        if tier == 'quick': pairs = rnd.sample(pairs, 8)
        for a, b in pairs: items.append(('triple', (st, a, b)))
        for a in levels: items.append(('triple', (st, a, None)))
    # statement level: the application forms of the surface language agree (real evaluator on real parse trees, props/equiv.py)
    from props import equiv
    equiv.preparse('C04'); items += equiv.items_for('C04')
    rnd.shuffle(items)
    merged, per = pmap(run_shape, items, tier)
    return finish(PROP, tier, seed, merged, t0, th=th,
        kernels=['eval.rs: Func::{run, run1, run2} arms PartialApp1, PartialApp2, PartialAppLast, Flip, Composition, Builtin, ListSection, IndexSection, SliceSection, CallSection; apply_section',
                 'lib.rs: run / run1 / run2 of Plus, Minus, Times, Divide (with expect_nums_and_vectorize_*, clone_and_part_app_2)'],
        bounds={'arguments': '1-3 integer arguments with symbolic values (wrappers, sections); every tower level with symbolic values for the builtin triples (level pairs sampled by VERIF_SEED in quick)',
                'sections': 'every slot pattern of Index (2 positions), Slice / List / Call (3 positions) with 0..3 arguments'},
        outside=['surface-syntax forms that only exist in evaluate (a f b, backticks, !, .f, then, f=): their reduction to these entry points is evaluator code', 'ChainSection (C03 machinery), UpdateSection, Parallel/Fanout/OnComposition/Memoized',
                 'user-defined closures (Closure::run needs the evaluator)', 'splat slots'],
        assumptions=['the wrapped callee is a recorder: the wrappers never inspect what it computes', 'index / slice / call are recorders for the section arms (their own behaviour is C10 / C04-call)'])
