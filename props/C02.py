"""C02 — mutating an unshared collection is in place: no hidden copies (kernel level; see props/cow.py, props/cow2.py).

The observable is the clone log of the Rc model while the real MIR of the mutation kernels runs: at strong count 1 no
make_mut clone and no deep clone happens and the allocation is kept; with aliases at most one clone per shared level on the
first step and none when the same step is repeated.  A counterexample is replayed natively as a scaling measurement."""
from lib.common import *
from props import cow, cow2, cow3

PROP = 'C02'
def run_shape(item, ob):
    if item[0] in ('dict', 'str'): cow2.run_shape(item, ob, 'C02')
    elif item[0] == 'stmt': cow3.run_shape(item, ob, 'C02')
    else: cow.run_shape(item, ob, 'C02')

def main(tier, seed, t0):
    cow.MIR, th = load_mir('on'); cow2.MIR = cow.MIR; cow3.MIR = cow.MIR
    from props import evalh
    evalh.parse_programs([s_ + '; 0' for s_ in cow3.STMTS])
    items = cow.items_for(tier, seed) + cow2.items_for(tier, seed) + cow3.items_for(tier, seed)
    merged, per = pmap(run_shape, items, tier)
    # translator validation for the Rc model: what it calls "in place" must also scale like in-place natively
    # (k mutation steps on n_small vs n_big elements through the surface language, release build)
    validated = 0; vfail = []
    specs = []
    for op in cow.OPS:
        for shape in cow.SHAPES:
            if op in ('try_pop', 'try_remove_index', 'modify_existing_index') and shape not in ('list3', 'list2x2'): continue
            if op == 'set_every_slice' and shape not in ('list3', 'list2x2', 'list_of_vec'): continue
            specs.append((f'{op} {shape}', cow.timing_replay(op, shape, 'none')['timing']))
    for op in cow2.DOPS:
        for wd in (False, True): specs.append((f'dict {op} default={wd}', cow2.timing(op, wd, 'none')['timing']))
    if tier == 'quick': specs = specs[::2] if seed % 2 == 0 else specs[1::2]
    for name, tm in specs:
        best = measure_timing(tm); slow = timing_is_slow(tm, best)
        if slow is None: vfail.append(f'scaling measurement for {name} did not run: {tm["big"]} -> {best}')
        elif slow: vfail.append(f'native scaling contradicts the model (which found no copy) for {name}: {tm["big"]} -> {best}')
        else: validated += 1
    return finish(PROP, tier, seed, merged, t0, th=th, validated=validated, validation_failures=vfail,
        kernels=['eval.rs: set_index (list / nested / vector / bytes / dict / string arms, every-slice arm, LHS-dropping call), modify_existing_index (list and dict arms)', 'core.rs: Obj::try_pop, Obj::try_remove_index, pythonic_mut'],
        bounds={'targets': 'list of 3, nested list 2x2, vector of 3, bytes of 3, list of 2 vectors, dict with two list rows (with/without default), string "abc"', 'aliases': 'none / outer / inner / both',
                'index path': 'every integer in both representations; every dict key', 'steps': 'two consecutive identical steps'},
        outside=['allocator / Vec growth behaviour (std)', 'the evaluator statement paths that hand the variable cell to these kernels (assign_respecting_type, OpAssign drop-before-call ordering)', 'builtins taking arguments by value (append, ++, |., ...)', 'struct arms'],
        assumptions=['Rc::make_mut clones iff the strong count is > 1 (std contract); one failing mutation of a shared list may clone once (allowed: "at most once per additional holder")'])
