"""C02 — mutating an unshared collection is in place: no hidden copies (kernel level; see props/cow.py, props/cow2.py).

The observable is the clone log of the Rc model while the real MIR of the mutation kernels runs: at strong count 1 no
make_mut clone and no deep clone happens and the allocation is kept; with aliases at most one clone per shared level on the
first step and none when the same step is repeated.  A counterexample is replayed natively as a scaling measurement."""
from lib.common import *
from props import cow, cow2

PROP = 'C02'
def run_shape(item, ob):
    if item[0] in ('dict', 'str'): cow2.run_shape(item, ob, 'C02')
    else: cow.run_shape(item, ob, 'C02')

def main(tier, seed, t0):
    cow.MIR, th = load_mir('on'); cow2.MIR = cow.MIR
    items = cow.items_for(tier, seed) + cow2.items_for(tier, seed)
    merged, per = pmap(run_shape, items, tier)
    return finish(PROP, tier, seed, merged, t0, th=th,
        kernels=['eval.rs: set_index (list / nested / vector / bytes / dict / string arms, every-slice arm, LHS-dropping call), modify_existing_index (list and dict arms)', 'core.rs: Obj::try_pop, Obj::try_remove_index, pythonic_mut'],
        bounds={'targets': 'list of 3, nested list 2x2, vector of 3, bytes of 3, list of 2 vectors, dict with two list rows (with/without default), string "abc"', 'aliases': 'none / outer / inner / both',
                'index path': 'every integer in both representations; every dict key', 'steps': 'two consecutive identical steps'},
        outside=['allocator / Vec growth behaviour (std)', 'the evaluator statement paths that hand the variable cell to these kernels (assign_respecting_type, OpAssign drop-before-call ordering)', 'builtins taking arguments by value (append, ++, |., ...)', 'struct arms'],
        assumptions=['Rc::make_mut clones iff the strong count is > 1 (std contract); one failing mutation of a shared list may clone once (allowed: "at most once per additional holder")'])
