"""C01 — collections have value semantics: mutation never leaks through an alias (kernel level; see props/cow.py, props/cow2.py)."""
from lib.common import *
from props import cow, cow2

PROP = 'C01'
def run_shape(item, ob):
    if item[0] == 'pair':
        from props import equiv
        equiv.MIR = cow.MIR; return equiv.run_item(item, ob)
    if item[0] in ('dict', 'str'): cow2.run_shape(item, ob, 'C01')
    else: cow.run_shape(item, ob, 'C01')

def main(tier, seed, t0):
    cow.MIR, th = load_mir('on'); cow2.MIR = cow.MIR
    items = cow.items_for(tier, seed) + cow2.items_for(tier, seed)
    # statement level: mutation statements run by the real evaluator == the explicit functional update, copies untouched (props/equiv.py family C01)
    from props import equiv
    equiv.MIR = cow.MIR; equiv.preparse('C01'); items += equiv.items_for('C01')
    merged, per = pmap(run_shape, items, tier)
    return finish(PROP, tier, seed, merged, t0, th=th,
        kernels=['eval.rs: set_index (list / nested list / vector / bytes / dict / string arms, every-slice arm, LHS-dropping call), modify_existing_index (list and dict arms incl. the default-materialising Vacant case)',
                 'core.rs: Obj::try_pop, Obj::try_remove_index (list and dict), pythonic_mut, pythonic_index, pythonic_slice_obj, to_key, ObjKey Eq/Hash'],
        bounds={'targets': 'list of 3, nested list 2x2, vector of 3, bytes of 3, list of 2 vectors, dict {10:[0,1], 11:[2,3]} with and without default, string "abc"',
                'aliases': 'none / outer allocation / inner allocation (row) / both', 'index path': 'every integer in both representations (depth 1 or 2); dict key: every integer (hit either entry or miss); slice bounds every isize',
                'steps': 'one mutation step from an arbitrary aliased pre-state (inductive step: the post-state is again a pre-state of the same family)'},
        outside=['statement-level evaluator paths beyond the 19 statement equivalences of props/equiv.py family C01 (closures sharing Env cells, for-loop binding, struct fields)', 'struct-instance arms', 'non-ASCII strings', 'builtins that rebuild collections (append, ++, |., ...)'],
        assumptions=['Rc model: clone/drop/make_mut/get_mut/try_unwrap follow the std contract with explicit strong counts', 'HashMap = association list; lookup = real ObjKey Eq and equal real hash traces',
                     'safe Rust: mutation through a shared Rc is impossible, so the faults visible here are wrong slot / wrong level / lost write / wrong clone point / lost restore'])
