"""C01 — collections have value semantics: mutation never leaks through an alias (kernel level; see props/cow.py)."""
from lib.common import *
from props import cow

PROP = 'C01'
def run_shape(item, ob): cow.run_shape(item, ob, 'C01')

def main(tier, seed, t0):
    cow.MIR, th = load_mir('on')
    items = cow.items_for(tier, seed)
    merged, per = pmap(run_shape, items, tier)
    return finish(PROP, tier, seed, merged, t0, th=th,
        kernels=['eval.rs: set_index (list / nested list / vector / bytes arms, every-slice arm), modify_existing_index (list arms)', 'core.rs: Obj::try_pop, Obj::try_remove_index, pythonic_mut, pythonic_index, pythonic_slice_obj'],
        bounds={'targets': 'list of 3, nested list 2x2, vector of 3, bytes of 3, list of 2 vectors', 'aliases': 'none / outer allocation / inner allocation / both', 'index path': 'every integer in both representations (depth 1 or 2), slice bounds every isize',
                'steps': 'one mutation step from an arbitrary aliased pre-state (inductive step: the post-state is again a pre-state of the same family)'},
        outside=['statement-level evaluator paths (closures sharing Env cells, for-loop binding, swap, consume)', 'dict and struct-instance arms', 'strings (documented corruption arm)', 'builtins that rebuild collections (append, ++, |., ...)'],
        assumptions=['Rc model: clone/drop/make_mut/get_mut/try_unwrap follow the std contract with explicit strong counts', 'safe Rust: mutation through a shared Rc is impossible, so the faults visible here are wrong slot / wrong level / lost write / wrong clone point'])
