"""C13 — the sequence library matches its executable specification (the part that is noulith's own loop-free glue).

Symbolic execution of the builtin closures registered in `initialize` for the sequence functions whose definition is one
line of BUILTINS.md and whose implementation does not call back into the evaluator: reverse, tail, butlast, uncons, uncons?,
unsnoc, unsnoc?, second, third, only, len, enumerate, prefixes, suffixes, window, unique, frequencies, flatten, in / ∈ /
not_in / ∉ / contains / ∋ / ∌ — on lists of 0..3 symbolic integers (window sizes 1..3, flatten on lists of lists).
Oracle: the documented definition written out over the symbolic elements (first-occurrence order for unique, counts for
frequencies, membership by ==).  Every implementation path must return exactly that value, or an error where the
definition says so; nothing panics."""
import itertools, random
import z3
from lib.common import *
from props.C06 import builtin_closures
from props import C14

PROP = 'C13'
MIR = None
def eng(): return new_engine(MIR, [C14.extra_models])
def num(v): return Adt('Obj', 'Num', [Adt('NNum', 'Int', [Adt('NInt', 'Small', [v if z3.is_expr(v) else z3.IntVal(v)])])])
def olist(items): return Adt('Obj', 'Seq', [Adt('Seq', 'List', [RcV(RcObj(Seq(list(items))))])])
def ival(o):
    if isinstance(o, Adt) and o.ty == 'Obj' and o.variant == 'Num' and o.fields[0].variant == 'Int': return o.fields[0].fields[0].fields[0]
    return None
def items_of(o):
    if isinstance(o, Adt) and o.ty == 'Obj' and o.variant == 'Seq' and o.fields[0].variant == 'List': return o.fields[0].fields[0].obj.cell.v.fields
    return None
def val_eq(o, v):
    """z3 Bool: Obj == reference value (int term | None | list)"""
    if not (isinstance(o, Adt) and o.ty == 'Obj'): return z3.BoolVal(False)
    if v is None: return z3.BoolVal(o.variant == 'Null')
    if isinstance(v, list):
        it = items_of(o)
        if it is None or len(it) != len(v): return z3.BoolVal(False)
        return z3.And(*[val_eq(a, b) for a, b in zip(it, v)]) if v else z3.BoolVal(True)
    i = ival(o)
    return z3.BoolVal(False) if i is None else i == v
def render(v, model):
    if v is None: return 'null'
    if isinstance(v, list): return '[' + ', '.join(render(q, model) for q in v) + ']'
    return str(mval(model, v))

UNARY = ('reverse', 'tail', 'butlast', 'uncons', 'uncons?', 'unsnoc', 'unsnoc?', 'second', 'third', 'only', 'len', 'enumerate', 'prefixes', 'suffixes', 'unique', 'frequencies')
MEMBER = {'in': (0, True), '∈': (0, True), 'not_in': (0, False), '∉': (0, False), 'contains': (1, True), '∋': (1, True), '∌': (1, False)}          # (position of the element argument, positive?)

def spec_unary(fn, xs):
    """-> ('val', value) | ('err',) | ('any',) (not specified) | ('unique',) | ('freq',)"""
    n = len(xs)
    if fn == 'reverse': return ('val', xs[::-1])
    if fn == 'tail': return ('val', xs[1:]) if n else ('any',)
    if fn == 'butlast': return ('val', xs[:-1]) if n else ('any',)
    if fn == 'uncons': return ('val', [xs[0], xs[1:]]) if n else ('err',)
    if fn == 'uncons?': return ('val', [xs[0], xs[1:]]) if n else ('val', None)
    if fn == 'unsnoc': return ('val', [xs[:-1], xs[-1]]) if n else ('err',)
    if fn == 'unsnoc?': return ('val', [xs[:-1], xs[-1]]) if n else ('val', None)
    if fn == 'second': return ('val', xs[1]) if n >= 2 else ('err',)
    if fn == 'third': return ('val', xs[2]) if n >= 3 else ('err',)
    if fn == 'only': return ('val', xs[0]) if n == 1 else ('err',)
    if fn == 'len': return ('val', z3.IntVal(n))
    if fn == 'enumerate': return ('val', [[z3.IntVal(i), x] for i, x in enumerate(xs)])
    if fn == 'prefixes': return ('val', [xs[:k] for k in range(n + 1)])
    if fn == 'suffixes': return ('val', [xs[n - k:] for k in range(n + 1)])
    if fn == 'unique': return ('unique',)
    if fn == 'frequencies': return ('freq',)
    raise ValueError(fn)

def shape_unary(item, ob):
    fn, n = item
    E = eng(); cl = builtin_closures(E); f = cl.get(fn)
    if f is None: raise Missing(f'builtin closure {fn!r} not found')
    X = [z3.Int(f'e{i}') for i in range(n)]
    def run():
        E.assume(*[in_i64(x) for x in X])
        return E.run_fn(f, [Closure(f.params[0][1], []), olist([num(x) for x in X])])
    spec = spec_unary(fn, X)
    def expected(model):
        vals = [mval(model, x) for x in X]
        if spec[0] == 'val': return render(spec[1], model)
        if spec[0] == 'unique':
            out = []
            for v in vals:
                if v not in out: out.append(v)
            return '[' + ', '.join(map(str, out)) + ']'
        return None
    def replay(model):
        src = '[' + ', '.join(fmt_int(mval(model, x)) for x in X) + ']'
        call = f'{fn}({src})' if re.fullmatch(r"[A-Za-z_][A-Za-z0-9_?']*", fn) else None
        if call is None: return None
        if spec[0] == 'err': return {'program': f'try {call} catch e -> "raised"', 'expect': {'equals': 'OK "raised"'}}
        if spec[0] == 'freq':
            vals = [mval(model, x) for x in X]; ds = sorted(set(vals))
            return {'program': f'sort(items({call}))', 'expect': {'equals': 'OK [' + ', '.join(f'[{d}, {vals.count(d)}]' for d in ds) + ']'}}
        exp = expected(model)
        if exp is None: return {'program': f'try {call} catch e -> "raised"', 'expect': {'not_panic': 1}}
        return {'program': call, 'expect': {'equals': 'OK ' + exp}}
    pref = [[z3.And(*[z3.And(x >= 0, x <= 2) for x in X])]] if X else ()
    for pc, kd, res, lg in E.explore(run, max_paths=400):
        ob.paths += 1; name = f'{fn} on a list of {n}'
        if kd == 'panic': ob.panic(name + ' panic-free', pc, res, replay=replay, cls=f'C13/{fn}/panic', prefer=pref); continue
        if kd != 'ok': ob.missing(name, f'{kd}: {res}'); continue
        if spec[0] == 'any': goal = z3.BoolVal(True)
        elif spec[0] == 'err': goal = z3.BoolVal(res.variant == 'Err')
        elif res.variant != 'Ok': goal = z3.BoolVal(False)
        elif spec[0] == 'val': goal = val_eq(res.fields[0], spec[1])
        elif spec[0] == 'unique':
            r = items_of(res.fields[0])
            if r is None: goal = z3.BoolVal(False)
            else:
                first = [z3.And(*[X[j] != X[i] for j in range(i)]) if i else z3.BoolVal(True) for i in range(n)]
                rank = [z3.Sum([z3.If(first[j], 1, 0) for j in range(i)]) if i else z3.IntVal(0) for i in range(n)]
                total = z3.Sum([z3.If(fi, 1, 0) for fi in first]) if n else z3.IntVal(0)
                cl_ = [z3.IntVal(len(r)) == total]
                for i in range(n):
                    cl_.append(z3.Implies(first[i], z3.Or(*[z3.And(rank[i] == p, (ival(r[p]) == X[i]) if ival(r[p]) is not None else z3.BoolVal(False)) for p in range(len(r))]) if r else z3.BoolVal(False)))
                goal = z3.And(*cl_)
        else:          # frequencies: a dict with default 0 whose entries are exactly (distinct element -> number of occurrences)
            d = res.fields[0]
            if not (d.variant == 'Seq' and d.fields[0].variant == 'Dict'): goal = z3.BoolVal(False)
            else:
                pay = d.fields[0].fields[0].obj.cell.v; dflt = d.fields[0].fields[1]
                ents = pay.fields[0].fields if isinstance(pay, Adt) and pay.ty == 'HashMap' else pay.fields          # a collected map may still be the list of its (key, value) pairs
                ks = [ival(e.fields[0].fields[0]) for e in ents]; vs = [ival(e.fields[1]) for e in ents]
                if any(k is None for k in ks) or any(v is None for v in vs): goal = z3.BoolVal(False)
                else:
                    cnt = [z3.Sum([z3.If(X[j] == X[i], 1, 0) for j in range(n)]) for i in range(n)]
                    distinct = z3.Sum([z3.If(z3.And(*[X[j] != X[i] for j in range(i)]) if i else z3.BoolVal(True), 1, 0) for i in range(n)]) if n else z3.IntVal(0)
                    cl_ = [z3.IntVal(len(ents)) == distinct, z3.BoolVal(dflt.variant == 'Some' and ival(dflt.fields[0].cell.v if isinstance(dflt.fields[0], BoxV) else dflt.fields[0]) is not None)]
                    for i in range(n): cl_.append(z3.Or(*[z3.And(ks[t] == X[i], vs[t] == cnt[i]) for t in range(len(ents))]) if ents else z3.BoolVal(False))
                    goal = z3.And(*cl_)
        ob.check(name + ' = its definition', pc, goal, replay=replay, cls=f'C13/{fn}/value', prefer=pref, sample='the one-line definition of BUILTINS.md over the symbolic elements'); ob.witness(res.variant)
    ob.absorb_engine(E)

def shape_window(item, ob):
    n, k = item
    E = eng(); cl = builtin_closures(E); f = cl.get('window')
    if f is None: raise Missing('builtin closure window not found')
    X = [z3.Int(f'e{i}') for i in range(n)]
    def run():
        E.assume(*[in_i64(x) for x in X])
        return E.run_fn(f, [Closure(f.params[0][1], []), olist([num(x) for x in X]), num(k)])
    want = [X[i:i + k] for i in range(0, n - k + 1)] if k <= n else []
    def replay(model):
        src = '[' + ', '.join(fmt_int(mval(model, x)) for x in X) + ']'
        return {'program': f'{src} window {k}', 'expect': {'equals': 'OK ' + render(want, model)}}
    for pc, kd, res, lg in E.explore(run, max_paths=200):
        ob.paths += 1; name = f'window {k} on a list of {n}'
        if kd == 'panic': ob.panic(name + ' panic-free', pc, res, replay=replay, cls='C13/window/panic'); continue
        if kd != 'ok': ob.missing(name, f'{kd}: {res}'); continue
        goal = val_eq(res.fields[0], want) if res.variant == 'Ok' else z3.BoolVal(False)
        ob.check(name + ' = slices of that length in order', pc, goal, replay=replay, cls='C13/window/value', sample='[xs[i:i+k] for i in 0..n-k]'); ob.witness(res.variant)
    ob.absorb_engine(E)

def shape_member(item, ob):
    fn, n = item
    pos, positive = MEMBER[fn]
    E = eng(); cl = builtin_closures(E); f = cl.get(fn)
    if f is None: raise Missing(f'builtin closure {fn!r} not found')
    X = [z3.Int(f'e{i}') for i in range(n)]; Q = z3.Int('q')
    def run():
        E.assume(in_i64(Q), *[in_i64(x) for x in X])
        lst = olist([num(x) for x in X]); args = [num(Q), lst] if pos == 0 else [lst, num(Q)]
        return E.run_fn(f, [Closure(f.params[0][1], [])] + args)
    isin = z3.Or(*[x == Q for x in X]) if X else z3.BoolVal(False)
    want = z3.If(isin if positive else z3.Not(isin), 1, 0)
    def replay(model):
        src = '[' + ', '.join(fmt_int(mval(model, x)) for x in X) + ']'; q = fmt_int(mval(model, Q))
        a, b = (q, src) if pos == 0 else (src, q)
        return {'program': f'({a}) {fn} ({b})', 'expect': {'equals': f'OK {mval(model, want)}'}}
    pref = [[z3.And(Q >= 0, Q <= 2, *[z3.And(x >= 0, x <= 2) for x in X])]]
    for pc, kd, res, lg in E.explore(run, max_paths=200):
        ob.paths += 1; name = f'{fn} with a list of {n}'
        if kd == 'panic': ob.panic(name + ' panic-free', pc, res, replay=replay, cls=f'C13/{fn}/panic', prefer=pref); continue
        if kd != 'ok': ob.missing(name, f'{kd}: {res}'); continue
        goal = val_eq(res.fields[0], want) if res.variant == 'Ok' else z3.BoolVal(False)
        ob.check(name + ' = membership by ==', pc, goal, replay=replay, cls=f'C13/{fn}/value', prefer=pref, sample='1 iff some element equals the value (negated forms: 0)'); ob.witness(res.variant)
    ob.absorb_engine(E)

def shape_flatten(item, ob):
    lens = item
    E = eng(); cl = builtin_closures(E); f = cl.get('flatten')
    if f is None: raise Missing('builtin closure flatten not found')
    X = [[z3.Int(f'e{i}_{j}') for j in range(m)] for i, m in enumerate(lens)]
    def run():
        E.assume(*[in_i64(x) for row in X for x in row])
        return E.run_fn(f, [Closure(f.params[0][1], []), olist([olist([num(x) for x in row]) for row in X])])
    want = [x for row in X for x in row]
    def replay(model):
        src = '[' + ', '.join('[' + ', '.join(fmt_int(mval(model, x)) for x in row) + ']' for row in X) + ']'
        return {'program': f'flatten({src})', 'expect': {'equals': 'OK ' + render(want, model)}}
    for pc, kd, res, lg in E.explore(run, max_paths=200):
        ob.paths += 1; name = f'flatten on rows of lengths {lens}'
        if kd == 'panic': ob.panic(name + ' panic-free', pc, res, replay=replay, cls='C13/flatten/panic'); continue
        if kd != 'ok': ob.missing(name, f'{kd}: {res}'); continue
        goal = val_eq(res.fields[0], want) if res.variant == 'Ok' else z3.BoolVal(False)
        ob.check(name + ' = the concatenation of the rows', pc, goal, replay=replay, cls='C13/flatten/value', sample='one level, order kept'); ob.witness(res.variant)
    ob.absorb_engine(E)

def run_shape(item, ob):
    fam, payload = item
    if fam == 'pair':
        from props import equiv
        equiv.MIR = MIR; return equiv.run_item(item, ob)
    {'unary': shape_unary, 'window': shape_window, 'member': shape_member, 'flatten': shape_flatten}[fam](payload, ob)

def main(tier, seed, t0):
    global MIR
    MIR, th = load_mir('on')
    N = 3 if tier == 'quick' else 4
    items = []
    for fn in UNARY:
        for n in range(0, N + 1): items.append(('unary', (fn, n)))
    for n in range(0, N + 1):
        for k in (1, 2, 3): items.append(('window', (n, k)))
    for fn in MEMBER:
        for n in range(0, N + 1): items.append(('member', (fn, n)))
    for lens in ((), (0,), (2,), (1, 2), (0, 1, 0), (2, 0, 1)): items.append(('flatten', lens))
    # functions that call back into the evaluator: the library function vs its executable specification written in noulith (props/equiv.py)
    from props import equiv
    equiv.preparse('C13'); items += equiv.items_for('C13')
    merged, per = pmap(run_shape, items, tier)
    return finish(PROP, tier, seed, merged, t0, th=th,
        kernels=['lib.rs: builtin closures reverse, tail, butlast, uncons, uncons?, unsnoc, unsnoc?, second, third, only, len, enumerate, prefixes, suffixes, window, unique, frequencies, flatten, in, ∈, not_in, ∉, contains, ∋, ∌ '
                 '(with multi!, uncons/unsnoc helpers, uniqued, prefixes/suffixes helpers, mut_seq_into_iter, RcVecIter, ObjKey equality and hashing)'],
        bounds={'inputs': f'lists of 0..{N} symbolic integers (every i64 value, every equality pattern between the elements); window sizes 1..3; flatten on lists of up to 3 rows',
                'functions': f'{len(UNARY)} unary functions, window, flatten, 7 membership operators'},
        outside=['callback-taking functions other than map, filter, fold, group (relation form), max / min (those six are compared with their specification written in noulith, props/equiv.py family C13)', 'strings, vectors, bytes, dicts and streams as inputs',
                 'scan / sort / sort_on / transpose / take / drop / zip / ziplongest / pairwise / sum / product / ++ / join / split / words / lines', 'lists longer than the bound'],
        assumptions=['error constructors are opaque', 'HashMap / SipHash trusted as in C09 (equal hash traces = same bucket)'])
