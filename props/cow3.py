"""C02 at statement level: the real evaluator (props/evalh.py) runs a mutation statement on a variable of a real Env — bare or
type-annotated, unshared or aliased by a second variable — and the observable is the clone log of the Rc model, as in
props/cow.py.  This covers what the kernels cannot show: the statement paths that hand the variable's cell to the kernels
(OpAssign's drop-before-call, assign_respecting_type, modify_every)."""
import z3
from lib.common import *
from props import evalh

MIR = None
STMTS = ['a append= y', 'a[i] = y', 'a[i] += y', 'every a[0:2] = y', 'every a[0:2] += y', 'pop a', 'a[0], a[1] = a[1], a[0]', 'swap a[0], a[1]',
         '(d[1] = []) append= y', 'd[1] append= y', 'd[1][i] = y']          # buckets of a dict d = {1: [...]} (the grouping idiom with a default, and plain)
def items_for(tier, seed):
    return [('stmt', (si, typed, alias)) for si in range(len(STMTS)) for typed in (False, True) for alias in (False, True)]

def scaling(stmt, typed, alias):
    """native replay: bytes requested from the allocator for k statements on n_small vs n_big elements"""
    decl = 'a: list = ' if typed else 'a := '
    def prog(N, K):
        body = re.sub(r'\by\b', '7', stmt.replace('[i]', f'[j % {N}]'))
        al = 'b := a; ' if alias else ''
        if 'd[1]' in stmt:
            ddecl = 'd: dict = ' if typed else 'd := '
            return f'{ddecl}{{1: (0 til {N}) then list}}; {"b := d; " if alias else ""}for (j <- 0 til {K}) ({body}); len(d[1])'
        return f'{decl}(0 til {N}) then list; {al}for (j <- 0 til {K}) ({body}); len(a)'
    K = 4000 if 'pop' not in stmt else 8
    if 'pop' in stmt: return {'timing': {'small': prog(10 + K, K), 'base': prog(30000, 0), 'big': prog(30000, K), 'ratio': 5, 'metric': 'alloc'}, 'program': None}
    return {'timing': {'small': prog(10, K), 'base': prog(30000, 0), 'big': prog(30000, K), 'ratio': 5, 'metric': 'alloc'}, 'program': None}

def run_shape(item, ob, mode='C02'):
    si, typed, alias = item[1]
    stmt = STMTS[si]; text = stmt + '; 0'
    E = evalh.eng(MIR); ast, = evalh.parse_programs([text]); I, Yv = z3.Int('i'), z3.Int('y')
    def run():
        E.assume(in_i64(I), in_i64(Yv))
        lst = evalh.olist([evalh.num(z3.IntVal(10 + k)) for k in range(3)])
        binds = {'a': (Adt('ObjType', 'List' if typed else 'Any', []), lst), 'i': evalh.num(I), 'y': evalh.num(Yv)}
        if alias: binds['b'] = E.clone_value(lst)
        if 'd[1]' in stmt:
            from mirsym.hashmap import hm
            bucket = evalh.olist([evalh.num(z3.IntVal(20 + k)) for k in range(3)])
            dct = Adt('Obj', 'Seq', [Adt('Seq', 'Dict', [RcV(RcObj(hm([Tup([Adt('ObjKey', None, [evalh.num(z3.IntVal(1))]), bucket])]))), opt()])])
            binds['d'] = (Adt('ObjType', 'Dict' if typed else 'Any', []), dct)
            if alias: binds['b'] = E.clone_value(dct)
        env = evalh.top_env(binds, builtins=('+', '-', '*', '<', '==', 'append'))
        E.log.clear()
        r = evalh.run_program(E, ast, env)
        return r, list(E.log)
    trep = lambda m: scaling(stmt, typed, alias)
    for pc, kd, res, lg in E.explore(run, max_paths=300):
        ob.paths += 1; name = f'statement `{stmt}` on a {"list-typed" if typed else "bare"} variable, {"aliased" if alias else "unshared"}'
        if kd == 'panic': ob.panic(name + ' panic-free', pc, res, cls=f'{mode}/statement/panic'); continue
        if kd != 'ok': ob.missing(name, f'{kd}: {res}'); continue
        r, log = res
        copies = [l for l in log if l[0] in ('make_mut_clone', 'realloc') or (l[0] == 'deep_clone' and str(l[1]).startswith('Vec'))]
        bound = 0 if not alias else (2 if 'd[1]' in stmt else 1)          # with an alias: one copy per level of the path (dict, then its bucket)
        ob.check(name + f' copies <= {bound}', pc, z3.BoolVal(len(copies) <= bound), replay=trep, cls=f'{mode}/statement `{stmt}`/extra-copy',
                 sample=f'clone log {copies}'); ob.witness(r.variant)
    ob.absorb_engine(E)
