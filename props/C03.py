"""C03 — infix chains group by the operators' runtime precedence and associativity.

Symbolic execution of the real MIR of ChainEvaluator::{new, give, run_top, run_top_popped, finish}, Precedence::
tighter_than_when_before and add_trace on a chain e0 f1 e1 ... fK eK.  Every operator's precedence is an arbitrary f64
(NaN, +-inf, any real), its associativity is enumerated, and "f chains with g" (Func::try_chain) is an arbitrary Boolean per
(merged) operator pair; Func::run is a recorder that builds the application tree and logs the application order.
Oracle: leftmost-handle (operator-precedence) reduction written independently of the stack algorithm (DESIGN A.4), evaluated
under each implementation path condition; the tree and the application order must coincide for every assignment."""
import itertools, random
import z3
from lib.common import *

PROP = 'C03'
MIR = None
def eng(): return new_engine(MIR)

def leaf(k): return Adt('Obj', 'Num', [Adt('NNum', 'Int', [Adt('NInt', 'Small', [z3.IntVal(k)])])])
def tree_of(o):
    if isinstance(o, Adt) and o.ty == 'Obj' and o.variant == 'App': return (o.fields[0], tuple(tree_of(x) for x in o.fields[1]))
    if isinstance(o, Adt) and o.ty == 'Obj' and o.variant == 'Num': return z3.simplify(o.fields[0].fields[0].fields[0]).as_long()
    return repr(o)
def show(t):
    if isinstance(t, int): return f'e{t}'
    if isinstance(t, str): return f'<{t[:40]}>'
    op, args = t
    return '(' + '+'.join(f'f{i + 1}' for i in op) + ' ' + ' '.join(show(a) for a in args) + ')'

def chain_var(a, b): return z3.Bool('chain_' + '_'.join(map(str, a)) + '__' + str(b))

def shape_chain(item, ob):
    K, assocs = item
    E = eng()
    f_new = find_fn(E, 'new', pred=lambda g: 'ChainEvaluator' in g.ret and 'Lvalue' not in g.ret and len(g.params) == 1)
    f_give = find_fn(E, 'give', pred=lambda g: len(g.params) == 7)
    f_fin = find_fn(E, 'finish', pred=lambda g: len(g.params) == 2 and 'ChainEvaluator' in g.params[0][1] and 'Lvalue' not in g.params[0][1])
    PK = [z3.Int(f'pk{i}') for i in range(K)]; PV = [z3.Real(f'pv{i}') for i in range(K)]
    calls = []
    def stub_run(eng_, args):
        op = eng_.deref(args[0]); operands = args[2]
        ident = op.fields[0]
        calls.append((ident, tuple(tree_of(x) for x in operands.fields)))
        return ok(Adt('Obj', 'App', [ident, list(operands.fields)]))
    def stub_chain(eng_, args):
        a, b = eng_.deref(args[0]), eng_.deref(args[1])
        ia, ib = a.fields[0], b.fields[0]
        if eng_.branch(chain_var(ia, ib[0])): return opt(Adt('Func', 'Op', [ia + ib]))
        return opt()
    def run():
        calls.clear()
        for i in range(K): E.assume(PK[i] >= 0, PK[i] <= 3, z3.Implies(PK[i] != 3, PV[i] == 0))
        env = Ref(Cell(Adt('Env', None, [])), []); loc = Adt('CodeLoc', None, [z3.IntVal(1), z3.IntVal(1), z3.IntVal(0)])
        ev = E.run_fn(f_new, [leaf(0)]); cell = Cell(ev)
        for i in range(K):
            prec = Adt('Precedence', None, [F64(PK[i], PV[i]), Adt('Assoc', assocs[i], [])])
            r = E.run_fn(f_give, [Ref(cell, []), env, Adt('Func', 'Op', [(i,)]), prec, leaf(i + 1), loc, loc])
            if r.variant != 'Ok': raise Missing('give returned Err with a total operator')
        r = E.run_fn(f_fin, [cell.v, env])
        if r.variant != 'Ok': raise Missing('finish returned Err with a total operator')
        return tree_of(r.fields[0]), list(calls)
    for nm in list(E.by_name):
        if nm.endswith('::run') and 'impl core::Func' in nm.replace('impl at', 'impl core::Func') and False: pass
    run_fn = [f for f in E.by_last.get('run', []) if len(f.params) == 3 and f.params[0][1].strip() in ('&Func', '&core::Func') and 'Vec<' in f.params[2][1]]
    chain_fn = [f for f in E.by_last.get('try_chain', []) if len(f.params) == 2 and f.params[0][1].strip() in ('&Func', '&core::Func')]
    if len(run_fn) != 1 or len(chain_fn) != 1: raise Missing(f'Func::run / Func::try_chain not found uniquely ({len(run_fn)}, {len(chain_fn)})')
    orig_run_fn = E.run_fn
    def run_fn_hook(f, args):
        if f is run_fn[0]: E.used_stubs.add('Func::run -> application recorder'); return stub_run(E, args)
        if f is chain_fn[0]: E.used_stubs.add('Func::try_chain -> arbitrary Boolean per operator pair'); return stub_chain(E, args)
        return orig_run_fn(f, args)
    E.run_fn = run_fn_hook
    paths = E.explore(run)
    # ------------------------------------------------------------------ reference semantics, evaluated under each path condition
    def lt_(i, j): return z3.Or(z3.And(PK[i] == 2, PK[j] != 2, PK[j] != 0), z3.And(PK[j] == 1, PK[i] != 1, PK[i] != 0), z3.And(PK[i] == 3, PK[j] == 3, PV[i] < PV[j]))
    def before(i, j):
        """operator with leftmost constituent i is applied before its right neighbour j: higher precedence, or (tie or NaN) and left-associative"""
        gt = lt_(j, i); lt = lt_(i, j)
        return z3.Or(gt, z3.And(z3.Not(gt), z3.Not(lt), z3.BoolVal(assocs[i] == 'Left')))
    nq = [0]
    def spec_results(pc):
        s = z3.Solver(); s.set('timeout', 10000); s.add(*pc)
        out = []; stack = []
        def feas(c):
            s.push(); s.add(c); r = s.check(); s.pop(); nq[0] += 1
            if r == z3.unknown: raise Missing('solver unknown in reference evaluation')
            return r == z3.sat
        def under(c, fn):
            stack.append(c); s.push(); s.add(c)
            try: fn()
            finally: s.pop(); stack.pop()
        def rec(operands, ops, log):
            # operands: list of trees; ops: list of (operator identity tuple, n) where the operator owns n + 1 consecutive operands
            if not ops: out.append((operands[0], tuple(log), list(stack))); return
            def reduce(h):
                ident, n = ops[h]
                start = sum(k for _, k in ops[:h])
                args = operands[start:start + n + 1]
                node = (ident, tuple(args))
                rec(operands[:start] + [node] + operands[start + n + 1:], ops[:h] + ops[h + 1:], log + [(ident, tuple(args))])
            def merge(h):
                ident, n = ops[h]; ident2, n2 = ops[h + 1]
                rec(operands, ops[:h] + [(ident + ident2, n + n2)] + ops[h + 2:], log)
            def scan(h):
                # leftmost operator that is last or is applied before its right neighbour
                if h == len(ops) - 1: reduce(h); return
                b = before(ops[h][0][0], ops[h + 1][0][0])
                if feas(b):
                    def inner():
                        c = chain_var(ops[h][0], ops[h + 1][0][0])
                        if feas(c): under(c, lambda: merge(h))
                        if feas(z3.Not(c)): under(z3.Not(c), lambda: reduce(h))
                    under(b, inner)
                if feas(z3.Not(b)): under(z3.Not(b), lambda: scan(h + 1))
            scan(0)
        rec(list(range(K + 1)), [((i,), 1) for i in range(K)], [])
        return out
    def lit_prec(model, i):
        k = mval(model, PK[i])
        if k == 0: return '(0.0/0.0)'
        if k == 1: return '(1.0/0.0)'
        if k == 2: return '((0-1.0)/0.0)'
        q = mval(model, PV[i]); return f'({q.numerator}.0/{q.denominator}.0)' if q >= 0 else f'((0-{-q.numerator}.0)/{q.denominator}.0)'
    for pc, kind, res, lg in paths:
        ob.paths += 1; name = f'chain K={K} assoc={"".join(a[0] for a in assocs)}'
        if kind == 'panic': ob.panic(name + ' panic-free', pc, res, cls='C03/chain/panic'); continue
        if kind != 'ok': ob.missing(name, f'{kind}: {res}'); continue
        tree, order = res
        try: specs = spec_results(pc)
        except Missing as e: ob.missing(name, str(e)); continue
        ob.solver_time += 0
        for stree, sorder, sconds in specs:
            okk = (stree == tree and tuple(sorder) == tuple(order))
            def replay(model, stree=stree):
                # kernel-level replay: the real ChainEvaluator driven with recorder operators of exactly these precedences,
                # associativities and chain relation (nlrun `@chain`); the printed tree must be the reference tree
                import struct
                toks = []
                for i in range(K):
                    k = mval(model, PK[i])
                    if k == 0: f = float('nan')
                    elif k == 1: f = float('inf')
                    elif k == 2: f = float('-inf')
                    else:
                        q = mval(model, PV[i]); f = float(q)
                        if Fraction(f) != q: return None
                    toks += ['%016x' % struct.unpack('<Q', struct.pack('<d', f))[0], assocs[i][0]]
                for d in model.decls():
                    nm = d.name()
                    if nm.startswith('chain_') and z3.is_true(model[d]):
                        a_, b_ = nm[len('chain_'):].split('__'); toks.append(f'{a_}:{b_}')
                def rend(t):
                    if isinstance(t, int): return str(100 + t)
                    op, args = t; return '["op:' + '_'.join(map(str, op)) + '", ' + ', '.join(rend(x) for x in args) + ']'
                return {'program': f'@chain {K} ' + ' '.join(toks), 'expect': {'equals': 'K ' + rend(stree)}}
            dy = [[z3.And(*[z3.And(z3.IsInt(PV[i] * 4), PV[i] >= -8, PV[i] <= 8) for i in range(K)])]]
            ob.check(name + f' impl {show(tree)} vs reference {show(stree)}', list(pc) + sconds, z3.BoolVal(okk), replay=replay, cls='C03/chain/grouping', prefer=dy,
                     sample=f'impl tree {show(tree)}, application order {[show((i, a)) for i, a in order]}')
        if not specs: ob.missing(name, 'reference produced no case for a feasible implementation path')
        ob.witness('path')
    ob.n += 0
    ob.extra = {'reference_feasibility_queries': nq[0]}
    ob.absorb_engine(E)

def shape_tighter(item, ob):
    """Precedence::tighter_than_when_before for every pair of f64 (NaN, +-inf, reals) and both associativities"""
    assoc = item
    E = eng(); f = find_fn(E, 'tighter_than_when_before')
    K1, V1, K2, V2 = z3.Int('k1'), z3.Real('v1'), z3.Int('k2'), z3.Real('v2')
    def run():
        E.assume(K1 >= 0, K1 <= 3, K2 >= 0, K2 <= 3)
        a = Adt('Precedence', None, [F64(K1, V1), Adt('Assoc', assoc, [])]); b = Adt('Precedence', None, [F64(K2, V2), Adt('Assoc', 'Left', [])])
        return E.run_fn(f, [Ref(Cell(a)), Ref(Cell(b))])
    def key(k): return z3.If(k == 1, 1, z3.If(k == 2, -1, 0))
    nan = z3.Or(K1 == 0, K2 == 0)
    gt = z3.And(z3.Not(nan), z3.Or(key(K1) > key(K2), z3.And(key(K1) == 0, key(K2) == 0, V1 > V2)))
    lt = z3.And(z3.Not(nan), z3.Or(key(K1) < key(K2), z3.And(key(K1) == 0, key(K2) == 0, V1 < V2)))
    want = z3.Or(gt, z3.And(z3.Not(gt), z3.Not(lt), z3.BoolVal(assoc == 'Left')))
    for pc, kind, res, lg in E.explore(run):
        ob.paths += 1; name = f'tighter_than_when_before assoc={assoc}'
        if kind != 'ok': ob.missing(name, f'{kind}: {res}') if kind != 'panic' else ob.panic(name, pc, res, cls='C03/tighter/panic'); continue
        ob.check(name, pc, res == want, cls='C03/tighter/value', sample='tighter iff greater, or tie/NaN and left-associative'); ob.witness('value')
    ob.absorb_engine(E)

def run_shape(item, ob):
    fam, payload = item
    {'chain': shape_chain, 'tighter': shape_tighter}[fam](payload, ob)

def main(tier, seed, t0):
    global MIR
    MIR, th = load_mir('on')
    KMAX = 3 if tier == 'quick' else 4
    items = [('tighter', 'Left'), ('tighter', 'Right')]
    for K in range(1, KMAX + 1):
        for assocs in itertools.product(('Left', 'Right'), repeat=K): items.append(('chain', (K, assocs)))
    rnd = random.Random(seed)
    if tier == 'quick':
        for assocs in rnd.sample(list(itertools.product(('Left', 'Right'), repeat=4)), 4): items.append(('chain', (4, assocs)))
    else:
        # thorough: every associativity assignment at length 5 as well (about 2 700 paths each)
        for assocs in itertools.product(('Left', 'Right'), repeat=5): items.append(('chain', (5, assocs)))
    items.sort(key=lambda it: -(it[1][0] if it[0] == 'chain' else 0))
    merged, per = pmap(run_shape, items, tier)
    return finish(PROP, tier, seed, merged, t0, th=th,
        kernels=['eval.rs: ChainEvaluator::{new, give, run_top, run_top_popped, finish}, add_trace', 'core.rs: Precedence::tighter_than_when_before'],
        bounds={'chain length': f'1..{KMAX} operators, every associativity assignment' + (' plus 4 of the 16 assignments at length 4 (VERIF_SEED)' if tier == 'quick' else ' plus all 32 assignments at length 5'),
                'precedences': 'every f64 per operator: NaN, +inf, -inf, every real (ties included)', 'chain relation': 'arbitrary Boolean per (merged) operator pair'},
        outside=['chains longer than the bound', 'evaluation order of operand/operator expressions in Expr::Chain and the single-operator fast path (evaluator arm)', 'LvalueChainEvaluator (same algorithm on patterns)', 'Func::ChainSection',
                 'which builtins declare themselves chainable (try_chain implementations in lib.rs)'],
        assumptions=['Func::run is total here (recorder); error propagation through add_trace is the `?` operator', 'f64::partial_cmp per IEEE (NaN unordered)'],
        extra_cov={'reference': 'leftmost-handle reduction (DESIGN A.4) evaluated under each implementation path condition'})
