//! Kani harnesses over noulith's machine-word index kernels (C10).  The kernels only read `xs.len()`, so the slice is a
//! zero-sized-element slice of fully symbolic length (0 ..= isize::MAX): there is no length bound at all.
//! Oracle: Python's indexing / slice clamping written with i128 arithmetic.
#![allow(dead_code)]

#[cfg(kani)]
mod harness {
    use noulith::{clamped_pythonic_index, pythonic_index_isize, pythonic_slice};

    fn fmt_stub(_args: std::fmt::Arguments<'_>) -> String {
        String::new()
    }

    fn any_unit_slice() -> &'static [()] {
        let len: usize = kani::any();
        kani::assume(len <= isize::MAX as usize);
        // a slice of zero-sized elements: any length is valid for a dangling, aligned pointer
        unsafe { std::slice::from_raw_parts(std::ptr::NonNull::<()>::dangling().as_ptr(), len) }
    }

    #[kani::proof]
    #[kani::unwind(2)]
    #[kani::stub(std::fmt::format, fmt_stub)]
    fn index_isize_matches_python() {
        let xs = any_unit_slice();
        let n: isize = kani::any();
        let len = xs.len() as i128;
        let r = pythonic_index_isize(xs, n);
        let ni = n as i128;
        if ni >= 0 && ni < len {
            kani::cover!(true, "in range, non-negative");
            assert!(matches!(r, Ok(i) if i as i128 == ni));
        } else if ni < 0 && ni >= -len {
            kani::cover!(true, "in range, negative");
            assert!(matches!(r, Ok(i) if i as i128 == len + ni));
        } else {
            kani::cover!(true, "out of range");
            assert!(r.is_err());
        }
        std::mem::forget(r);
    }

    #[kani::proof]
    #[kani::unwind(2)]
    fn clamped_index_matches_python() {
        let xs = any_unit_slice();
        let i: isize = kani::any();
        let len = xs.len() as i128;
        let r = clamped_pythonic_index(xs, i) as i128;
        let ii = i as i128;
        let want = if ii >= 0 { if ii < len { ii } else { len } } else if len + ii > 0 { len + ii } else { 0 };
        kani::cover!(ii > len, "clamped high");
        kani::cover!(ii < -len, "clamped low");
        assert!(r == want);
    }

    #[kani::proof]
    #[kani::unwind(2)]
    fn slice_matches_python() {
        let xs = any_unit_slice();
        let lo: Option<isize> = kani::any();
        let hi: Option<isize> = kani::any();
        let len = xs.len() as i128;
        let clamp = |v: isize| -> i128 {
            let v = v as i128;
            if v >= 0 { if v < len { v } else { len } } else if len + v > 0 { len + v } else { 0 }
        };
        let l = match lo { Some(v) => clamp(v), None => 0 };
        let h = match hi { Some(v) => clamp(v), None => len };
        let (a, b) = pythonic_slice(xs, lo, hi);
        kani::cover!(h < l, "empty because hi < lo");
        kani::cover!(lo.is_none() && hi.is_none(), "both omitted");
        assert!(a as i128 == l);
        assert!(b as i128 == if h > l { h } else { l });
        assert!(a <= b && b <= xs.len());
    }
}
