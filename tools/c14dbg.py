#!/usr/bin/env python3-vt
"""tools/c14dbg.py <builtin> <kind> [<kind> ...]   — run one builtin closure of the C14 sweep on one kind tuple and print every path
(debug aid: shows the full `no model for ...` message or the encoder traceback).  With `--list` as builtin: tally reasons over all."""
import sys, os, traceback
sys.path.insert(0, os.path.dirname(os.path.dirname(os.path.abspath(__file__))))
from lib.common import *
from props import C14
from props.C06 import builtin_closures

def main():
    C14.MIR, th = load_mir('on')
    name = sys.argv[1]; combo = tuple(sys.argv[2:])
    E = C14.eng(); cl = builtin_closures(E); f = cl[name]
    ptys = [t for _, t in f.params[1:]]
    print('fn', f.name, 'params', ptys)
    made = [C14.mk_arg(k, f'x{i}', ptys[i]) for i, k in enumerate(combo)]
    if any(m is None for m in made): print('kind not applicable to the parameter type'); return
    def run():
        fresh = [C14.mk_arg(k, f'x{i}', ptys[i]) for i, k in enumerate(combo)]
        for m in fresh: E.assume(*m[1])
        return E.run_fn(f, [Closure(f.params[0][1], [])] + [m[0] for m in fresh])
    try:
        for pc, kd, res, lg in E.explore(run, max_paths=400):
            print(kd, str(res)[:400])
    except Exception:
        traceback.print_exc()
        tb = sys.exc_info()[2]
        while tb.tb_next: tb = tb.tb_next
        for k, v in tb.tb_frame.f_locals.items(): print('  local', k, '=', repr(v)[:300])
        fr = tb.tb_frame.f_back
        while fr is not None:
            if fr.f_code.co_name == 'call': print('  in call:', fr.f_locals.get('callee0'), '<-', getattr(fr.f_locals.get('fn'), 'name', None)); break
            fr = fr.f_back
main()
