#!/bin/bash
# usage: tools/allquick.sh [outdir]   — run every registered quick command the way it is exercised from a fresh restore:
# evidence file removed first, VERIF_SEED / VERIF_TIER exported, one log per check, a one-line verdict per check.
# Exit 0 only if every check exited 0, printed no VIOLATION line and rewrote its evidence.
set -u
cd "$(dirname "$0")/.." || exit 9
out="${1:-$(mktemp -d)}"; mkdir -p "$out"
export CARGO_NET_OFFLINE=true GOPROXY=off PIP_NO_INDEX=1 VERIF_SEED="${VERIF_SEED:-1}" VERIF_TIER=quick
bad=0
while IFS=$'\t' read -r id cmd; do
  rm -f "evidence/$id.json"; s=$(date +%s)
  sh -c "$cmd" > "$out/$id.log" 2>&1; rc=$?
  ev=yes; [ -s "evidence/$id.json" ] || ev=NO
  v=$(grep -c '^VIOLATION' "$out/$id.log")
  echo "$id rc=$rc t=$(( $(date +%s) - s ))s evidence=$ev violation_lines=$v"
  [ "$rc" = 0 ] && [ "$ev" = yes ] && [ "$v" = 0 ] || bad=1
done < <(jq -r '.. | objects | select(has("quick_cmd")) | "\(.property_id)\t\(.quick_cmd)"' MANIFEST.json)
echo "logs in $out"; exit $bad
