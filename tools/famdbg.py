#!/usr/bin/env python3-vt
"""tools/famdbg.py <family> [substring] — run the equivalence pairs of one family (props/equiv.py) and print one verdict line per pair (debug aid)"""
import sys, os, time
sys.setrecursionlimit(20000)
sys.path.insert(0, os.path.dirname(os.path.dirname(os.path.abspath(__file__))))
from lib.common import *
from props import equiv
def run(item, ob):
    equiv.run_item(item, ob)
def main():
    fam = sys.argv[1]; sub = sys.argv[2] if len(sys.argv) > 2 else ''
    equiv.MIR, th = load_mir('on')
    equiv.preparse(fam)
    F = equiv.FAMILIES[fam]()
    for i, it in enumerate(F):
        if sub not in it[0]: continue
        ob = Obligations('quick'); t = time.time()
        try: equiv.shape_pair(fam, it, ob)
        except Exception as e: print(f'!! {it[0]}: EXC {e!r}'[:300]); continue
        v = [(x['class'].split('/')[-1], (x['replay'] or {}).get('program', '')[:0]) for x in ob.viol]
        print(f'{"OK " if ob.n and ob.discharged == ob.n and not ob.inconclusive else "-- "}{it[0]}: n={ob.n} ok={ob.discharged} viol={len(ob.viol)} inconcl={[i["reason"][:160] for i in ob.inconclusive[:2]]} {time.time()-t:.0f}s', flush=True)
        for x in ob.viol[:1]: print('     model', x['model'][:100], '| replay', str((x['replay'] or {}).get('program'))[:400])
main()
