#!/bin/bash
# usage: tools/confirm_seed.sh <Cxx> <i>     — independent confirmation of a seeded change in its scratch worktree /tmp/seed_<Cxx>
#   1. the patch applies and builds, 2. the existing suite still has its 48 passing tests, 3. the demo fails with the change,
#   4. the demo passes without it.  Prints one summary line; leaves the worktree clean.
set -u
id="$1"; i="$2"; pfx="${SEEDPFX:-seed}"; wt=/tmp/${pfx}_$id; out=/tmp/${pfx}_$id.out
cd "$wt" || exit 9
git checkout -q -- . ; rm -f tests/demo_*.rs
git apply "$out/patch_$i.diff" || { echo "$id/$i: PATCH DOES NOT APPLY"; exit 1; }
cp "$out/demo_$i.rs" tests/demo_$i.rs
suite=$(cargo nextest run --workspace --no-fail-fast --offline -E 'not binary(demo_'$i')' 2>&1 | grep -E "Summary|error(\[|:)" | head -3)
demo_with=$(cargo nextest run --offline --no-fail-fast --test demo_$i 2>&1 | grep -E "Summary" | head -1)
git checkout -q -- .
demo_without=$(cargo nextest run --offline --no-fail-fast --test demo_$i 2>&1 | grep -E "Summary" | head -1)
rm -f tests/demo_$i.rs
echo "$id/$i: suite-with-change [$suite] | demo-with-change [$demo_with] | demo-without-change [$demo_without] | clean: $(git status --short | wc -l)"
