#!/bin/bash
# usage: tools/seedpar.sh <Cxx> <i> <check> [<check> ...]
# Runs checks against a seeded change WITHOUT touching /repo: the change /tmp/seed_<Cxx>.out/patch_<i>.diff is applied in its scratch
# worktree /tmp/seed_<Cxx>, a scratch copy of /verif (/tmp/vt_<Cxx>_<i>) is pointed at that worktree (VERIF_REPO, path dependency of nlrun / kani),
# the checks run there, and the worktree is restored. (Development aid for parallel runs; the registered commands always use /repo.)
set -u
id="$1"; i="$2"; shift 2; pfx="${SEEDPFX:-seed}"; wt=/tmp/${pfx}_$id; out=/tmp/${pfx}_$id.out; vt=/tmp/vt_${id}_$i
cd "$wt" || exit 9
git checkout -q -- . ; rm -f tests/demo_*.rs
git apply "$out/patch_$i.diff" || { echo "$id/$i: PATCH DOES NOT APPLY"; exit 1; }
mkdir -p "$vt"
rsync -a --delete --exclude .cache --exclude .git --exclude replays --exclude seeded /verif/ "$vt/"
sed -i "s#path = \"/repo\"#path = \"$wt\"#" "$vt/nlrun/Cargo.toml" "$vt/kani/Cargo.toml"
cd "$vt"
for p in "$@"; do
  o=$(VERIF_REPO="$wt" ./check "$p" 2>&1); code=$?
  echo "== $p on $id/$i: exit $code"
  echo "$o" | grep -E "^\[C|^VIOLATION|violation class|INCONCLUSIVE|KNOWN" | cut -c1-420 | head -${SEEDTEST_LINES:-8}
done
cd "$wt" && git checkout -q -- .
rm -rf "$vt"
