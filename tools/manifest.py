#!/usr/bin/env python3
"""Generates /verif/MANIFEST.json from the table below (run after adding or changing a check)."""
import json, os
VERIF = os.path.dirname(os.path.dirname(os.path.abspath(__file__)))

M = 'mirsym: symbolic execution of rustc MIR (regenerated from /repo on every run) + z3; counterexamples replayed natively'
CLAIMED = {
 'C06': dict(
    text='Bounded symbolic model checking of the real MIR of nint.rs, the integer arms of nnum.rs and the integer builtin closures of lib.rs: for ALL integers a, b '
         '(unbounded; every Small/Big representation combination, including small values in big representation) each operator returns the mathematical result, '
         'eq/cmp/hash ignore the representation, and zero divisors are guarded. Loop-free kernels, so the only bound is the num-bigint contract.',
    note='Trusted: num-bigint implements Z (model table in mirsym/models.py, cross-checked on boundary vectors against the native build on every run); i64::checked_* contract; '
         'gcd/lcm/pow/shift are uninterpreted (routing claim). Outside: is_prime, factorize.',
    design='§7 C06', technique='symbolic execution of rustc MIR + SMT (z3), unbounded integers'),
}
CLAIMED['C08'] = dict(
    text='Bounded symbolic model checking of the real MIR of NNum::{eq, partial_cmp, total_eq, min, max, min_consuming, max_consuming} (through project_to_reals, '
         'NNumReal::*, cmp_nint_f64, to_nint_if_int, NInt::{eq,cmp}), lib::ncmp and the Obj/Seq PartialOrd impls: for EVERY pair of numbers of every level/representation '
         '(all integers, all rationals, all abstract doubles incl. NaN, +-inf, +-0) the answer equals the exact order on the extended reals; lists compare lexicographically; '
         'different kinds are an error. Trichotomy/symmetry/transitivity follow because each pairwise answer is proved equal to the mathematical order.',
    note='Trusted: num-bigint/num-rational implement Z/Q; a finite double is modelled as an arbitrary real (sound over-approximation for the exact float operations on these paths). '
         'Bound: lists of length <= 2 (quick) / <= 3 (thorough). Outside: complex under <, std sort_by, string/bytes order.',
    design='§7 C08', technique='symbolic execution of rustc MIR + SMT (z3) over Int/Real with an abstract float domain')
CLAIMED['C09'] = dict(
    text='Bounded symbolic model checking of the real MIR of the hand-written key equality (total_eq_of_keys, total_eq_of_key_seqs) and key hashing (total_hash_of_key, '
         'NNum::total_hash, consistent_hash_f64, NInt::hash) with the Hasher replaced by a write-trace recorder: for EVERY pair of keys built from numbers of every level and '
         'representation (bare, in lists/vectors of length <= 2, nested one level) key equality is exactly mathematical equality (NaN = NaN) and equal keys write identical '
         'hash traces; check_if_valid_key accepts exactly the hashable kinds.',
    note='Trusted: SipHash / std HashMap (equal write traces => same bucket, Eq decides within it); num crates implement Z/Q; abstract doubles. '
         'Outside: dict-valued keys, string/bytes keys, the dictionary builtins beyond their use of ObjKey Eq/Hash. Added (props/equiv.py family C09): the dict operators && || -- ||+ |. -. and assignment through equal keys == loops over keys, with symbolic keys (every equality pattern is a path); count_distinct on lists / vectors with NaN and float elements == the number of keys of a dict built from the elements.',
    design='§7 C09', technique='symbolic execution of rustc MIR + SMT (z3); hasher as trace recorder')
CLAIMED['C07'] = dict(
    text='Bounded symbolic model checking of the real MIR of the NNum operators (+ - * % in all four owned/borrowed impls, /, div_floor, mod_floor), the rounding family, '
         'numerator/denominator/abs/signum/neg and the builtin closures % // %% /! for EVERY ordered pair of operand levels (int Small/Big, rational, float, complex) and '
         'every value: result level = higher operand level; int and rational levels are exact over Q (// floors, %% = a - b*floor(a/b), / exact with float fallback on a zero divisor); '
         'float/complex levels apply the same operation to the converted operands (routing and operand order; float arithmetic is uninterpreted); zero divisors raise.',
    note='Trusted: num-rational/num-bigint implement Q/Z; conversions to f64 as modelled. Outside: float rounding, ^ with non-integer exponent, vector broadcasting wrappers, lowest-terms normalisation.',
    design='§7 C07', technique='symbolic execution of rustc MIR + SMT (z3) over Int/Real, uninterpreted float operations')
CLAIMED['C10'] = dict(
    text='Two solver-based engines. Kani/CBMC over the compiled code decides pythonic_index_isize, clamped_pythonic_index and pythonic_slice against Python\'s rule '
         '(i128 oracle) for EVERY isize index/bound and EVERY length 0..=isize::MAX with overflow checks on (zero-sized-element slice of symbolic length, unwinding assertions on, '
         'cover witnesses). mirsym decides the same kernels in the release profile (overflow-checks=off MIR) and the Obj-level entry points index, slice_seq, obj_cyclic_index, '
         'safe_index for lists, vectors, bytes and ASCII strings of length 0..3 (quick) / 0..5 (thorough) with the index/bounds arbitrary values of every kind '
         '(all integers in both representations, rationals, floats, null, omitted).',
    note='Trusted: Kani\'s model of the dev profile with std::fmt::format stubbed (error text only); num-bigint to_isize/to_usize contract; std slice indexing. '
         'Outside: streams (C11), non-ASCII strings, the take/drop/first/last/... one-line builtins, dict indexing (C09). Added (props/equiv.py family C10): take / drop by a symbolic count, first / last / second / third, !! and !?, tail / butlast / uncons / unsnoc / only == the corresponding index or slice expression, on lists and on stream(seq), lengths 0, 1, 3.',
    design='§7 C10', technique='Kani/CBMC bounded model checking + symbolic execution of rustc MIR with z3', engine='kani+mirsym')
CLAIMED['C01'] = dict(
    text='Bounded symbolic model checking of ONE mutation step from an arbitrary aliased pre-state (inductive step over histories): the real MIR of set_index (list, nested list, '
         'vector, bytes, every-slice arms), modify_existing_index, Obj::try_pop and try_remove_index runs on a target whose Rc allocations carry explicit strong counts, with aliases '
         'of the outer and/or inner allocation and an index path symbolic over all integers in both representations. On success the target equals the functional update at the '
         'Python-normalised path, on failure it is unchanged, and every alias is unchanged in all cases.',
    note='Kernel level. Trusted: the Rc model (clone/drop/make_mut/get_mut/try_unwrap per std contract). Bound: list of 3, nested 2x2, vector/bytes of 3, depth <= 2. '
         'Outside: statement-level evaluator paths (closures sharing Env cells, for-loop binding, swap, consume), dict/struct/string arms, builtins that rebuild collections. Statement level (added): 19 mutation statements run by the real evaluator on real parse trees (swap of slots / variables incl. the same slot, function argument / container element / closure result copies, consume, pop, remove and index assignment at a symbolic index, every-slice forms, dict values, defaulted dicts) == the explicit functional update with every copy untouched (props/equiv.py family C01).',
    design='§7 C01', technique='symbolic execution of rustc MIR with an explicit Rc/strong-count heap model + SMT (z3)')
CLAIMED['C02'] = dict(
    text='Same symbolic runs as C01 with the Rc model\'s clone log as the observable: at strong count 1 no Rc::make_mut clone / Vec clone happens and the allocation is kept; '
         'with aliases at most one clone per level of the index path on the first step and none when the step is repeated (two consecutive steps are executed). '
         'A counterexample is replayed natively as a scaling measurement (k mutations on n_small vs n_big elements).',
    note='Kernel level. Outside: allocator/Vec growth, the evaluator statement paths that hand the variable cell to these kernels (OpAssign drop-before-call), by-value builtins (append, ++, |.), dict/struct arms.',
    design='§7 C02', technique='symbolic execution of rustc MIR with an explicit Rc/strong-count heap model + SMT (z3)')
CLAIMED['C03'] = dict(
    text='Bounded symbolic model checking of the real MIR of ChainEvaluator::{new, give, run_top, run_top_popped, finish}, Precedence::tighter_than_when_before and add_trace on chains of '
         '1..3 operators (all associativity assignments; length 4 sampled in the quick tier; lengths 4 and 5 complete in the thorough tier: 74 568 obligations) where every operator precedence is an arbitrary f64 (NaN, +-inf, every real, ties) '
         'and "f chains with g" is an arbitrary Boolean per (merged) operator pair; Func::run is an application recorder. The application tree and the application order equal the '
         'leftmost-handle operator-precedence reduction (written independently, evaluated under each implementation path condition) for every assignment.',
    note='Stubs: Func::run (recorder), Func::try_chain (arbitrary relation). Outside: longer chains, evaluation order of operand/operator expressions in Expr::Chain and its single-operator fast path, '
         'LvalueChainEvaluator, Func::ChainSection, which builtins declare themselves chainable.',
    design='§7 C03', technique='symbolic execution of rustc MIR + SMT (z3), reference semantics evaluated under path conditions')
CLAIMED['C11'] = dict(
    text='Bounded symbolic model checking of ONE next() step from an arbitrary representation-valid state (so every position reached by dropping a prefix is covered): '
         'Range with start/end/step over all of Z in both representations (None <=> empty, yields start, advances by step, len == element count), Permutations / Combinations / '
         'Subsequences / CartesianPower over base lists of length 0..3 (quick) / 0..4 (yielded selection, successor in the documented order, closed-form len drops by one), Cycle; '
         'and the trait default methods Stream::{len, force, pythonic_index_isize, pythonic_slice, reversed} plus WrappedVec against the list of remaining elements with the '
         'index and both slice bounds over all of isize; the cycle constructor rejects an empty base.',
    note='Trusted: num-bigint contract, eager in-order evaluation of the iterator adaptors inside the kernels. Outside: lazy map/filter/zip/iterate adaptors (call the evaluator), counts beyond usize, Repeat, constructor builtins other than cycle. Added (props/equiv.py family C11): lazy_map / lazy_filter / lazy_zip (also with an infinite operand) of stream(seq) through the real evaluator: len == number of elements iterated, elements, indexing, iterating twice and first / last leave the variable unadvanced.',
    design='§7 C11', technique='symbolic execution of rustc MIR + SMT (z3); one-step induction over stream states')
CLAIMED['C16'] = dict(
    text='Bounded symbolic model checking of the real MIR of decimal::parse_decimal_exactly / parse_rational_exactly / apply_exp10 on texts `[sign] digits [. digits] [e [sign] digits]` and `p/q` '
         'with symbolic digits (value == the exact rational the text spells; rejection only for texts that spell no number or exceed the documented exponent cap; no panic for 10-digit exponents), '
         'of the str_radix / int_radix closures (positional notation for every n < base^3 in both representations and signs, digit-string decoding, round trip) and of the NInt formatting impls '
         '(same formatter and value for Small(n) and Big(n)), and of the integer arm of json_encode (an integer JSON number with exactly that value iff it fits 64 bits, for either representation).',
    note='Partial: covers noulith\'s own codec code. Trusted/outside: base64, gzip, serde_json (its Value constructors are recorders), UTF-8, std float parsing/printing, digit generation of the std/num formatters, longer digit strings, non-ASCII text. Added: the float arm of json_encode (the JSON number is value-equal to the float, so json_decode(json_encode(f)) == f for finite f).',
    design='§7 C15/C16', technique='symbolic execution of rustc MIR + SMT (z3) over symbolic digit strings')
CLAIMED['C15'] = dict(
    text='Bounded symbolic model checking of the lexer units Lexer::{next, peek, emit, lex_simple_string_after_start, lex_base_and_emit, lex_base_64_and_emit} driven directly on a cursor over '
         'symbolic characters: plain runs, every single-character escape, \\\\x, \\\\u with and without each bracket kind and up to 9 (quick) / 10 hex digits decode to exactly the characters they spell, '
         'Invalid tokens exactly for malformed or non-scalar escapes, radix accumulators (bases 2..36 and base-64) equal the sum of digit values over the maximal digit prefix; the main Lexer::lex loop driven on one '
         'numeric literal (`<radix>r<digits>` for radix 2, 3, 8, 10, 16, 35, 36; `0x/0b/0o<digits>`; decimal; `<digits>q`) with 1-3 symbolic digits yields exactly one IntLit / RatLit token holding the number the text spells; '
         'the parser units try_consume_u8 / try_consume_usize return the literal\'s value iff it is in range and a parse error otherwise (for every integer); no path panics.',
    note='Partial: the Lexer::lex dispatch loop on arbitrary text (identifiers, operators, comments), the recursive-descent parser beyond the two integer units, format-string bodies, float literals (std parse) and literal evaluation are outside. Added: totality of the lex loop on a number followed by any non-ASCII character.',
    design='§7 C15/C16', technique='symbolic execution of rustc MIR + SMT (z3) over symbolic character sequences')
CLAIMED['C14'] = dict(
    text='Panic-reachability by symbolic execution: a sweep over the builtin closures registered in initialize (found from the `name: .., body: |..|` registrations of the current source), each run with '
         '1-3 arguments whose kind ranges over null / int (both representations) / rational / float / string / list / empty list / vector / bytes / dict and whose numeric values are symbolic; a feasible path '
         'ending in panic!/unwrap/expect/todo!/overflow/index-out-of-bounds/division-by-zero is replayed natively and reported when the interpreter really panics; plus the slice-assignment site. '
         'The evidence lists which builtins were encoded (measured ratio) and why the others were not.',
    note='Partial: builtins needing the environment / I/O / clock / randomness, struct builtins with fields and everything listed as not encoded are outside (the 29 unit-struct builtins are swept with 1 and 2 arguments); hangs are only seen as fuel exhaustion. '
         'The panic obligations of the kernels of C01-C12, C15, C16 are discharged in those checks (index arithmetic, % by zero, 0^-n, permutations/cycle on empty input, \\\\u overflow, decimal exponents were found there). Codec crates are environment stubs (flate2 decoding and base64 decoding return Ok or Err by contract, encoders over in-memory data cannot fail), so the expect / unwrap sites behind them are reachable obligations.',
    design='§7 C14', technique='symbolic execution of rustc MIR + SMT (z3): panic-path feasibility')
CLAIMED['C04'] = dict(
    text='Bounded symbolic model checking of the dispatch layer that makes every application form reach the same implementation: the real MIR of Func::{run, run1, run2} on the wrapper variants '
         '(PartialApp1, PartialApp2, PartialAppLast, Flip, Composition) and the section variants (ListSection, IndexSection, SliceSection, CallSection through apply_section), with the wrapped callee, '
         'index, slice and call replaced by application recorders, so the result is the application term itself: each wrapper applies the callee to exactly the documented argument list, sections fill '
         'their empty slots left to right and reject too few arguments; and the hand-written run / run1 / run2 triples of the arithmetic builtins agree with each other for numbers of every tower level with '
         'symbolic values (run(vec![a]) == run1(a), run(vec![a,b]) == run2(a,b), curried run1.run1 == run2). Statement level: 19 pairs of programs run by the real evaluator on real parse trees with symbolic inputs — '
         'infix, call, left / right sections, call sections with one or two `_` slots, splat calls, sections with a splat before / after / around the slot, an operator as a function value and through an identifier, '
         'operator assignment (also when the right-hand side reads the target) — each form gives the same outcome as the plain call, for all inputs.',
    note='Partial: the function-value layer plus a fixed family of surface forms. Outside: backtick identifiers, user-defined operators with changed precedence (C03), builtins other than the arithmetic triples and the statement family.',
    design='§7 C04', technique='symbolic execution of rustc MIR + SMT (z3) with recorder stubs for callee / index / slice / call')
CLAIMED['C12'] = dict(
    text='Bounded symbolic model checking of the pattern-matcher and type-predicate layer: (T) the real MIR of is_type, type_of and the numeric arms of call_type1 on 16 value kinds x 18 types '
         '(numbers of every level and representation with symbolic values): `v is type(v)`, `v is anything`, `v is T` exactly for the documented classification, `T(v) is T` for int/rational/float/number; '
         '(D) Builtin::destructure of Plus, Minus, Times, Divide (operands of every exact level pair, symbolic values) and Append, Prepend (lists of 0-3): success inverts the constructor, no path panics; '
         '(P) eval::assign with assign_all / assign_all_basic / insert_declare / to_type / is_type / the destructure impls / Obj equality executed on ~110 pattern x value shapes with symbolic numbers '
         '(sequence patterns of 1-3 names with the splat in every position against lists of length 0-4, two splats, literals, or / and, n + k, -x, nested sequences, annotations, trailing defaults) with Env::insert and '
         'default-expression evaluation as recorders: every implementation path agrees with a reference matcher written from the documented rules on match / no match and on the value bound to every name, and never panics.',
    note='Partial: declaration form only (rt = Some). Outside: assignment to existing variables and the later-assignment type checks (assign_respecting_type, every-assignment, swap need the environment), struct and '
         'comparison-operator patterns, satisfying types, switch arm selection and catch (they call assign), conversion functions on strings and containers. Stubs: try_borrow(_mut)_nres, Env::insert, evaluate (defaults). Added (props/equiv.py family C12): comparison-chain patterns (a < b, 0 < a < b, 1 < v < 9, _ < 3) with the real ComparisonOperator in switch arms == the explicit test, on sequences of 0-3 symbolic integers.',
    design='§7 C12', technique='symbolic execution of rustc MIR + SMT (z3); reference matcher evaluated symbolically; recorder stubs for the environment')
CLAIMED['C05'] = dict(
    text='Bounded symbolic model checking at statement level: the real `evaluate` (Sequence, If, While, For and evaluate_for, Try, Throw, Lambda, Call, Break / Continue / Return, And / Or / Coalesce, Assign, OpAssign, Chain, '
         'List, Ident) with eval_lvalue, assign, assign_respecting_type, insert_declare, Closure::run, Env::{with_parent, try_borrow_get_var, modify_existing_var, insert}, ChainEvaluator and the real + - * builtins is executed '
         'on the parse tree that noulith\'s own parser returns for each of ~60 programs (imported from its Debug rendering, typed by the source\'s own type definitions), in a real Env chain whose free variables x, y are symbolic '
         'integers. Oracle: a reference interpreter of the documented rules (lexical scoping, fresh scope per call / iteration / catch clause, := refuses redeclaration, = refuses undeclared names, closures capture variables, '
         'break / continue with counts and values, return, try / catch / throw, short-circuit operators, lambda defaults, for-yield) evaluated symbolically: every implementation path agrees with it on value, raised-or-not and printed output for all x, y.',
    note='Partial: a fixed family of programs (their inputs are symbolic, their shape is not). Outside: switch, multi-clause for, <<-, into, eval, splat parameters, structs, the parser itself. Stubs: comparison operators (integer comparison '
         'yielding 1/0) and print (recorder); error messages opaque; RefCell borrow flags not modelled. Added as equivalences (props/equiv.py family C05, the construct == its expansion into constructs the reference interpreter decides): for-declaration clauses (scope, shadowing, no leak), two iteration clauses, guards, index iteration, switch arm selection / scope / no-match, lambdas with splat + defaults.',
    design='§7 C05', technique='symbolic execution of rustc MIR of the evaluator on real parse trees + SMT (z3); reference interpreter evaluated symbolically')
CLAIMED['C17'] = dict(
    text='Bounded symbolic model checking at statement level: the real `evaluate` with Expr::Freeze -> core::freeze / freeze_lvalue / FreezeEnv (the tree rewrite that resolves free identifiers to Frozen(value) and tracks bound names) '
         'and Expr::Frozen at use, executed on the real parse trees of ~25 programs `… f := freeze \\\\a, b -> BODY; …; f(x, y)` with symbolic integer inputs: 15 bodies over arithmetic, if, for, while with continue, for-yield with guard, '
         'try / throw, nested lambda, break with value, and / or / coalesce, print, free outer data and an outer function, a shadowing local; eager-binding programs (outer data / function reassigned after the freeze) and freeze-time '
         'failures (unbound free variable, assignment to an outer variable, even when the function is never called). Oracle: the C05 reference interpreter extended with the documented meaning of freeze (the frozen function computes what the '
         'unfrozen one computes from the values its free variables had at freeze time); every implementation path agrees on value, raised-or-not and printed output for all x, y. Differential family (no reference needed): '
         'frozen vs unfrozen function on 17 bodies given as source text (literals of every kind, constant folding of lists and negative literals, switch with literal / list / binding patterns) and 10 eager-binding pairs '
         '(the frozen function called after the outer variable was reassigned == the unfrozen one called before) over switch, for, lambda, try bodies.',
    note='Partial: fixed families of programs. Outside: structs, import, bare underscore, operators whose precedence is changed inside frozen code, programs outside the families. Stubs as C05.',
    design='§7 C17', technique='symbolic execution of rustc MIR of the evaluator and of freeze on real parse trees + SMT (z3); reference interpreter evaluated symbolically')
CLAIMED['C13'] = dict(
    text='Bounded symbolic model checking of the sequence functions that are noulith\'s own loop-free glue and do not call back into the evaluator: the builtin closures reverse, tail, butlast, uncons, uncons?, unsnoc, unsnoc?, second, third, '
         'only, len, enumerate, prefixes, suffixes, window, unique, frequencies, flatten, in / ∈ / not_in / ∉ / contains / ∋ / ∌ are executed on lists of 0..3 (thorough: 4) symbolic integers (every i64 value and every equality pattern '
         'between the elements; window sizes 1..3; flatten on up to 3 rows) and compared with the one-line definition of BUILTINS.md written out over the symbolic elements (first-occurrence order for unique, occurrence counts and default 0 '
         'for frequencies, membership by ==, errors on too-short input where documented); no path panics. Functions that call back into the evaluator or live in structs — map, filter, fold, scan, group with a relation, '
         'max / min (first of tied extrema, observed through the integer representation), take / drop by count, take while, count by predicate / by value, find?, flat_map, first, last — are run through the real evaluator '
         '(real registrations in a real Env) and compared, for all inputs, with their executable specification written in noulith itself (loops and lists).',
    note='Partial: 42 of the ~60 functions the property lists. Outside: sort, zip, ziplongest, partition, locate, drop while, sum / product / any / all, ++ and friends, transpose / join / split / words / lines, '
         'inputs other than lists of integers, longer lists. '
         'The index, ordering, key and stream parts of the property\'s mechanism list are decided under C10, C08, C09, C11; panic-freedom of the rest of the closure-registered builtins under C14. Added: drop while / take while on lists and streams (a non-terminating path is replayed natively as a hang), any / all / reject / partition, filter / reject over the keys of a set, sum / product over mixed int / float / NaN elements with the result kind observed, count_distinct with NaNs on lists and vectors.',
    design='§7 C13', technique='symbolic execution of rustc MIR of the builtin closures + SMT (z3); definitions as formulas over the symbolic elements')
NOT_APPLICABLE = {
 'C13': 'sequence library vs executable specification: the deciding content is std collections glued by one-line closures over whole sequences; not encodable as a bounded solver query over noulith code (DESIGN §9); parts decided under C08/C09/C10/C11/C14',
 'C17': 'freeze: semantic equivalence of two recursive traversals over programs; a bounded solver query cannot carry it (DESIGN §9)',
}
PENDING = 'check not built yet in this revision (planned, DESIGN §7)'
ALL = [f'C{i:02d}' for i in range(1, 18)]

def main():
    checks = []
    for pid in ALL:
        if pid not in CLAIMED: continue
        c = CLAIMED[pid]
        checks.append({
            'property_id': pid,
            'quick_cmd': f'./check {pid} --tier quick',
            'thorough_cmd': f'./check {pid} --tier thorough',
            'evidence_file': f'/verif/evidence/{pid}.json',
            'replay_cmd_template': f'./check {pid} --replay {{path}}',
            'engine': c.get('engine', 'mirsym'),
            'level_claimed': {'category': 'model_checking', 'text': c['text'], 'design_ref': c['design']},
            'level_note': c['note'],
            'technique': c['technique'],
        })
    na = [{'property_id': p, 'reason': NOT_APPLICABLE.get(p, PENDING)} for p in ALL if p not in CLAIMED]
    man = {
        'version': 1,
        'setup_cmd': './setup.sh',
        'hooks': {'guard': 'none (no source hooks are needed: rustc MIR exposes private items and nlrun uses the public API)', 'enable': 'n/a',
                  'baseline_off_cmd': 'cd /repo && cargo nextest run --workspace --no-fail-fast --tool-config-file pb:/w/lib/nextest.toml --profile pb --test-threads 8 --offline',
                  'source_commits': [], 'add_only': True},
        'engines': [
            {'name': 'mirsym', 'path': '/verif/mirsym', 'serves_properties': sorted(CLAIMED), 'kind_free_text': M},
            {'name': 'nlrun', 'path': '/verif/nlrun', 'serves_properties': sorted(CLAIMED), 'kind_free_text': 'native replay driver (dev + release) over the public parse/evaluate API and the public nnum kernels'},
        ],
        'checks': checks,
        'not_applicable': na,
        'notes': 'exit 0 = all obligations discharged; exit 1 = VIOLATION (replayed natively, not a listed finding); exit 2 = inconclusive (never a pass). Known findings / repaired defects: known_findings.txt',
    }
    json.dump(man, open(os.path.join(VERIF, 'MANIFEST.json'), 'w'), indent=1)
    print('MANIFEST.json written:', len(checks), 'checks,', len(na), 'not_applicable')

if __name__ == '__main__':
    main()
