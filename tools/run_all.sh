#!/bin/bash
# tools/run_all.sh [tier] — run every registered check on the current (unchanged) tree and print one line each; used before committing evidence
cd /verif
tier="${1:-quick}"
fail=0
for p in $(python3 -c "import json; print(' '.join(c['property_id'] for c in json.load(open('MANIFEST.json'))['checks']))"); do
  out=$(./check "$p" --tier "$tier" 2>&1); code=$?
  echo "$out" | grep -E "^\[C" | cut -c1-230
  if [ $code -ne 0 ]; then fail=1; echo "$out" | grep -E "INCONCLUSIVE|VIOLATION|violation class" | head -5 | cut -c1-400; fi
done
exit $fail
