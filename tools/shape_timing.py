#!/usr/bin/env python3-vt
"""tools/shape_timing.py <Cxx> "<python list of items>" [timeout_s]  — run shapes of a property serially with a per-shape time limit (debugging aid)"""
import sys, time, signal, importlib
sys.path.insert(0, '/verif')
from lib.common import *
C = importlib.import_module('props.' + sys.argv[1])
mir, th = load_mir('on')
for name in ('MIR',):
    if hasattr(C, name): setattr(C, name, mir)
for sub in ('cow', 'cow2'):
    if hasattr(C, sub): getattr(C, sub).MIR = mir
class TO(Exception): pass
def h(*a): raise TO()
signal.signal(signal.SIGALRM, h)
items = eval(sys.argv[2]); lim = int(sys.argv[3]) if len(sys.argv) > 3 else 40
for it in items:
    ob = Obligations('quick'); t0 = time.time(); signal.alarm(lim)
    try: C.run_shape(it, ob); st = 'ok'
    except TO: st = 'TIMEOUT'
    except Exception as e: st = 'EXC ' + repr(e)[:100]
    signal.alarm(0)
    print(f'{time.time()-t0:6.1f}s {st:8} paths={ob.paths} n={ob.n} d={ob.discharged} v={len(ob.viol)} inc={len(ob.inconclusive)} {it}', flush=True)
    for i in ob.inconclusive[:2]: print('      ', i['reason'].split('\n')[0][:220])
    for v in ob.viol[:2]: print('       VIOL', v['obligation'][:100], '|', str(v.get('replay'))[:160])
