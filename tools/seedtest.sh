#!/bin/bash
# usage: tools/seedtest.sh <patch.diff> <Cxx> [<Cyy> ...]   — apply a seeded change to /repo, run the checks, undo it straight afterwards
set -u
patch="$1"; shift
cd /repo || exit 9
if [ -n "$(git status --short src)" ]; then echo "refusing: /repo/src is not clean"; exit 9; fi
git apply "$patch" || { echo "patch does not apply"; exit 9; }
cd /verif
for p in "$@"; do
  out=$(./check "$p" 2>&1); code=$?
  echo "== $p on $(basename "$(dirname "$patch")")/$(basename "$patch"): exit $code"
  echo "$out" | grep -E "^\[C|^VIOLATION|violation class|INCONCLUSIVE" | cut -c1-420 | head -${SEEDTEST_LINES:-8}
done
git -C /repo checkout -- . ; git -C /repo status --short | head -3
# the evidence files now describe a run on the modified tree: put the committed ones (runs on the unchanged tree) back
git -C /verif checkout -- evidence 2>/dev/null
