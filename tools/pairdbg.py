#!/usr/bin/env python3-vt
"""tools/pairdbg.py '<program A>' '<program B>' [n] [registered,names] — run one ad-hoc equivalence pair (props/equiv.py) and print paths + verdicts (debug aid)"""
import sys, os
sys.setrecursionlimit(20000)
sys.path.insert(0, os.path.dirname(os.path.dirname(os.path.abspath(__file__))))
from lib.common import *
from props import equiv, evalh
import faulthandler
if os.environ.get("DUMP_AFTER"): faulthandler.dump_traceback_later(int(os.environ["DUMP_AFTER"]), exit=True)
def main():
    a, b = sys.argv[1], sys.argv[2]; n = int(sys.argv[3]) if len(sys.argv) > 3 else 3
    reg = tuple(sys.argv[4].split(',')) if len(sys.argv) > 4 and sys.argv[4] else ()
    equiv.MIR, th = load_mir('on')
    fam = equiv.family_C13(); spec = dict(fam[-1][3]); spec2 = dict([f for f in fam if 'take count' in f[0]][0][3])
    if os.environ.get('XS_KIND'): spec2['xs_kind'] = os.environ['XS_KIND']
    spec2['n'] = n; spec2['registered'] = tuple(spec2['registered']) + reg
    ob = Obligations('quick')
    E = evalh.eng(equiv.MIR)
    if os.environ.get('FUEL'): E.FUEL = int(os.environ['FUEL'])
    A, B = evalh.parse_programs([a, b])
    for nm, ast in (('A', A), ('B', B)):
        def run():
            E.assume(in_i64(equiv.X), in_i64(equiv.Y), in_i64(equiv.Z)); E.log.clear()
            return evalh.run_program(E, ast, equiv.env_for(E, spec2))
        for pc, kd, res, lg in E.explore(run, max_paths=300): print(nm, kd, str(res)[:300])
        if os.environ.get('SHOWLOG'): print('   log', [l for l in lg if l[0] != 'print'][:60])
        print('   total steps so far', E.total_steps)
    equiv.shape_pair('C13', ('adhoc', a, b, spec2), ob)
    print('obligations', ob.n, 'discharged', ob.discharged, 'viol', [(v['class'], v['replay']) for v in ob.viol][:3], 'inconclusive', ob.inconclusive[:3])
main()
