#!/usr/bin/env python3
"""tools/adopt_seed.py <Cxx> <i> <name> "<needs>" "<caught-by or MISSED: reason>"
Copies a confirmed seeded change from /tmp/seed_<Cxx>.out (or seeded_inbox/<Cxx>) into /verif/seeded/<name>/ with meta.json."""
import sys, os, json, shutil, re
VERIF = os.path.dirname(os.path.dirname(os.path.abspath(__file__)))
prop, i, name, needs, caught = sys.argv[1:6]
pfx = os.environ.get('SEEDPFX', 'seed'); src = f'/tmp/{pfx}_{prop}.out' if os.path.isdir(f'/tmp/{pfx}_{prop}.out') else os.path.join(VERIF, 'seeded_inbox', prop)
dst = os.path.join(VERIF, 'seeded', name); os.makedirs(dst, exist_ok=True)
shutil.copy(os.path.join(src, f'patch_{i}.diff'), os.path.join(dst, 'patch.diff'))
shutil.copy(os.path.join(src, f'demo_{i}.rs'), os.path.join(dst, 'demo.rs'))
shutil.copy(os.path.join(src, f'notes_{i}.md'), os.path.join(dst, 'notes.md'))
conf = ''
log = '/tmp/confirm_seeds.log'
if os.path.exists(log):
    t = open(log).read()
    m = re.search(rf'^{prop}/{i}: .*?clean: \d+', t, re.S | re.M)
    if m: conf = re.sub(r'\s+', ' ', m.group(0))
meta = {'breaks_property': prop, 'origin': 'fresh sub-agent given only the property text and a scratch worktree', 'needs_to_manifest': needs,
        'confirmed_by': 'tools/confirm_seed.sh in the scratch worktree: patch applies and builds; existing suite keeps its 48 passing tests; demo fails with the change and passes without it',
        'confirmation_output': conf, 'check_result': caught,
        'how_to_run': f'git -C /repo apply /verif/seeded/{name}/patch.diff && (cd /verif && ./check {prop}); git -C /repo checkout -- .'}
json.dump(meta, open(os.path.join(dst, 'meta.json'), 'w'), indent=1)
print('adopted', dst)
