"""Shared driver pieces: MIR dump cache, engine construction, obligations, native replay, evidence, exit codes."""
import os, sys, re, json, time, glob, hashlib, subprocess, pickle, fcntl, traceback, random, multiprocessing
from fractions import Fraction
import z3

VERIF = os.path.dirname(os.path.dirname(os.path.abspath(__file__)))
REPO = os.environ.get('VERIF_REPO', '/repo')
CACHE = os.path.join(VERIF, '.cache')
sys.path.insert(0, VERIF)
from mirsym.core import *          # noqa
from mirsym import core as mcore
from mirsym.models import std_models, I64, in_i64
from mirsym import models_extra, hashmap, iters, strmodels, more_models, set_models, env_models   # noqa: register further models

ENV = dict(os.environ, CARGO_NET_OFFLINE='true', CARGO_TERM_COLOR='never')
NCPU = int(os.environ.get('VERIF_JOBS', '0')) or min(16, os.cpu_count() or 4)

def log(*a):
    print(*a, file=sys.stderr, flush=True)

# ------------------------------------------------------------------------------------------------ source hash
def tree_hash():
    h = hashlib.sha256()
    files = sorted(glob.glob(os.path.join(REPO, 'src', '**', '*.rs'), recursive=True)) + [os.path.join(REPO, 'Cargo.toml'), os.path.join(REPO, 'Cargo.lock')]
    for p in files:
        h.update(p.encode()); h.update(b'\0')
        try: h.update(open(p, 'rb').read())
        except OSError: pass
    return h.hexdigest()[:24]

class Lock:
    def __init__(s, name): s.path = os.path.join(CACHE, name + '.lock')
    def __enter__(s):
        os.makedirs(CACHE, exist_ok=True); s.f = open(s.path, 'w'); fcntl.flock(s.f, fcntl.LOCK_EX); return s
    def __exit__(s, *a): fcntl.flock(s.f, fcntl.LOCK_UN); s.f.close()

def _prune(pattern, keep):
    old = sorted(glob.glob(pattern), key=os.path.getmtime)
    for p in old[:-keep] if keep else old:
        try: os.remove(p)
        except OSError: pass

# ------------------------------------------------------------------------------------------------ MIR dump
def mir_dump(overflow='on'):
    """text of `-Zunpretty=mir` for the current /repo tree (cached by content hash)."""
    th = tree_hash(); out = os.path.join(CACHE, f'mir_{overflow}_{th}.txt')
    if os.path.exists(out) and os.path.getsize(out) > 1000: return out, th
    with Lock('mir'):
        if os.path.exists(out) and os.path.getsize(out) > 1000: return out, th
        tgt = os.path.join(CACHE, 'mirtarget')
        # force rustc to run again for the lib (cargo would otherwise see a fresh fingerprint and print nothing)
        for d in glob.glob(os.path.join(tgt, 'debug', '.fingerprint', 'noulith-*')):
            subprocess.run(['rm', '-rf', d])
        cmd = ['cargo', '+nightly', 'rustc', '--offline', '--lib', '--no-default-features', '--manifest-path', os.path.join(REPO, 'Cargo.toml'),
               '--target-dir', tgt, '--', '-Zunpretty=mir', '-C', 'debug-assertions=off', '-C', f'overflow-checks={overflow}']
        t0 = time.time()
        r = subprocess.run(cmd, env=ENV, capture_output=True, text=True)
        if r.returncode != 0 or len(r.stdout) < 1000:
            log(r.stderr[-3000:]); raise RuntimeError('MIR dump failed (does /repo compile?)')
        tmp = out + '.tmp'; open(tmp, 'w').write(r.stdout); os.replace(tmp, out)
        log(f'[mir] dumped overflow-checks={overflow} in {time.time()-t0:.1f}s -> {out}')
        _prune(os.path.join(CACHE, f'mir_{overflow}_*.txt'), 3); _prune(os.path.join(CACHE, f'mirp_{overflow}_*.pkl'), 3)
    return out, th

def load_mir(overflow='on'):
    path, th = mir_dump(overflow)
    pver = hashlib.sha256(open(os.path.join(VERIF, 'mirsym', 'core.py'), 'rb').read()).hexdigest()[:8]     # parser version
    pk = os.path.join(CACHE, f'mirp_{overflow}_{th}_{pver}.pkl')
    if os.path.exists(pk):
        try:
            with open(pk, 'rb') as f: mir = pickle.load(f)
            mcore.index_of(mir[0])          # lookup tables built once, in the parent, before workers fork
            import gc; gc.collect(); gc.freeze()          # the dump is millions of objects: keep the collector (and with it copy-on-write) off them in forked workers
            return mir, th
        except Exception: pass
    fns = parse_mir(open(path).read())
    enums = parse_enums([(os.path.basename(p)[:-3], open(p).read()) for p in sorted(glob.glob(os.path.join(REPO, 'src', '*.rs')))])
    with Lock('mirp'):
        tmp = pk + f'.tmp{os.getpid()}'
        with open(tmp, 'wb') as f: pickle.dump((fns, enums), f, protocol=pickle.HIGHEST_PROTOCOL)
        os.replace(tmp, pk)
    mcore.index_of(fns)
    import gc; gc.collect(); gc.freeze()
    return (fns, enums), th

# ------------------------------------------------------------------------------------------------ nlrun (native replay)
def build_nlrun(profile):
    """build the replay driver against the current /repo tree; returns binary path"""
    tgt = os.path.join(CACHE, 'nlrun-target')
    with Lock('nlrun-' + profile):
        lock_src = os.path.join(REPO, 'Cargo.lock'); lock_dst = os.path.join(VERIF, 'nlrun', 'Cargo.lock')
        try:
            if not os.path.exists(lock_dst) or open(lock_src).read() != open(lock_dst).read():
                open(lock_dst, 'w').write(open(lock_src).read())
        except OSError: pass
        cmd = ['cargo', 'build', '--offline', '--manifest-path', os.path.join(VERIF, 'nlrun', 'Cargo.toml'), '--target-dir', tgt]
        if profile == 'release': cmd.append('--release')
        t0 = time.time()
        r = subprocess.run(cmd, env=ENV, capture_output=True, text=True)
        if r.returncode != 0:
            log(r.stderr[-3000:]); raise RuntimeError('nlrun build failed')
        if time.time() - t0 > 2: log(f'[nlrun] built {profile} in {time.time()-t0:.1f}s')
    return os.path.join(tgt, 'release' if profile == 'release' else 'debug', 'nlrun')

_nlrun_bins = {}
def nlrun(programs, profile='dev', timeout_ms=0, wall=120):
    """run noulith programs natively; returns list of result lines (OK ../ERR ../PANIC ../HANG/PARSEERR ..)"""
    if not programs: return []
    if profile not in _nlrun_bins: _nlrun_bins[profile] = build_nlrun(profile)
    out = []
    todo = list(programs)
    while todo:
        inp = ''
        if timeout_ms: inp += f'#TIMEOUT-MS {timeout_ms}\n'
        inp += ''.join(p.replace('\n', '\\n') + '\n' for p in todo)
        try:
            r = subprocess.run([_nlrun_bins[profile]], input=inp, capture_output=True, text=True, timeout=wall + len(todo) * (timeout_ms / 1000.0 if timeout_ms else 0.05))
            lines = r.stdout.split('\n')
            if lines and lines[-1] == '': lines.pop()
        except subprocess.TimeoutExpired as e:
            lines = (e.stdout.decode() if isinstance(e.stdout, bytes) else (e.stdout or '')).split('\n')
            if lines and lines[-1] == '': lines.pop()
            lines.append('HANG')
        got = len(lines)
        out.extend(lines[:len(todo)])
        if got >= len(todo): break
        # the driver died (stack overflow / abort / hang-exit): mark the program it died on and continue after it
        if not lines or lines[-1] != 'HANG': out.append('CRASH')
        done = len(out) - (len(programs) - len(todo))
        todo = todo[done:]
    return out

# ------------------------------------------------------------------------------------------------ z3 helpers
def mval(model, t):
    v = model.eval(t, model_completion=True)
    if z3.is_int_value(v): return v.as_long()
    if z3.is_rational_value(v): return Fraction(v.numerator_as_long(), v.denominator_as_long())
    if z3.is_true(v): return True
    if z3.is_false(v): return False
    if z3.is_algebraic_value(v): return None
    return None

def solve(pc, extra=(), timeout_ms=30000):
    """decide pc /\\ extra.  z3 is tried in stages (short run, then other arithmetic configurations / seeds): a query that one
    configuration wanders off on is usually decided at once by another.  `unknown` only after the whole budget is used."""
    t0 = time.time()
    stages = [(min(timeout_ms, 4000), {}), (min(timeout_ms, 6000), {'smt.arith.solver': 2, 'smt.random_seed': 3}),
              (min(timeout_ms, 6000), {'smt.arith.solver': 6, 'smt.random_seed': 11, 'smt.phase_selection': 5}), (timeout_ms, {'smt.random_seed': 29})]
    r = z3.unknown; s = None
    for i, (to, params) in enumerate(stages):
        s = z3.Solver() if i != 2 else z3.SolverFor('QF_UFNIRA') if False else z3.Solver()
        s.set('timeout', int(to))
        for k, v in params.items():
            try: s.set(k, v)
            except Exception: pass
        s.add(*pc); s.add(*extra)
        r = s.check()
        if r != z3.unknown: break
        if os.environ.get('VERIF_SLOWLOG'):
            with open(os.environ['VERIF_SLOWLOG'], 'a') as f: f.write(f'; stage {i} unknown after {to} ms\n' + s.to_smt2() + '\n; ----\n')
    if r == z3.unknown and not os.environ.get('VERIF_NO_CVC5'):
        # last resort: a different solver (an `unsat` from cvc5 discharges the obligation; anything else stays unknown)
        try:
            smt2 = '(set-logic ALL)\n' + s.to_smt2()
            cr = subprocess.run(['cvc5', '--lang', 'smt2', '--tlimit=20000'], input=smt2, capture_output=True, text=True, timeout=30)
            if cr.stdout.strip().split('\n')[0].strip() == 'unsat' and '(error' not in cr.stdout and '(error' not in cr.stderr: r = z3.unsat
        except Exception: pass
    dt = time.time() - t0
    return r, (s.model() if r == z3.sat else None), dt

def solve_once(pc, extra=(), timeout_ms=1500):
    s = z3.Solver(); s.set('timeout', timeout_ms); s.add(*pc); s.add(*extra)
    t0 = time.time(); r = s.check()
    return r, (s.model() if r == z3.sat else None), time.time() - t0

def smt2_of(pc, extra=()):
    s = z3.Solver(); s.add(*pc); s.add(*extra); return '(set-logic ALL)\n' + s.to_smt2()

def cross_check(smt2, want, timeout_s=60):
    """re-decide with cvc5 and the system z3 4.8.12; returns dict solver->answer"""
    res = {}
    for name, cmd in (('cvc5', ['cvc5', '--lang', 'smt2', f'--tlimit={timeout_s*1000}']), ('z3-4.8', ['/usr/bin/z3', '-in', f'-T:{timeout_s}'])):
        try:
            r = subprocess.run(cmd, input=smt2, capture_output=True, text=True, timeout=timeout_s + 10)
            o = r.stdout.strip().split('\n')
            ans = o[0].strip() if o else ''
            if '(error' in r.stdout or '(error' in r.stderr: ans = 'error'
        except Exception as e: ans = 'timeout'
        res[name] = ans
    return res

# ------------------------------------------------------------------------------------------------ obligations
class Obligations:
    """collects verdicts of one worker: plain data only (picklable)."""
    def __init__(s, tier):
        s.tier = tier; s.n = 0; s.discharged = 0; s.viol = []; s.inconclusive = []; s.samples = []
        s.solver_time = 0.0; s.paths = 0; s.steps = 0; s.panic_paths = 0; s.cross = []; s.smt2 = []
        s.timeout_ms = 30000 if tier == 'quick' else 300000
        s.functions = set(); s.models = set(); s.stubs = set(); s.feas_unknown = 0; s.vacuity = {}
        s.validation = []; s.vseed = int(os.environ.get('VERIF_SEED', '0') or 0)

    def absorb_engine(s, E):
        s.functions |= E.used_fns; s.models |= E.used_models; s.stubs |= E.used_stubs
        s.steps += E.total_steps; s.feas_unknown += E.feas_unknown
        E.used_fns = set(); E.used_models = set(); E.used_stubs = set(); E.total_steps = 0; E.feas_unknown = 0

    def witness(s, cls):
        s.vacuity[cls] = s.vacuity.get(cls, 0) + 1

    def check(s, name, pc, goal, replay=None, cls=None, sample=None, keep_smt2=False, prefer=()):
        """obligation: pc => goal.  replay(model) -> dict(program=..., expect=... ) or None"""
        s.n += 1
        neg = z3.Not(goal) if z3.is_expr(goal) else z3.BoolVal(not goal)
        r, model, dt = solve(pc, [neg], s.timeout_ms); s.solver_time += dt
        if (s.tier == 'thorough' or keep_smt2) and len(s.smt2) < 4000:
            s.smt2.append((name, smt2_of(pc, [neg]), 'unsat' if r == z3.unsat else 'sat' if r == z3.sat else 'unknown'))
        if len(s.samples) < 3 and r == z3.unsat:
            s.samples.append({'obligation': name, 'path_condition': [str(z3.simplify(c))[:200] for c in pc[:6]], 'goal': (sample or str(goal))[:300], 'verdict': 'unsat (holds)'})
        if r == z3.unsat:
            s.discharged += 1
            # translator validation sample: a concrete input of this path, replayed natively against the oracle's prediction
            import zlib
            if replay is not None and len(s.validation) < 6 and (zlib.crc32(f'{name}|{s.vseed}'.encode()) % 100) < 12:
                try:
                    r3, m3 = z3.unknown, None
                    for pref in list(prefer) + [[]]:
                        r3, m3, dt3 = solve_once(pc, list(pref), 1500); s.solver_time += dt3
                        if r3 == z3.sat: break
                    if r3 == z3.sat:
                        sp = replay(m3)
                        if sp and sp.get('program') and not sp.get('timing') and not sp.get('slow'): s.validation.append({'obligation': name, 'replay': sp})
                except Exception: pass
            return True
        if r == z3.unknown:
            s.inconclusive.append({'obligation': name, 'reason': 'solver unknown/timeout'}); return None
        spec = None
        for pref in prefer:          # look for a small / canonical counterexample first (does not change the verdict)
            r2, m2, dt2 = solve_once(pc, [neg] + list(pref), 1500); s.solver_time += dt2
            if r2 == z3.sat: model = m2; break
        if replay is not None:
            try: spec = replay(model)
            except Exception as e: spec = {'error': f'replay construction failed: {e!r}'}
        s.viol.append({'obligation': name, 'class': cls or name, 'model': str(model)[:600], 'replay': spec})
        return False

    def panic(s, name, pc, msg, replay=None, cls=None, pre=(), prefer=()):
        """a path that ends in a panic: violation iff feasible (under the caller-guaranteed precondition `pre`)"""
        s.panic_paths += 1
        return s.check(name, list(pc) + list(pre), z3.BoolVal(False), replay=replay, cls=cls or name, sample=f'panic unreachable: {msg}', prefer=prefer)

    def missing(s, name, why):
        s.inconclusive.append({'obligation': name, 'reason': why})

    def data(s):
        d = dict(s.__dict__); d['functions'] = sorted(s.functions); d['models'] = sorted(s.models); d['stubs'] = sorted(s.stubs); return d

def merge(obs):
    out = {'n': 0, 'discharged': 0, 'viol': [], 'inconclusive': [], 'samples': [], 'validation': [], 'solver_time': 0.0, 'paths': 0, 'steps': 0, 'panic_paths': 0,
           'functions': set(), 'models': set(), 'stubs': set(), 'feas_unknown': 0, 'vacuity': {}, 'smt2': [], 'extra': []}
    for o in obs:
        for k in ('n', 'discharged', 'solver_time', 'paths', 'steps', 'panic_paths', 'feas_unknown'): out[k] += o[k]
        for k in ('viol', 'inconclusive', 'smt2'): out[k] += o[k]
        out['validation'] += o.get('validation', [])
        out['samples'] += o['samples']
        for k in ('functions', 'models', 'stubs'): out[k] |= set(o[k])
        for k, v in o['vacuity'].items(): out['vacuity'][k] = out['vacuity'].get(k, 0) + v
        if o.get('extra'): out['extra'].append(o['extra'])
    out['samples'] = out['samples'][:6]
    return out

# ------------------------------------------------------------------------------------------------ worker pool (fork)
_G = {}
def _worker(args):
    idx, item = args
    fn = _G['fn']; tier = _G['tier']
    ob = Obligations(tier)
    t0 = time.time()
    try:
        extra = fn(item, ob)
        if extra is not None: ob.extra = extra
    except Missing as e:
        ob.missing(f'shape {item!r}', 'not encodable: ' + str(e)[:400])
    except Exception as e:
        ob.missing(f'shape {item!r}', 'engine error: ' + ''.join(traceback.format_exception_only(type(e), e))[:300] + ' | ' + traceback.format_exc()[-700:])
    d = ob.data(); d['wall'] = time.time() - t0; d['item'] = repr(item)[:120]
    if 'extra' not in d: d['extra'] = None
    return d

def pmap(fn, items, tier, jobs=None):
    """run fn(item, Obligations) for every item in forked workers; returns merged plain data"""
    items = list(items)
    if os.environ.get('VERIF_ONLY'):      # debugging aid: run only the shapes whose description contains the substring
        items = [it for it in items if os.environ['VERIF_ONLY'] in repr(it)]
    _G['fn'] = fn; _G['tier'] = tier
    jobs = jobs or NCPU
    if jobs <= 1 or len(items) <= 1 or os.environ.get('VERIF_SERIAL'):
        res = [_worker((i, it)) for i, it in enumerate(items)]
    else:
        # shapes that run the whole evaluator ('program', 'pair') touch most of the MIR dump: in forked workers that means copy-on-write
        # faults on pages shared with 15 siblings, which serialise in the kernel (measured: 160 s in the pool, 40 s in one process);
        # they run in the parent after the pool is done
        par = [(i, it) for i, it in enumerate(items) if not (isinstance(it, tuple) and it and it[0] in ('program', 'pair'))]
        ser = [(i, it) for i, it in enumerate(items) if isinstance(it, tuple) and it and it[0] in ('program', 'pair')]
        res = []
        if len(par) > 1:
            ctx = multiprocessing.get_context('fork')
            with ctx.Pool(min(jobs, len(par))) as pool:
                res = pool.map(_worker, par, chunksize=1)
        else: res = [_worker(x) for x in par]
        res += [_worker(x) for x in ser]
    if os.environ.get('VERIF_PROFILE'):
        for d in sorted(res, key=lambda d: -d['wall'])[:12]: log(f"  [profile] {d['wall']:.1f}s paths={d['paths']} obl={d['n']} solver={d['solver_time']:.1f}s {d['item']}")
    return merge(res), res

def new_engine(mir, extra_models=()):
    (fns, enums) = mir
    E = Engine(fns, enums)
    for m in extra_models: E.models.append(m)
    E.models.append(std_models)
    return E

def find_fn(E, last, pred=None, file=None):
    """find a crate function by last path segment (+ predicate on the Fn)"""
    c = [f for f in E.by_last.get(last, []) if (pred is None or pred(f)) and (file is None or f'src/{file}' in f.name or f.name.startswith(file.replace('.rs', '') + '::'))]
    if len(c) > 1:
        free = [f for f in c if '<impl' not in f.name and '::Stream::' not in f.name and '{closure' not in f.name]
        if len(free) == 1: c = free
    if len(c) != 1: raise Missing(f'function {last} not found uniquely ({len(c)} candidates) — was it renamed or restructured?')
    return c[0]

# ------------------------------------------------------------------------------------------------ known findings, verdict
def load_known():
    """known: property=<id> {json}  |  fixed: property=<id> <commit> <text>   (fixed entries suppress nothing)"""
    p = os.path.join(VERIF, 'known_findings.txt'); out = []
    if os.path.exists(p):
        for l in open(p):
            m = re.match(r'^known: property=(\S+) (\{.*\})\s*$', l.strip())
            if m:
                d = json.loads(m.group(2)); d['property'] = m.group(1); d['status'] = 'known'; out.append(d)
    return out

def fmt_int(n):
    """noulith source text for an integer (negative literals via 0-n to stay independent of unary-minus parsing)"""
    if n == -(1 << 63): return '((0-9223372036854775807)-1)'       # stays a machine word (0 - 2^63 would go through the big representation)
    return str(n) if n >= 0 else f'(0-{-n})'
def fmt_big(n):
    """integer forced into the big representation: `^` always returns NInt::Big"""
    return f'({fmt_int(n)}^1)'
def fmt_frac(q):
    q = Fraction(q)
    return f'({fmt_int(q.numerator)}/{q.denominator})'
def repr_q(q):
    """what nlrun prints (repr) for a rational: `n/dq`, or `nq` when the denominator is 1"""
    q = Fraction(q)
    return f'{q.numerator}q' if q.denominator == 1 else f'{q.numerator}/{q.denominator}q'
def show_frac(q):
    """repr that noulith prints for a rational / int"""
    q = Fraction(q)
    return str(q.numerator) if q.denominator == 1 else f'{q.numerator}/{q.denominator}'

def measure_timing(tm):
    """wall time (us, best of up to 3) of the three programs of a scaling measurement: small (n_small, k steps), base (n_big, 0 steps), big (n_big, k steps)"""
    best = {}
    alloc = tm.get('metric') == 'alloc'          # bytes requested from the allocator instead of wall time (deterministic: one run)
    for key in ('small', 'base', 'big'):
        ts = []
        for _ in range(1 if alloc else 3):
            o = nlrun([('#ALLOC ' if alloc else '#TIMED ') + tm[key]], 'release')[0]
            mm = re.match(r'T (\d+) (.*)', o)
            if mm and mm.group(2).startswith('OK'): ts.append(int(mm.group(1)))
            if ts and ts[-1] > 1_500_000: break            # clearly slow already: do not repeat
        best[key] = min(ts) if ts else None
    return best
def timing_is_slow(tm, best):
    if best.get('small') is None or best.get('big') is None: return None
    return best['big'] > tm.get('ratio', 5) * max(best['small'], best.get('base') or 0, 5000 if tm.get('metric') != 'alloc' else 1 << 20)

def finish(prop, tier, seed, merged, t0, level='model_checking', bounds=None, outside=None, assumptions=None, kernels=None, th=None,
           validated=0, validation_failures=None, extra_cov=None, kani=None):
    """replay counterexamples natively, match known findings, write evidence, print verdict, return exit code"""
    known = [k for k in load_known() if k.get('property') == prop and k.get('status') == 'known']
    viol = merged['viol']
    # ---- native replay of every counterexample (dev + release)
    # ---- allocation-behaviour counterexamples (C02) replay as a scaling measurement: the same k mutations on a collection of
    #      size n_small and n_big; in-place mutation costs the same, a hidden copy per step scales with n
    tspecs = [v for v in viol if v.get('replay') and v['replay'].get('timing')]
    tcache = {}
    for v in tspecs:
        tm = v['replay']['timing']
        key_ = tm['big']
        if key_ not in tcache: tcache[key_] = measure_timing(tm)
        best = tcache[key_]
        v['native'] = {'small_us': best.get('small'), 'big_us': best.get('big')}
        if best.get('small') is None or best.get('big') is None: v['replay']['program'] = None; continue
        # small: size n_small with k mutations; base: size n_big with no mutation (construction cost); big: size n_big with k mutations
        unit = 'bytes allocated' if tm.get('metric') == 'alloc' else 'us'
        ref = max(best['small'], best.get('base') or 0, 5000 if unit == 'us' else 1 << 20)
        slow = best['big'] > tm.get('ratio', 5) * ref
        v['replay']['program'] = tm['big']; v['replay']['expect'] = f'cost(n_big, k steps) <= {tm.get("ratio", 5)} x max(cost(n_small, k steps), cost(n_big, 0 steps), floor) in {unit}'
        desc = f'small {best["small"]} {unit}, base {best.get("base")} {unit}, big {best["big"]} {unit}'
        v['native'] = {'dev': desc, 'release': desc}
        v['timing_confirmed'] = slow
    specs = [v for v in viol if v.get('replay') and v['replay'].get('program') and not v['replay'].get('timing')]
    # each distinct program runs once per profile; per counterexample class at most MAXR programs are replayed (shortest first) —
    # the others of the class share its verdict (they are listed in the replay file as further counterexamples)
    MAXR = 4; per_cls = {}; chosen = set()
    for v in sorted(specs, key=lambda v: len(v['replay']['program'])):
        c = per_cls.setdefault(v['class'], [])
        if v['replay']['program'] in chosen or len(c) < MAXR: c.append(v); chosen.add(v['replay']['program'])
    uniq = sorted(chosen)
    out_dev = dict(zip(uniq, nlrun(uniq, 'dev', timeout_ms=12000))) if uniq else {}
    out_rel = dict(zip(uniq, nlrun(uniq, 'release', timeout_ms=12000))) if uniq else {}
    skipped = [v for v in specs if v['replay']['program'] not in chosen]
    specs = [v for v in specs if v['replay']['program'] in chosen]
    res_dev = [out_dev[v['replay']['program']] for v in specs]; res_rel = [out_rel[v['replay']['program']] for v in specs]
    confirmed, nonrepro = [], []
    for v, d, r in zip(specs, res_dev, res_rel):
        exp = v['replay'].get('expect')
        def bad(o):
            # a replay program that does not even parse says nothing about the property (a rendering problem of the harness): it
            # never confirms a counterexample, unless a parse error is what the obligation expects
            if o.startswith('PARSEERR') and not (isinstance(exp, dict) and str(exp.get('prefix', '')).startswith('PARSEERR')): return False
            if exp is None: return o.startswith(('PANIC', 'HANG', 'CRASH'))
            if isinstance(exp, dict):
                if 'equals' in exp: return o != exp['equals']
                if 'not_panic' in exp: return o.startswith(('PANIC', 'HANG', 'CRASH'))
                if 'one_of' in exp: return o not in exp['one_of']
                if 'suffix' in exp: return not o.endswith(exp['suffix'])
                if 'prefix' in exp: return not o.startswith(exp['prefix'])
            return o != exp
        v['native'] = {'dev': d[:300], 'release': r[:300]}
        if bad(d) or bad(r): confirmed.append(v)
        else: nonrepro.append(v)
    for v in tspecs:
        if v['replay'].get('program') is None: continue
        (confirmed if v.get('timing_confirmed') else nonrepro).append(v)
    conf_classes = {v['class'] for v in confirmed}
    for v in skipped:
        v['native'] = {'dev': '(not replayed: further counterexample of a class whose shortest programs were replayed)', 'release': ''}
        (confirmed if v['class'] in conf_classes else nonrepro).append(v)
    unreplayable =[v for v in viol if not (v.get('replay') and v['replay'].get('program'))]
    # ---- translator validation: concrete inputs of discharged obligations, run natively; the native result must be what the
    #      oracle (which the symbolic result was proved equal to) predicts — a disagreement means the encoding or a model is wrong
    def _bad(exp, o):
        if exp is None: return o.startswith(('PANIC', 'HANG', 'CRASH'))
        if isinstance(exp, dict):
            if 'equals' in exp: return o != exp['equals']
            if 'not_panic' in exp: return o.startswith(('PANIC', 'HANG', 'CRASH'))
            if 'one_of' in exp: return o not in exp['one_of']
            if 'suffix' in exp: return not o.endswith(exp['suffix'])
            if 'prefix' in exp: return not o.startswith(exp['prefix'])
            return False
        return o != exp
    vals = {}
    for v in merged.get('validation', []): vals.setdefault(v['replay']['program'], v)
    vlist = [vals[k] for k in sorted(vals)][:80]
    vfail = list(validation_failures or [])
    if vlist:
        vprogs = [v['replay']['program'] for v in vlist]
        vd = nlrun(vprogs, 'dev', timeout_ms=8000); vr = nlrun(vprogs, 'release', timeout_ms=8000)
        for v, d, r in zip(vlist, vd, vr):
            if _bad(v['replay'].get('expect'), d) or _bad(v['replay'].get('expect'), r):
                vfail.append(f'translator validation mismatch on {v["obligation"]}: {v["replay"]["program"]} -> dev {d[:160]} | release {r[:160]} (oracle expects {v["replay"].get("expect")})')
            else: validated += 1
    validation_failures = vfail
    # ---- classification
    new, matched = [], {}
    for v in confirmed:
        k = next((k for k in known if k['class'] == v['class']), None)
        if k is not None: matched.setdefault(k['class'], []).append(v)
        else: new.append(v)
    os.makedirs(os.path.join(VERIF, 'replays', prop), exist_ok=True)
    for f in glob.glob(os.path.join(VERIF, 'replays', prop, '*.json')): os.remove(f)
    lines = []
    seen_cls = {}
    for v in new:
        seen_cls.setdefault(v['class'], []).append(v)
    for i, (cls, vs) in enumerate(sorted(seen_cls.items())):
        path = os.path.join(VERIF, 'replays', prop, f'{i}.json')
        json.dump({'property': prop, 'class': cls, 'count': len(vs), 'example': vs[0]}, open(path, 'w'), indent=1, default=str)
        lines.append(f'VIOLATION property={prop} replay={path}')
        log(f'  violation class {cls}: {vs[0]["replay"]["program"]!r} -> dev: {vs[0]["native"]["dev"][:120]} | release: {vs[0]["native"]["release"][:120]} (expected {vs[0]["replay"].get("expect")})')
    for k in known:
        if k['class'] in matched: print(f'KNOWN-FINDING: property={prop} {k["what"]} [class {k["class"]}; {len(matched[k["class"]])} counterexample(s), e.g. {matched[k["class"]][0]["replay"]["program"]}]')
        else: log(f'  note: known finding {k["class"]} was not reproduced by this run (tier/bounds?)')
    inconclusive = list(merged['inconclusive'])
    for v in nonrepro: inconclusive.append({'obligation': v['obligation'], 'reason': f'NONREPRODUCING counterexample (encoding/model suspect): {v["replay"]["program"]} -> {v["native"]}'})
    for v in unreplayable: inconclusive.append({'obligation': v['obligation'], 'reason': 'counterexample without native replay: ' + str(v.get('replay'))[:200] + ' model ' + v['model'][:200]})
    for f in (validation_failures or []): inconclusive.append({'obligation': 'translator-validation', 'reason': f})
    if merged['n'] == 0 or merged['paths'] == 0: inconclusive.append({'obligation': 'vacuity', 'reason': 'no feasible path / no obligation generated'})
    wall = time.time() - t0
    cov = {
        'states': max(1, merged['paths']), 'transitions': max(1, merged['steps']), 'traces_validated_against_impl': validated + len(confirmed) + len(nonrepro) * 0,
        'samples': merged['samples'] or [{'note': 'no discharged obligation to show'}],
        'obligations': merged['n'], 'discharged': merged['discharged'], 'panic_paths_examined': merged['panic_paths'],
        'violations_confirmed_by_native_replay': len(confirmed), 'violation_classes_new': sorted(seen_cls), 'known_findings_matched': sorted(matched),
        'inconclusive': inconclusive[:40], 'inconclusive_count': len(inconclusive),
        'functions_encoded': sorted(merged['functions'])[:400], 'functions_encoded_count': len(merged['functions']),
        'models_used': sorted(merged['models']), 'stubs': sorted(merged['stubs']),
        'mir_dump_hash': th, 'kernels': kernels or [], 'bounds': bounds or {}, 'outside_bounds': outside or [],
        'queries': merged['n'], 'solver_time_s': {'z3': round(merged['solver_time'], 2)}, 'feasibility_queries_unknown_kept': merged['feas_unknown'],
        'reachability_witnesses': merged['vacuity'], 'exhaustive': False,
        'explanation': 'bounded symbolic model checking of rustc MIR (mirsym) with z3; every number above is measured on this run',
    }
    if extra_cov: cov.update(extra_cov)
    if kani is not None: cov['kani_harnesses'] = kani
    ev = {'property_id': prop, 'tier': tier, 'seed': seed, 'level': level, 'coverage': cov, 'assumptions': assumptions or [], 'wall_s': round(wall, 2), 'violations': len(seen_cls)}
    os.makedirs(os.path.join(VERIF, 'evidence'), exist_ok=True)
    p = os.path.join(VERIF, 'evidence', f'{prop}.json'); tmp = p + '.tmp'
    json.dump(ev, open(tmp, 'w'), indent=1, default=str); os.replace(tmp, p)
    for l in lines: print(l)
    code = 1 if lines else (2 if inconclusive else 0)
    print(f'[{prop}] tier={tier} paths={merged["paths"]} obligations={merged["n"]} discharged={merged["discharged"]} confirmed_violations={len(confirmed)} '
          f'(new classes {len(seen_cls)}, known {len(matched)}) inconclusive={len(inconclusive)} solver={merged["solver_time"]:.1f}s wall={wall:.1f}s -> exit {code}')
    if inconclusive and not lines:
        for i in inconclusive[:8]: print('  INCONCLUSIVE:', i['obligation'], '-', i['reason'].split('\n')[0][:300])
    return code
