"""mirsym core: path-wise symbolic interpreter for `rustc -Zunpretty=mir` text.

Values are concrete *structures* (Adt/Tup/Seq/Ref/Box/Rc/Closure) whose leaves are z3 terms:
  machine integers, chars, bools -> z3 Int/Bool (ranges carried as side conditions by the harness),
  BigInt -> z3 Int, BigRational -> Rat(z3 Real), f64 -> F64 (four-way abstract float).
Branching on a non-constant term forks (decision replay, no state copying); infeasible successors are pruned by z3.
External callees go through a model table; an unknown external callee raises Missing (=> INCONCLUSIVE, never a pass).
"""
import re, copy, functools, os
import z3

# =============================================================== parsing
class Fn:
    __slots__ = ('name', 'params', 'ret', 'locals', 'blocks', 'line')
    def __init__(s, name, params, ret, line=0):
        s.name, s.params, s.ret, s.line = name, params, ret, line
        s.locals, s.blocks = {}, {}
    def __repr__(s): return f'<Fn {s.name}>'

@functools.lru_cache(maxsize=200000)
def split_top(s, sep=','):
    out, depth, cur, i, instr = [], 0, [], 0, False
    n = len(s)
    while i < n:
        c = s[i]
        if instr:
            cur.append(c)
            if c == '\\': cur.append(s[i+1]); i += 1
            elif c == '"': instr = False
        elif c == '"': instr = True; cur.append(c)
        elif c == "'" and i + 2 < n and (s[i+2] == "'" or (s[i+1] == '\\' and i + 3 < n and s[i+3] == "'")):
            # char literal such as '(' or '\''
            j = i + 2 if s[i+2] == "'" else i + 3
            cur.append(s[i:j+1]); i = j
        elif c in '([{' or (c == '<' and not s.startswith('<-', i) and not s.startswith('<=', i) and not s.startswith('< ', i)): depth += 1; cur.append(c)
        elif c in ')]}' or (c == '>' and i > 0 and s[i-1] not in '-=' and not (s[i-1] == ' ')): depth -= 1; cur.append(c)
        elif c == sep and depth == 0: out.append(''.join(cur).strip()); cur = []
        else: cur.append(c)
        i += 1
    t = ''.join(cur).strip()
    if t: out.append(t)
    return tuple(out)

def parse_mir(text):
    fns, cur, bb = [], None, None
    for ln, line in enumerate(text.split('\n')):
        if line.startswith('fn ') and line.endswith('{'):
            hdr = line[3:-1].strip(); depth = 0; pos = None
            for i, c in enumerate(hdr):
                if c == '<': depth += 1
                elif c == '>' and hdr[i-1] != '-': depth -= 1
                elif c == '(' and depth == 0: pos = i; break
            name = hdr[:pos]; d = 0
            for j in range(pos, len(hdr)):
                if hdr[j] in '([{': d += 1
                elif hdr[j] in ')]}':
                    d -= 1
                    if d == 0: break
            ret = hdr[j+1:].strip(); ret = ret[2:].strip() if ret.startswith('->') else '()'
            params = []
            for a in split_top(hdr[pos+1:j]):
                m = re.match(r'_(\d+): (.*)$', a); params.append((int(m.group(1)), m.group(2)))
            cur = Fn(name, params, ret, ln + 1); fns.append(cur); bb = None
            for i, t in params: cur.locals[i] = t
            continue
        if (line.startswith('const ') or line.startswith('static ')) and line.endswith('= {'):
            # promoted constants / consts with a body: evaluated like a zero-argument function when referenced
            body = re.sub(r'^(?:const|static(?: mut)?) ', '', line)[:-4]
            d = 0; cut = None
            for i, ch in enumerate(body):            # the name ends at the first `: ` outside <...> (impl spans contain `: `)
                if ch == '<': d += 1
                elif ch == '>' and body[i-1] != '-': d -= 1
                elif ch == ':' and d == 0 and body[i:i+2] == ': ' and body[i-1] != ':' : cut = i; break
            if cut is not None:
                cur = Fn('const ' + body[:cut], [], body[cut+2:], ln + 1); fns.append(cur); bb = None      # own namespace: `const <path>`
                continue
        if cur is None: continue
        if line == '}': cur = None; continue
        s = line.strip()
        if s.startswith('let '):
            m = re.match(r'let (?:mut )?_(\d+): (.*);$', s)
            if m: cur.locals[int(m.group(1))] = m.group(2); continue
        if s.startswith('bb'):
            m = re.match(r'bb(\d+)(?: \(cleanup\))?: \{$', s)
            if m: bb = int(m.group(1)); cur.blocks[bb] = []; continue
        if s == '}': bb = None; continue
        if bb is not None and s.endswith(';'): cur.blocks[bb].append(s[:-1])
    return fns

def parse_enums(src_texts):
    """enum name -> [variant names] from Rust source (brace matching, top-level commas)."""
    out = {}; kept = {}
    for item in src_texts:
        module, txt = item if isinstance(item, tuple) else ('?', item)
        txt = re.sub(r'//[^\n]*', '', txt)
        for m in re.finditer(r'\benum (\w+)(?:<[^>]*>)?\s*\{', txt):
            i = m.end(); d = 1; j = i
            while d:
                if txt[j] == '{': d += 1
                elif txt[j] == '}': d -= 1
                j += 1
            body = txt[i:j-1]; vs = []
            for part in split_top(body):
                part = re.sub(r'#\[[^\]]*\]', '', part).strip()
                mm = re.match(r'(\w+)', part)
                if mm: vs.append(mm.group(1))
            # two enums of the same name in different modules (lex::Token, ein::Token): aggregates carry only the last path segment, so
            # keep the larger one; values of the shadowed one fail with "discriminant of …" (inconclusive), never silently
            if m.group(1) in out:
                sh = out.setdefault('__shadowed__', {})
                if len(out[m.group(1)]) >= len(vs): sh[m.group(1)] = kept[m.group(1)]; continue
                sh[m.group(1)] = module
            out[m.group(1)] = vs; kept[m.group(1)] = module
    return out

# =============================================================== values
class Adt:
    __slots__ = ('ty', 'variant', 'fields')
    def __init__(s, ty, variant, fields=()): s.ty, s.variant, s.fields = ty, variant, list(fields)
    def __repr__(s): return f'{s.ty}::{s.variant}{s.fields}' if s.variant else f'{s.ty}{s.fields}'
class Tup:
    __slots__ = ('fields',)
    def __init__(s, f=()): s.fields = list(f)
    def __repr__(s): return f'({", ".join(map(repr, s.fields))})'
class Seq:          # Vec / array / slice / String payload
    __slots__ = ('fields',)
    def __init__(s, f=()): s.fields = list(f)
    def __repr__(s): return f'{s.fields}'
class Closure:
    __slots__ = ('ty', 'fields')
    def __init__(s, ty, caps): s.ty, s.fields = ty, list(caps)
    def __repr__(s): return f'<closure {s.ty}>'
class FnItem:
    __slots__ = ('name',)
    def __init__(s, name): s.name = name
    def __repr__(s): return f'<fn {s.name}>'
class Cell:
    __slots__ = ('v',)
    def __init__(s, v=None): s.v = v
class Ref:
    __slots__ = ('cell', 'path')
    def __init__(s, cell, path=()): s.cell, s.path = cell, tuple(path)
    def __repr__(s): return f'&{id(s.cell) % 997}{list(s.path)}'
class BoxV:
    __slots__ = ('cell',)
    def __init__(s, v): s.cell = Cell(v)
    def __repr__(s): return f'Box({s.cell.v})'
class PtrWrap:      # Unique<T>/NonNull<T> view of a box
    __slots__ = ('cell',)
    def __init__(s, cell): s.cell = cell
class RcObj:
    n = 0
    __slots__ = ('id', 'cell', 'count')
    def __init__(s, payload):
        RcObj.n += 1; s.id = RcObj.n; s.cell = Cell(payload); s.count = 1
class RcV:
    __slots__ = ('obj',)
    def __init__(s, obj): s.obj = obj
    def __repr__(s): return f'Rc#{s.obj.id}x{s.obj.count}({s.obj.cell.v})'
class Opaque:
    __slots__ = ('tag',)
    def __init__(s, tag): s.tag = tag
    def __repr__(s): return f'<{s.tag}>'
class F64:
    """abstract double. kind: 0 NaN, 1 +inf, 2 -inf, 3 finite (val: Real, nz: sign bit of a zero)."""
    __slots__ = ('kind', 'val', 'nz')
    def __init__(s, kind, val, nz=None):
        s.kind = kind if z3.is_expr(kind) else z3.IntVal(kind)
        s.val = val if z3.is_expr(val) else z3.RealVal(val)
        s.nz = z3.BoolVal(False) if nz is None else nz
    def __repr__(s): return f'F64({s.kind},{s.val},{s.nz})'
    def is_nan(s): return s.kind == 0
    def is_fin(s): return s.kind == 3
    def signbit(s): return z3.If(s.kind == 3, z3.If(s.val == 0, s.nz, s.val < 0), s.kind == 2)
NUMER = z3.Function('ratio_numer', z3.RealSort(), z3.IntSort())
DENOM = z3.Function('ratio_denom', z3.RealSort(), z3.IntSort())
class Rat:
    """BigRational = exact real; numer/denom exposed without symbolic division."""
    __slots__ = ('v',)
    def __init__(s, v): s.v = v if z3.is_expr(v) else z3.RealVal(v)
    @property
    def n(s): return z3.If(z3.IsInt(s.v), z3.ToInt(s.v), NUMER(s.v))
    @property
    def d(s): return z3.If(z3.IsInt(s.v), z3.IntVal(1), DENOM(s.v))
    def __repr__(s): return f'Rat({s.v})'
UNIT = Tup()

STD_ENUMS = {'Option': ['None', 'Some'], 'Result': ['Ok', 'Err'], 'Ordering': ['Less', 'Equal', 'Greater'],
             'Cow': ['Borrowed', 'Owned'], 'ControlFlow': ['Continue', 'Break'], 'Sign': ['Minus', 'NoSign', 'Plus'],
             'Entry': ['Occupied', 'Vacant'], 'Bound': ['Included', 'Excluded', 'Unbounded'],
             'FpCategory': ['Nan', 'Infinite', 'Zero', 'Subnormal', 'Normal']}
DISCR_OVERRIDE = {('Ordering', 'Less'): -1, ('Ordering', 'Equal'): 0, ('Ordering', 'Greater'): 1}

class Abort(Exception): pass        # a panic on this path
class Infeasible(Exception): pass   # path pruned
class Missing(Exception): pass      # model missing / construct not encodable => inconclusive
class Fuel(Exception): pass
TRACE_RC = bool(os.environ.get('MIRSYM_TRACE_RC'))

def opt(v=None): return Adt('Option', 'Some', [v]) if v is not None else Adt('Option', 'None', [])
def ok(v): return Adt('Result', 'Ok', [v])
def err(v): return Adt('Result', 'Err', [v])
def ordering(k): return Adt('Ordering', ['Less', 'Equal', 'Greater'][k], [])

def strip_generics(c):
    if '::<' not in c: return c
    out = []; i = 0; n = len(c)
    while i < n:
        if c.startswith('::<', i):
            d = 0; j = i + 2
            while True:
                if c[j] == '<': d += 1
                elif c[j] == '>' and c[j-1] != '-':
                    d -= 1
                    if d == 0: break
                j += 1
            # `path::<impl T>::method` is an inherent-impl path segment (kept); `f::<impl Trait>` at the end is a generic argument (stripped)
            if c.startswith('::<impl ', i) and c.startswith('::', j + 1) and re.match(r'::<impl (at |\[|[a-z])', c[i:i+12]): out.append(c[i:j+1])
            i = j + 1
        else: out.append(c[i]); i += 1
    return ''.join(out)

@functools.lru_cache(maxsize=100000)
def norm(t):
    if t is None: return None
    t = re.sub(r"\b(?:[a-z_][a-z0-9_]*::)+", "", t)
    t = re.sub(r"&'\w+ ", "&", t)
    t = re.sub(r"<'\w+>", "", t); t = re.sub(r"<'\w+, ", "<", t)
    return t

INT_TY = re.compile(r'(i|u)(8|16|32|64|128|size)$')
@functools.lru_cache(maxsize=None)
def int_bounds(ty):
    m = INT_TY.match(ty or '')
    if not m:
        if ty == 'char': return (0, 0x10FFFF)
        return None
    bits = 64 if m.group(2) == 'size' else int(m.group(2))
    return (-(1 << (bits-1)), (1 << (bits-1)) - 1) if m.group(1) == 'i' else (0, (1 << bits) - 1)

def wrap(v, ty):
    b = int_bounds(ty)
    if b is None: return v
    lo, hi = b; span = hi - lo + 1
    v = z3.simplify(v)
    if z3.is_int_value(v): return z3.IntVal((v.as_long() - lo) % span + lo)
    return (v - lo) % span + lo

def tdiv(x, y):
    """truncating integer division on z3 Ints (y != 0)"""
    q = x / y       # z3: euclidean-style (floor for y>0, ceil for y<0 such that remainder >= 0)
    return z3.If(z3.And(x < 0, x % y != 0), z3.If(y > 0, q + 1, q - 1), q)
def trem(x, y): return x - y * tdiv(x, y)
def fdiv(x, y):
    """floor division on z3 Ints (y != 0)"""
    q = x / y
    return z3.If(z3.And(y < 0, x % y != 0), q - 1, q)
def fmod(x, y): return x - y * fdiv(x, y)
def floor_r(x): return z3.ToInt(x)                        # Real -> Int floor
def trunc_r(x): return z3.If(x >= 0, z3.ToInt(x), -z3.ToInt(-x))
def ceil_r(x): return -z3.ToInt(-x)

def balanced(t):
    d = 0
    for c in t:
        if c in '([{': d += 1
        elif c in ')]}':
            d -= 1
            if d < 0: return False
    return d == 0

CHAR_ESC = {'\\n': 10, '\\r': 13, '\\t': 9, '\\0': 0, '\\\\': 92, "\\'": 39, '\\"': 34}

@functools.lru_cache(maxsize=200000)
def _parse_place(t):
    t = t.strip()
    if re.fullmatch(r'_\d+', t): return int(t[1:]), ()
    if t.endswith(']'):
        d = 0
        for k in range(len(t)-1, -1, -1):
            if t[k] == ']': d += 1
            elif t[k] == '[':
                d -= 1
                if d == 0: break
        base, idx = t[:k], t[k+1:-1]
        b, p = _parse_place(base)
        m = re.fullmatch(r'(\d+) of (\d+)', idx)
        if m: return b, p + (int(m.group(1)),)
        m = re.fullmatch(r'-(\d+) of (\d+)', idx)
        if m: return b, p + (('fromend', int(m.group(1))),)
        m = re.fullmatch(r':-(\d+)', idx)          # Subslice from 0 with `to` counted from the end: rustc prints `[:-to]`
        if m: return b, p + (('sub', 0, int(m.group(1))),)
        m = re.fullmatch(r'(\d+):(-?\d*)', idx)
        if m: return b, p + (('sub', int(m.group(1)), abs(int(m.group(2))) if m.group(2) not in ('', '-') else 0),)
        m = re.fullmatch(r'_(\d+)', idx)
        if m: return b, p + (('idx', int(m.group(1))),)
        raise Missing('index place ' + t)
    if t.startswith('(*') and t.endswith(')') and balanced(t[2:-1]):
        b, p = _parse_place(t[2:-1]); return b, p + ('*',)
    if t.startswith('(') and t.endswith(')'):
        inner = t[1:-1]
        m = re.match(r'^(.*) as (\w+)$', inner)
        if m and balanced(m.group(1)):
            b, p = _parse_place(m.group(1)); return b, p + (('as', m.group(2)),)
        m = re.match(r'^(.*) as variant#(\d+)$', inner)
        if m and balanced(m.group(1)):
            b, p = _parse_place(m.group(1)); return b, p + (('as', int(m.group(2))),)
        d = 0
        for i, c in enumerate(inner):
            if c in '([{': d += 1
            elif c in ')]}': d -= 1
            elif c == '.' and d == 0:
                m2 = re.match(r'\.(\d+): ', inner[i:])
                if m2 and balanced(inner[:i]):
                    b, p = _parse_place(inner[:i]); return b, p + (int(m2.group(1)),)
    raise Missing('place ' + t)

RE_GOTO = re.compile(r'^goto -> bb(\d+)$')
RE_SWITCH = re.compile(r'^switchInt\((.*)\) -> \[(.*)\]$')
RE_ASSERT = re.compile(r'^assert\((!?)(.*?), "(.*)"(?:, .*)?\) -> \[success: bb(\d+), unwind.*\]$')
RE_DROP = re.compile(r'^drop\((.*)\) -> \[return: bb(\d+), .*\]$')
RE_CALL = re.compile(r'^(?:(.*?) = )?(.*?)(?: -> \[return: bb(\d+), unwind.*\]| -> unwind.*| -> bb\d+)$')
RE_ARGLOCAL = re.compile(r'^(?:no_retag )?(?:copy|move) _(\d+)$')

BINOPS = {'Eq', 'Ne', 'Lt', 'Le', 'Gt', 'Ge', 'Add', 'Sub', 'Mul', 'Div', 'Rem', 'AddWithOverflow', 'SubWithOverflow',
          'MulWithOverflow', 'Not', 'Neg', 'PtrMetadata', 'BitAnd', 'BitOr', 'BitXor', 'Shl', 'Shr', 'Cmp', 'Offset',
          'AddUnchecked', 'SubUnchecked', 'MulUnchecked', 'ShlUnchecked', 'ShrUnchecked'}

def low_zero_bits(t, depth=0):
    """a k such that the integer term t is provably a multiple of 2^k (syntactic; 0 when nothing is known)"""
    if not z3.is_expr(t) or depth > 12: return 0
    if z3.is_int_value(t):
        v = t.as_long()
        return 64 if v == 0 else ((v & -v).bit_length() - 1)
    if not z3.is_app(t): return 0
    kind = t.decl().kind(); ch = t.children()
    if kind == z3.Z3_OP_MUL: return min(64, sum(low_zero_bits(c, depth + 1) for c in ch))
    if kind in (z3.Z3_OP_ADD, z3.Z3_OP_SUB): return min(low_zero_bits(c, depth + 1) for c in ch)
    if kind == z3.Z3_OP_MOD and z3.is_int_value(ch[1]):
        m = ch[1].as_long()
        if m > 0 and m & (m - 1) == 0: return min(low_zero_bits(ch[0], depth + 1), m.bit_length() - 1)
    if kind == z3.Z3_OP_ITE: return min(low_zero_bits(ch[1], depth + 1), low_zero_bits(ch[2], depth + 1))
    return 0
def as_bv(x, bits): return z3.Int2BV(x, bits)
def bitop(op, a, b, ty):
    lo, hi = int_bounds(ty); bits = (hi - lo + 1).bit_length() - 1
    a_, b_ = z3.simplify(a), z3.simplify(b)
    if z3.is_int_value(a_) and z3.is_int_value(b_):
        x, y = a_.as_long(), b_.as_long()
        r = {'BitAnd': x & y, 'BitOr': x | y, 'BitXor': x ^ y}[op]
        return z3.IntVal(r)
    f = {'BitAnd': lambda p, q: p & q, 'BitOr': lambda p, q: p | q, 'BitXor': lambda p, q: p ^ q}[op]
    r = f(as_bv(a, bits), as_bv(b, bits))
    return z3.BV2Int(r, is_signed=(lo < 0))

_INDEX = {}
def index_of(fns):
    """(by_last, by_name, closures) lookup tables of a MIR dump; cached: building them walks every function, which in a forked worker
    copies the whole dump page by page (reference counts) — once per process is enough, once in the parent is better"""
    key = id(fns)
    if key in _INDEX: return _INDEX[key]
    by_last = {}; seen_sig = set()
    for f in fns:
        sig = (f.name, tuple(f.params))
        if sig in seen_sig and not f.name.endswith('::fmt'): continue       # const fns are dumped twice (runtime MIR and CTFE MIR)
        seen_sig.add(sig)
        by_last.setdefault(f.name.split('::')[-1], []).append(f)
    by_name = {}
    for f in fns: by_name.setdefault(f.name, f)
    closures = {}
    for f in fns:
        if '{closure#' in f.name and f.params:
            closures[re.sub(r'^&(mut )?', '', f.params[0][1]).strip()] = f
    _INDEX[key] = (by_last, by_name, closures)
    return _INDEX[key]

_SWITCH_ARMS = {}
class Frame(dict):
    """locals of one activation: index -> Cell, created lazily"""
    def __missing__(s, k):
        c = Cell(); s[k] = c; return c

class Engine:
    FUEL = 400_000
    def __init__(s, fns, enums, feas_timeout_ms=250):
        s.fns = fns; s.enums = dict(STD_ENUMS); s.enums.update(enums)
        s.by_last, s.by_name, s.closures = index_of(fns)          # read-only lookup tables, built once per MIR dump (and before workers fork)
        s.solver = z3.Solver(); s.solver.set('timeout', feas_timeout_ms); s.feas_timeout_full = 3000
        s.stubs = {}; s.models = []; s.steps = 0; s.total_steps = 0
        s.used_models = set(); s.used_fns = set(); s.used_stubs = set()
        s.feas_queries = 0; s.feas_unknown = 0
        s.reset([], [])

    # ------------------------------------------------ exploration by decision replay
    def reset(s, decisions, cache):
        s.pc = []; s._synced = 0; s.solver.reset()
        s.decisions = list(decisions); s.dpos = 0; s.alts = [None] * len(decisions)
        s.cache = list(cache); s.cpos = 0; s.dec_cpos = [None] * len(decisions)
        s.log = []; RcObj.n = 0; s.steps = 0; s.fresh_n = 0

    def fresh(s, name, sort='Int'):
        s.fresh_n += 1
        nm = f'{name}!{s.fresh_n}'
        return {'Int': z3.Int, 'Real': z3.Real, 'Bool': z3.Bool}[sort](nm)

    def assume(s, *cs):
        for c in cs: s.pc.append(c)

    def _sync(s):
        while s._synced < len(s.pc):
            s.solver.add(s.pc[s._synced]); s._synced += 1

    def feasible(s, c):
        s._sync(); s.solver.push(); s.solver.add(c); r = s.solver.check(); s.solver.pop()
        s.feas_queries += 1
        if r == z3.unknown:
            # the incremental core gives up quickly on ToInt/IsInt/UF mixes that the full (non-incremental) pipeline decides at once
            f = z3.Solver(); f.set('timeout', s.feas_timeout_full); f.add(*s.pc); f.add(c); r = f.check()
            if r == z3.unknown: s.feas_unknown += 1
        return r != z3.unsat

    def _pc_ids(s):
        """ids of the conjuncts of the path condition (maintained incrementally; the path condition only grows within a path)"""
        if getattr(s, '_pcid_for', None) is not s.pc or s._pcid_n > len(s.pc): s._pcid_for = s.pc; s._pcid_n = 0; s._pcid_set = set()
        while s._pcid_n < len(s.pc):
            c_ = s.pc[s._pcid_n]; s._pcid_n += 1
            if z3.is_expr(c_): s._pcid_set.add(c_.get_id())
        return s._pcid_set

    def choose(s, conds):
        """pick one feasible alternative (forks). conds: list of z3 Bool / python bool."""
        cs = []
        for c in conds:
            c = z3.simplify(c) if z3.is_expr(c) else z3.BoolVal(bool(c))
            cs.append(c)
        if s.cpos < len(s.cache): feas = s.cache[s.cpos]
        else:
            feas = []
            # a condition that is already a conjunct of the path condition needs no solver call (loops that re-test the same
            # symbolic condition every iteration would otherwise pay one query per iteration on an ever longer path condition)
            have = s._pc_ids() if len(cs) == 2 else ()
            if have and cs[0].get_id() in have and not z3.is_true(cs[0]) and (z3.is_not(cs[1]) and cs[1].arg(0).get_id() == cs[0].get_id() or z3.is_not(cs[0]) and cs[0].arg(0).get_id() == cs[1].get_id()): feas = [0]
            elif have and cs[1].get_id() in have and not z3.is_true(cs[1]) and (z3.is_not(cs[1]) and cs[1].arg(0).get_id() == cs[0].get_id() or z3.is_not(cs[0]) and cs[0].arg(0).get_id() == cs[1].get_id()): feas = [1]
            else:
                for i, c in enumerate(cs):
                    if z3.is_false(c): continue
                    if z3.is_true(c) or s.feasible(c): feas.append(i)
            s.cache.append(feas)
        my_cpos = s.cpos; s.cpos += 1
        if not feas: raise Infeasible()
        if len(feas) == 1:
            c = cs[feas[0]]
            if not z3.is_true(c) and c.get_id() not in s._pc_ids(): s.pc.append(c)
            return feas[0]
        if s.dpos < len(s.decisions): k = s.decisions[s.dpos]; s.alts[s.dpos] = len(feas); s.dec_cpos[s.dpos] = my_cpos
        else: k = 0; s.decisions.append(0); s.alts.append(len(feas)); s.dec_cpos.append(my_cpos)
        s.dpos += 1
        c = cs[feas[k]]
        if not z3.is_true(c): s.pc.append(c)
        return feas[k]

    def branch(s, c):
        """True/False fork on a Bool term"""
        return s.choose([c, z3.Not(c)]) == 0

    def concretize(s, term, lo, hi):
        """fork on the value of an Int term in [lo, hi]; returns python int"""
        t = z3.simplify(term)
        if z3.is_int_value(t): return t.as_long()
        n = hi - lo + 1
        k = s.choose([term == j for j in range(lo, hi + 1)] + [z3.Or(term < lo, term > hi)])
        if k == n: raise Abort(f'value outside {lo}..{hi} (index / shift amount out of range)')
        return lo + k

    def explore(s, run, max_paths=200000):
        """returns list of (pc, kind, result, log) with kind in ok|panic|missing|fuel"""
        stack, out = [([], [])], []
        while stack:
            dec, cache = stack.pop(); s.reset(dec, cache)
            try:
                res = run(); out.append((list(s.pc), 'ok', res, list(s.log)))
            except Abort as e: out.append((list(s.pc), 'panic', str(e), list(s.log)))
            except Missing as e: out.append((list(s.pc), 'missing', str(e), list(s.log)))
            except Fuel as e:
                out.append((list(s.pc), 'fuel', str(e), list(s.log)))
                if getattr(s, 'stop_on_fuel', False): s.total_steps += s.steps; return out          # one non-termination candidate is enough (each costs the whole fuel)
            except Infeasible: pass
            s.total_steps += s.steps
            for i in range(len(dec), len(s.decisions)):
                for k in range(1, s.alts[i]):
                    stack.append((s.decisions[:i] + [k], s.cache[:s.dec_cpos[i] + 1]))
            if len(out) > max_paths: raise Fuel('too many paths')
        return out

    # ------------------------------------------------ places
    def place(s, fr, t):
        """-> (cell, path) with symbolic indices concretized"""
        b, p = _parse_place(t)
        if any(isinstance(x, tuple) and x[0] == 'idx' for x in p):
            q = []
            for x in p:
                if isinstance(x, tuple) and x[0] == 'idx':
                    cur = s.read(fr[b], q); n = len(cur.fields)
                    iv = fr[x[1]].v
                    q.append(s.concretize(iv, 0, n - 1))
                else: q.append(x)
            p = tuple(q)
        return fr[b], p

    def deref(s, v):
        while isinstance(v, Ref): v = s.read(v.cell, v.path)
        return v

    def step_read(s, v, p):
        if v is None and p != '*': return None        # uninitialised aggregate being built field by field
        if p == '*':
            if isinstance(v, Ref): return s.read(v.cell, v.path)
            if isinstance(v, (BoxV, PtrWrap)): return v.cell.v
            if isinstance(v, RcV): return v.obj.cell.v
            raise Missing(f'deref of {v!r}')
        if isinstance(p, tuple):
            if p[0] == 'as': return v
            if p[0] == 'fromend': return v.fields[len(v.fields) - p[1]]
            if p[0] == 'sub': return Seq(v.fields[p[1]: len(v.fields) - p[2]])
        if isinstance(v, BoxV): return PtrWrap(v.cell)
        if isinstance(v, PtrWrap): return v
        if isinstance(v, RcV): return v           # Rc { ptr, .. } field access during drop elaboration etc.
        try: return v.fields[p]
        except (AttributeError, IndexError, TypeError): raise Missing(f'field {p} of {v!r}')

    def read(s, cell, path):
        v = cell.v
        for p in path: v = s.step_read(v, p)
        return v

    def canon(s, cell, path):
        """resolve derefs so that the result (cell, path) has no '*' and no box hops"""
        cur_cell, cur_path = cell, []
        for p in path:
            v = s.read(cur_cell, cur_path)
            if p == '*':
                if isinstance(v, Ref): cur_cell, cur_path = v.cell, list(v.path)
                elif isinstance(v, (BoxV, PtrWrap)): cur_cell, cur_path = v.cell, []
                elif isinstance(v, RcV): cur_cell, cur_path = v.obj.cell, []
                else: raise Missing(f'deref write {v!r}')
            elif isinstance(v, (BoxV, PtrWrap)) and isinstance(p, int): pass
            else: cur_path.append(p)
        return cur_cell, cur_path

    def write(s, cell, path, val):
        cell, path = s.canon(cell, path)
        def upd(v, path):
            if not path: return val
            p = path[0]
            if isinstance(p, tuple) and p[0] == 'as': return upd(v, path[1:])
            if isinstance(p, tuple) and p[0] == 'sub':
                lo, hi = p[1], len(v.fields) - p[2]
                inner = upd(Seq(v.fields[lo:hi]), path[1:])
                v2 = copy.copy(v); v2.fields = v.fields[:lo] + inner.fields + v.fields[hi:]; return v2
            if isinstance(p, tuple) and p[0] == 'fromend': p = len(v.fields) - p[1]
            if v is None:
                if not isinstance(p, int): raise Missing('write into uninitialised aggregate')
                v = Tup([])          # field-by-field initialisation of a tuple / struct local
            v2 = copy.copy(v); v2.fields = list(v.fields)
            if isinstance(p, int) and p >= len(v2.fields) and isinstance(v2, Tup): v2.fields += [None] * (p + 1 - len(v2.fields))
            v2.fields[p] = upd(v2.fields[p], path[1:]); return v2
        cell.v = upd(cell.v, path)

    def wr(s, ref, v): s.write(ref.cell, list(ref.path), v)

    # ------------------------------------------------ operands, rvalues
    def operand(s, fr, t):
        t = t.strip()
        if t.startswith('copy '): c, p = s.place(fr, t[5:]); return s.read(c, p)
        if t.startswith('move '): c, p = s.place(fr, t[5:]); return s.read(c, p)
        if t.startswith('no_retag '): return s.operand(fr, t[9:])
        if t.startswith('const '): return s.const(t[6:])
        if re.fullmatch(r"[\w:<>, ()&'\[\];]+", t) and not t.startswith('('): return FnItem(t)
        raise Missing('operand ' + t)

    def mk_f64(s, txt):
        # the literal is the shortest decimal that round-trips: the constant is that double, exactly
        from fractions import Fraction
        q = Fraction(float(txt))
        return F64(3, z3.RealVal(f'{q.numerator}/{q.denominator}'), z3.BoolVal(txt.strip().startswith('-') and q == 0))

    def const(s, t):
        t = t.strip()
        if t == 'false': return z3.BoolVal(False)
        if t == 'true': return z3.BoolVal(True)
        if t == '()': return UNIT
        m = re.fullmatch(r'(-?\d+)_(i|u)(8|16|32|64|128|size)', t)
        if m: return z3.IntVal(int(m.group(1)))
        m = re.fullmatch(r'(?:(?:core|std)::num::<impl )?((?:i|u)(?:8|16|32|64|128|size))>?::(MAX|MIN)', t)
        if m:
            lo, hi = int_bounds(m.group(1)); return z3.IntVal(hi if m.group(2) == 'MAX' else lo)
        if t.startswith('"') or t.startswith('b"'): return Opaque('str:' + t)
        if t.startswith('ZeroSized: '):
            body = t[len('ZeroSized: '):]
            return Closure(body, []) if body.startswith('{closure') else FnItem(body)
        m = re.fullmatch(r"'(\\.|.)'", t)
        if m:
            c = m.group(1); return z3.IntVal(CHAR_ESC[c] if c in CHAR_ESC else ord(c))
        m = re.fullmatch(r"'\\u\{([0-9a-fA-F]+)\}'", t)
        if m: return z3.IntVal(int(m.group(1), 16))
        m = re.fullmatch(r'(-?[0-9.]+(?:[eE][-+]?[0-9]+)?)f(?:64|32)', t)
        if m: return s.mk_f64(m.group(1))
        m = re.fullmatch(r'(-?)inf(?:f64)?|(?:core::|std::)?f64::(?:<impl f64>::)?(INFINITY|NEG_INFINITY|NAN)', t)
        if m: return F64(2 if (m.group(1) or m.group(2) == 'NEG_INFINITY') else (0 if m.group(2) == 'NAN' else 1), 0)
        if t in ('NaNf64', 'NaN'): return F64(0, 0)
        if 'promoted[' in t or re.fullmatch(r'(?:[a-z_][a-z0-9_]*::)*[A-Z][A-Z0-9_]*', t):
            tt = t
            while '::<' in tt:           # drop every generic-argument segment, including `::<impl Trait>` ones
                i0 = tt.index('::<'); d = 0; j = i0 + 2
                while True:
                    if tt[j] == '<': d += 1
                    elif tt[j] == '>' and tt[j-1] != '-':
                        d -= 1
                        if d == 0: break
                    j += 1
                tt = tt[:i0] + tt[j+1:]
            parts = tt.split('::')
            for k in range(len(parts)):          # the use site prints the full module path (and generic arguments), the definition a shorter one
                pf = s.by_name.get('const ' + '::'.join(parts[k:]))
                if pf is not None and not pf.params and pf.blocks: return s.run_fn(pf, [])
            if 'promoted[' in t and len(parts) >= 2:
                # a promoted constant belongs to the function that is executing: `<that function's definition name>::promoted[i]`
                cur = getattr(s, 'cur_fn', None)
                if cur is not None:
                    pf = s.by_name.get(f'const {cur.name}::{parts[-1]}')
                    if pf is not None and not pf.params and pf.blocks: return s.run_fn(pf, [])
                # impl blocks print as `<impl at file:span>` in the definition but as the type path at the use site: match on `fn::promoted[i]`
                tail = '::'.join(parts[-2:])
                cands = [g for nm, g in s.by_name.items() if nm.startswith('const ') and nm.endswith('::' + tail) or nm == 'const ' + tail]
                if len(cands) == 1 and not cands[0].params: return s.run_fn(cands[0], [])
                # several functions of that name have promoteds: they are almost always formatting flags / string pieces — keep going only if all agree structurally
                raise Missing('promoted constant ' + t)
        if re.fullmatch(r'[\w:<>, {}@.#\[\]&\'()\-=]+', t): return FnItem(t)
        raise Missing('const ' + t)

    def discr(s, v):
        if not isinstance(v, Adt): raise Missing(f'discriminant of {v!r}')
        if (v.ty, v.variant) in DISCR_OVERRIDE: return z3.IntVal(DISCR_OVERRIDE[(v.ty, v.variant)])
        try: return z3.IntVal(s.enums[v.ty].index(v.variant))
        except (KeyError, ValueError): raise Missing(f'discriminant of {v.ty}::{v.variant}')

    def rvalue(s, fr, fn, t, dst_ty):
        t = t.strip()
        c0 = t[0]
        if c0 == '&':
            body = t[1:]
            for pre in ('mut ', 'raw const (fake) ', 'raw const ', 'raw mut ', 'fake shallow ', 'fake '):
                if body.startswith(pre): body = body[len(pre):]; break
            c, p = s.place(fr, body); cell, path = s.canon(c, p); return Ref(cell, path)
        if t.startswith(('copy ', 'move ', 'const ')) and ' as ' not in t: return s.operand(fr, t)
        m = re.match(r'^discriminant\((.*)\)$', t)
        if m:
            c, p = s.place(fr, m.group(1)); return s.discr(s.read(c, p))
        m = re.match(r'^(\w+)\((.*)\)$', t)
        if m and m.group(1) in BINOPS:
            ops = [s.operand(fr, x) for x in split_top(m.group(2))]; op = m.group(1)
            return s.binop(op, ops, dst_ty)
        m = re.match(r'^(.*) as (.*) \((\w+)(?:\(.*\))?(?:, \w+)?\)$', t)
        if m:
            v = s.operand(fr, m.group(1)); kind = m.group(3); ty = m.group(2).strip()
            if kind in ('Transmute', 'PtrToPtr', 'PointerCoercion', 'PointerExposeProvenance', 'PointerWithExposedProvenance', 'FnPtrToPtr'):
                if isinstance(v, PtrWrap): return Ref(v.cell, [])
                return v
            if kind == 'IntToInt':
                if z3.is_bool(v): v = z3.If(v, 1, 0)
                if isinstance(v, Adt):     # fieldless enum -> integer
                    v = s.discr(v)
                return wrap(v, ty)
            if kind == 'IntToFloat': return s.int_to_float(v)
            if kind == 'FloatToInt': return s.float_to_int(v, ty)
            if kind == 'FloatToFloat': return v
            return v
        m = re.match(r'^\[(.*); (\d+)(?:_usize)?\]$', t)
        if m and balanced(m.group(1)):
            v = s.operand(fr, m.group(1)); return Seq([v] * int(m.group(2)))
        # aggregates
        sh = s.enums.get('__shadowed__')
        if sh:
            mq = re.match(r'^([\w:]+)::(\w+)(?:::<.*>)?::\w+', t)
            if mq and mq.group(2) in sh and mq.group(1).split('::')[-1] != sh[mq.group(2)]:
                raise Missing(f'enum {mq.group(1)}::{mq.group(2)} is shadowed by {sh[mq.group(2)]}::{mq.group(2)} in the encoder\'s enum table')
        m = re.match(r'^(?:[\w:]+::)?(\w+)(?:::<.*>)?::(\w+)\((.*)\)$', t)
        if m and m.group(1) in s.enums and m.group(2) in s.enums[m.group(1)]:
            return Adt(m.group(1), m.group(2), [s.operand(fr, x) for x in split_top(m.group(3))])
        m = re.match(r'^(?:[\w:]+::)?(\w+)(?:::<.*>)?::(\w+)$', t)
        if m and m.group(1) in s.enums and m.group(2) in s.enums[m.group(1)]:
            return Adt(m.group(1), m.group(2), [])
        m = re.match(r'^(?:[\w:]+::)?(\w+)(?:::<.*>)?::(\w+) \{(.*)\}$', t)
        if m and m.group(1) in s.enums and m.group(2) in s.enums[m.group(1)]:
            return Adt(m.group(1), m.group(2), [s.operand(fr, x.split(':', 1)[1]) for x in split_top(m.group(3))])
        if re.fullmatch(r'\w+', t):
            hits = [ty for ty, vs in s.enums.items() if not ty.startswith('__') and t in vs]
            if len(hits) == 1: return Adt(hits[0], t, [])
            for ty in ('Ordering', 'Sign', 'Assoc', 'Option'):
                if ty in hits: return Adt(ty, t, [])
        if c0 == '{' and t.startswith('{closure@'):
            m = re.match(r'^(\{closure@[^}]*\}) \{(.*)\}$', t)
            if m: return Closure(m.group(1), [s.operand(fr, x.split(':', 1)[1]) for x in split_top(m.group(2))])
            return Closure(t, [])
        m = re.match(r'^([\w:]+?)(?:::<.*>)? \{(.*)\}$', t)
        if m: return Adt(m.group(1).split('::')[-1], None, [s.operand(fr, x.split(':', 1)[1]) for x in split_top(m.group(2))])
        m = re.match(r'^([\w:]+?)(?:::<.*>)?\((.*)\)$', t)
        if m and c0 != '(':   # tuple struct / single-name enum variant constructor
            nm = m.group(1).split('::')[-1]
            hits = [ty for ty, vs in s.enums.items() if not ty.startswith('__') and nm in vs]
            if nm in ('Some', 'Ok', 'Err') or len(hits) == 1:
                ty = {'Some': 'Option', 'Ok': 'Result', 'Err': 'Result'}.get(nm) or hits[0]
                return Adt(ty, nm, [s.operand(fr, x) for x in split_top(m.group(2))])
            return Adt(nm, None, [s.operand(fr, x) for x in split_top(m.group(2))])
        if c0 == '(' and t.endswith(')'): return Tup([s.operand(fr, x) for x in split_top(t[1:-1])])
        if c0 == '[' and t.endswith(']'): return Seq([s.operand(fr, x) for x in split_top(t[1:-1])])
        return s.operand(fr, t)

    # float <-> int casts: `as` rounds; exact when |x| <= 2^53
    RND = z3.Function('f64_round_of_int', z3.IntSort(), z3.RealSort())
    def int_to_float(s, v):
        vs = z3.simplify(v)
        if z3.is_int_value(vs):       # constant: round to nearest double exactly as `as f64` does
            from fractions import Fraction
            q = Fraction(float(vs.as_long())); return F64(3, z3.RealVal(f'{q.numerator}/{q.denominator}'))
        exact = z3.And(v >= -(1 << 53), v <= (1 << 53))
        return F64(3, z3.If(exact, z3.ToReal(v), Engine.RND(v)))
    def float_to_int(s, f, ty):
        lo, hi = int_bounds(ty)
        t = trunc_r(f.val)
        return z3.If(f.kind == 0, 0, z3.If(f.kind == 1, hi, z3.If(f.kind == 2, lo, z3.If(t > hi, hi, z3.If(t < lo, lo, t)))))

    def fcmp(s, op, x, y):
        both = z3.And(x.kind != 0, y.kind != 0)
        def key(v): return z3.If(v.kind == 1, 1, z3.If(v.kind == 2, -1, 0))
        lt = z3.Or(key(x) < key(y), z3.And(key(x) == 0, key(y) == 0, x.val < y.val))
        eq = z3.And(key(x) == key(y), z3.Or(key(x) != 0, x.val == y.val))
        r = {'Eq': eq, 'Ne': z3.Not(eq), 'Lt': lt, 'Le': z3.Or(lt, eq), 'Gt': z3.And(z3.Not(lt), z3.Not(eq)), 'Ge': z3.Not(lt)}[op]
        return z3.And(both, r) if op != 'Ne' else z3.Or(z3.Not(both), r)

    FOPS = {}
    @staticmethod
    def fop_term(name, *xs):
        """the term `fop` produces, without side conditions (for oracles)"""
        key = (name, len(xs))
        if key not in Engine.FOPS:
            dom = []
            for _ in xs: dom += [z3.IntSort(), z3.RealSort(), z3.BoolSort()]
            Engine.FOPS[key] = (z3.Function(f'f_{name}_k', *dom, z3.IntSort()), z3.Function(f'f_{name}_v', *dom, z3.RealSort()),
                                z3.Function(f'f_{name}_z', *dom, z3.BoolSort()))
        fk, fv, fz = Engine.FOPS[key]; args = []
        for x in xs: args += [x.kind, x.val, x.nz]
        return F64(fk(*args), fv(*args), fz(*args))

    def fop(s, name, *xs):
        """uninterpreted float operation (routing-level claim only)"""
        key = (name, len(xs))
        if key not in Engine.FOPS:
            dom = []
            for _ in xs: dom += [z3.IntSort(), z3.RealSort(), z3.BoolSort()]
            Engine.FOPS[key] = (z3.Function(f'f_{name}_k', *dom, z3.IntSort()), z3.Function(f'f_{name}_v', *dom, z3.RealSort()),
                                z3.Function(f'f_{name}_z', *dom, z3.BoolSort()))
        fk, fv, fz = Engine.FOPS[key]; args = []
        for x in xs: args += [x.kind, x.val, x.nz]
        k = fk(*args); s.assume(k >= 0, k <= 3)
        return F64(k, fv(*args), fz(*args))

    def binop(s, op, ops, dst_ty):
        a = ops[0]; b = ops[1] if len(ops) > 1 else None
        if op == 'PtrMetadata': return z3.IntVal(len(s.deref(a).fields))
        if isinstance(a, F64):
            if op in ('Eq', 'Ne', 'Lt', 'Le', 'Gt', 'Ge'): return s.fcmp(op, a, b)
            if op == 'Neg': return F64(z3.If(a.kind == 1, 2, z3.If(a.kind == 2, 1, a.kind)), -a.val, z3.Not(a.nz))
            return s.fop(op, a, b)
        if isinstance(a, Adt) and op in ('Eq', 'Ne'):     # fieldless enums compared by discriminant
            r = s.discr(a) == s.discr(b); return r if op == 'Eq' else z3.Not(r)
        if op == 'Eq': return a == b
        if op == 'Ne': return a != b
        if op == 'Lt': return a < b
        if op == 'Le': return a <= b
        if op == 'Gt': return a > b
        if op == 'Ge': return a >= b
        if op == 'Cmp':
            k = s.choose([a < b, a == b, a > b]); return ordering(k)
        if op == 'Not':
            if z3.is_bool(a): return z3.Not(a)
            bd = int_bounds(dst_ty or '')
            return (bd[1] - a) if (bd and bd[0] == 0) else (-a - 1)
        if op == 'Neg': return wrap(-a, dst_ty)
        if op in ('Add', 'Sub', 'Mul', 'AddUnchecked', 'SubUnchecked', 'MulUnchecked'):
            r = {'A': a + b, 'S': a - b, 'M': a * b}[op[0]]
            return wrap(r, dst_ty) if not op.endswith('Unchecked') else r
        if op in ('AddWithOverflow', 'SubWithOverflow', 'MulWithOverflow'):
            r = {'A': a + b, 'S': a - b, 'M': a * b}[op[0]]
            ty = re.match(r'\((\w+), bool\)', dst_ty).group(1); lo, hi = int_bounds(ty)
            return Tup([wrap(r, ty), z3.Or(r < lo, r > hi)])
        if op == 'Div': return tdiv(a, b)
        if op == 'Rem': return trem(a, b)
        if op in ('BitAnd', 'BitOr', 'BitXor'):
            if z3.is_bool(a): return {'BitAnd': z3.And(a, b), 'BitOr': z3.Or(a, b), 'BitXor': z3.Xor(a, b)}[op]
            if op in ('BitOr', 'BitXor'):
                # `(x << k) | d` with 0 <= d < 2^k (the accumulator idiom): the bit ranges are disjoint, so the result is the sum —
                # keeps the query in linear integer arithmetic instead of Int2BV / BV2Int
                for p, q in ((a, b), (b, a)):
                    k = low_zero_bits(p)
                    if k and not s.feasible(z3.Or(q < 0, q >= (1 << min(k, 62)))): return wrap(p + q, dst_ty)
            return bitop(op, a, b, dst_ty)
        if op in ('Shl', 'Shr', 'ShlUnchecked', 'ShrUnchecked'):
            bs = z3.simplify(b)
            if not z3.is_int_value(bs):
                lo, hi = int_bounds(dst_ty); bits = (hi - lo + 1).bit_length() - 1
                k = s.concretize(b, 0, bits - 1)
            else: k = bs.as_long()
            if op.startswith('Shl'): return wrap(a * (1 << k), dst_ty)
            return fdiv(a, z3.IntVal(1 << k)) if k else a
        if op == 'Offset': raise Missing('pointer offset')
        raise Missing('binop ' + op)

    # ------------------------------------------------ drop / clone (structural)
    def drop_value(s, v):
        if isinstance(v, RcV):
            v.obj.count -= 1; s.log.append(('rc_dec', v.obj.id, v.obj.count))
            if TRACE_RC: print('   [rc_dec]', v.obj.id, '->', v.obj.count, 'in', getattr(getattr(s, 'cur_fn', None), 'name', None), 'model', getattr(s, '_cur_callee', None))
            if v.obj.count == 0: s.drop_value(v.obj.cell.v)
        elif isinstance(v, BoxV): s.drop_value(v.cell.v)
        elif isinstance(v, Adt) and v.ty in ('Iter', 'PeekChars') and isinstance(v.fields[0], Seq) and isinstance(v.fields[1], int):
            # an eager iterator / cursor (mirsym.iters): the items before the position were moved out by `next`; dropping the
            # iterator drops only what it still owns
            for f in v.fields[0].fields[v.fields[1]:]: s.drop_value(f)
        elif isinstance(v, (Adt, Tup, Seq, Closure)):
            for f in v.fields: s.drop_value(f)

    def clone_value(s, v):
        if isinstance(v, RcV): v.obj.count += 1; s.log.append(('rc_inc', v.obj.id, v.obj.count)); return RcV(v.obj)
        if isinstance(v, BoxV): return BoxV(s.clone_value(v.cell.v))
        if isinstance(v, (Adt, Tup, Seq, Closure)):
            v2 = copy.copy(v); v2.fields = [s.clone_value(f) for f in v.fields]; return v2
        return v

    # ------------------------------------------------ calls
    def resolve(s, callee, argtys):
        if callee in s.by_name: return s.by_name[callee]
        # receiver type unknown statically (trait object / generic Self / type parameter): dynamic dispatch decides
        if re.match(r'^<(?:&(?:mut )?)?(?:Self|dyn [^>]*|[A-Z]|Box<dyn .*>|(?:std::rc::)?Rc<dyn .*>) as ', callee): return None
        meth = callee.split('::')[-1]; nat = [norm(t) for t in argtys]
        mm = re.match(r'^<(.*?) as .*>::\w+$', callee)
        selfty = norm(mm.group(1)) if mm else (norm('::'.join(callee.split('::')[:-1])) if '::' in callee else None)
        def bare(t): return re.sub(r'^&(mut )?', '', t or '')
        cands = []
        for f in s.by_last.get(meth, []):
            if '{closure' in f.name: continue
            ptys = [norm(t) for _, t in f.params]
            if len(ptys) != len(nat): continue
            if all(a is None or a == p or re.search(r'\b[A-Z]\b', p) or 'impl ' in p for a, p in zip(nat, ptys)):
                cands.append(f)
        if not mm and '::' not in callee and cands:
            # bare function name: prefer free functions
            free = [f for f in cands if '<impl' not in f.name]
            if len(free) == 1: return free[0]
        if len(cands) == 1:
            f = cands[0]
            # a unique candidate must still be plausible for the self type when one is known
            if selfty is None or not mm: return f
            ptys = [norm(t) for _, t in f.params]
            if not ptys or bare(selfty) in (bare(ptys[0]), norm(f.ret)) or re.search(r'\b[A-Z]\b', ptys[0]) or bare(ptys[0]) in bare(selfty): return f
            return None
        def selfmatch(f):
            ptys = [norm(t) for _, t in f.params]
            tys = ([bare(ptys[0])] if ptys else []) + [norm(f.ret)]
            return selfty is not None and bare(selfty) in tys
        sm = [f for f in cands if selfmatch(f)]
        if len(sm) == 1: return sm[0]
        if not sm and selfty is not None and not mm:
            # inherent method of a generic type (`iter::RcVecIter::of`): compare type heads without generic arguments
            def head(t): return re.sub(r'<.*', '', bare(t))
            hm = [f for f in cands if head(selfty) in ([head(norm(f.params[0][1]))] if f.params else []) + [head(norm(f.ret))]]
            if len(hm) == 1: return hm[0]
        mt = re.match(r'^<.*? as \w+<(.*)>>::\w+$', callee)
        if mt and len(sm or cands) > 1:
            targs = [norm(x) for x in split_top(mt.group(1))]
            byt = [f for f in (sm or cands) if all(any(bare(norm(t)) == bare(ta) for _, t in f.params) for ta in targs)]
            if len(byt) == 1: return byt[0]
        exact = [f for f in (sm or cands) if [norm(t) for _, t in f.params] == nat]
        if len(exact) == 1: return exact[0]
        if mm and exact:
            # several impls with identical signature (macro expansions share spans): disambiguate by trait name in the path
            return None
        return None

    def call(s, fr, fn, callee, args, argtys):
        callee0 = callee; callee = strip_generics(callee)
        st = s.stubs.get(callee)
        if st is not None:
            s.used_stubs.add(callee); return st(s, args)
        r = s.model(callee, args, argtys, callee0)
        if r is not NotImplemented: s.used_models.add(re.sub(r'\{closure@[^}]*\}', '{closure}', callee)); return r
        f = s.resolve(callee, argtys)
        if f is not None: return s.run_fn(f, args)
        r = s.dyn_dispatch(callee, args)
        if r is not NotImplemented: return r
        if re.fullmatch(r'<(?:[a-z_]\w*::)*[A-Z]\w*(?:<.*>)? as Clone>::clone', callee) and args and isinstance(args[0], Ref) and isinstance(s.deref(args[0]), Adt):
            # an impl the resolver cannot tell apart from a same-named type's (two `Token`s): every Clone impl in the crate is derived or
            # structural, so clone structurally
            return s.clone_value(s.deref(args[0]))
        raise Missing(f'no model for {callee0}  argtys={argtys} (in {fn.name if fn else "?"})')

    def dyn_dispatch(s, callee, args):
        """trait-object / generic-Self method call: choose the crate impl by the run-time type of the receiver"""
        if not args or '::' not in callee: return NotImplemented
        meth = callee.split('::')[-1]
        recv = args[0]; v = recv
        hops = 0
        while isinstance(v, (Ref, BoxV, RcV)) and hops < 6:
            if isinstance(v, Ref): v = s.read(v.cell, v.path)
            elif isinstance(v, BoxV): recv = Ref(v.cell, []); v = v.cell.v
            else: recv = Ref(v.obj.cell, []); v = v.obj.cell.v
            hops += 1
        if not isinstance(v, Adt) or v.ty in s.enums and v.ty in STD_ENUMS: return NotImplemented
        cands = []
        for f in s.by_last.get(meth, []):
            if '{closure' in f.name or len(f.params) != len(args): continue
            p0 = re.sub(r'^&(mut )?', '', norm(f.params[0][1]))
            p0 = re.sub(r'<.*>$', '', p0)
            if p0 == v.ty: cands.append(f)
        if len(cands) != 1:
            if not cands:
                # trait default method (`fn Trait::m(_1: &Self, ..)`)
                dflt = [f for f in s.by_last.get(meth, []) if len(f.params) == len(args) and norm(f.params[0][1]) in ('&Self', '&mut Self', 'Self') and '{closure' not in f.name]
                if len(dflt) == 1: cands = dflt
            if len(cands) != 1: return NotImplemented
        f = cands[0]
        a0 = recv if f.params[0][1].strip().startswith('&') else v
        if isinstance(a0, Adt) and f.params[0][1].strip().startswith('&'): a0 = Ref(Cell(a0))
        return s.run_fn(f, [a0] + list(args[1:]))

    def model(s, callee, args, argtys, callee0):
        for m in s.models:
            r = m(s, callee, args, argtys, callee0)
            if r is not NotImplemented: return r
        return NotImplemented

    def call_closure(s, f, args):
        """invoke a closure value / fn item with the given argument list"""
        if isinstance(f, Ref): f = s.deref(f)
        if isinstance(f, Closure):
            st = s.stubs.get(f.ty)
            if st is not None: return st(s, args)
            g = s.closures.get(f.ty)
            if g is None: raise Missing('closure body ' + f.ty)
            self_arg = f
            if g.params and g.params[0][1].startswith('&'): self_arg = Ref(Cell(f))
            return s.run_fn(g, [self_arg] + list(args))
        if isinstance(f, FnItem):
            name = strip_generics(f.name)
            m = re.fullmatch(r'(?:[\w:]+::)?(\w+)::(\w+)', name)
            if m and m.group(1) in s.enums and m.group(2) in s.enums[m.group(1)]: return Adt(m.group(1), m.group(2), list(args))
            if name in ('Some',): return opt(args[0])
            if name in ('Ok',): return ok(args[0])
            if name in ('Err',): return err(args[0])
            return s.call(None, None, f.name, list(args), [None] * len(args))
        if callable(f): return f(s, args)
        raise Missing(f'call of {f!r}')

    def run_fn(s, f, args):
        prev = getattr(s, 'cur_fn', None); s.cur_fn = f          # the executing function (promoted constants are looked up relative to it)
        try: return s._run_fn(f, args)
        finally: s.cur_fn = prev

    def _run_fn(s, f, args):
        s.used_fns.add(f.name)
        fr = Frame()          # cells are created on first use: `evaluate` has thousands of locals and is entered recursively
        for (i, _), v in zip(f.params, args): fr[i].v = v
        bb = 0
        while True:
            s.steps += 1
            if s.steps > s.FUEL: raise Fuel('fuel exhausted in ' + f.name)
            stmts = f.blocks[bb]
            for st in stmts[:-1]: s.statement(fr, f, st)
            term = stmts[-1]
            if term == 'return': return fr[0].v
            if term == 'unreachable': raise Missing('reached unreachable in ' + f.name)
            if term.startswith('goto'):
                bb = int(RE_GOTO.match(term).group(1)); continue
            if term.startswith('switchInt'):
                m = RE_SWITCH.match(term)
                v = s.operand(fr, m.group(1)); conds, tgts, seen = [], [], []
                isb = z3.is_bool(v)
                if z3.is_expr(v) and (z3.is_int_value(v) or z3.is_true(v) or z3.is_false(v)):
                    # concrete discriminant (the usual case when the evaluator follows a concrete parse tree): no query, no fork
                    pv = (1 if z3.is_true(v) else 0) if isb else v.as_long()
                    arms = _SWITCH_ARMS.get(term)
                    if arms is None:
                        arms = []
                        for arm in split_top(m.group(2)):
                            k, t = arm.split(':'); arms.append((None if k.strip() == 'otherwise' else int(k), int(t.strip()[2:])))
                        _SWITCH_ARMS[term] = arms
                    tgt = None; other = None
                    for k, t in arms:
                        if k is None: other = t
                        elif k == pv or (k == 255 and pv == -1 and not isb): tgt = t
                    if tgt is None and other is None: raise Missing('switchInt without a matching arm: ' + term[:80])
                    bb = tgt if tgt is not None else other; continue
                for arm in split_top(m.group(2)):
                    k, t = arm.split(':'); t = int(t.strip()[2:])
                    if k.strip() == 'otherwise':
                        if isb: conds.append(z3.And(*[v != z3.BoolVal(bool(x)) for x in seen]) if seen else z3.BoolVal(True))
                        else: conds.append(z3.And(*([v != x for x in seen] + ([v != -1] if 255 in seen else []))) if seen else z3.BoolVal(True))
                    else:
                        kv = int(k); seen.append(kv)
                        if kv == 255 and not isb: conds.append(z3.Or(v == 255, v == -1))      # i8 discriminant -1 (Ordering::Less) prints as 255
                        else: conds.append((v == z3.BoolVal(bool(kv))) if isb else (v == kv))
                    tgts.append(t)
                bb = tgts[s.choose(conds)]; continue
            if term.startswith('assert('):
                m = RE_ASSERT.match(term)
                if not m: raise Missing('assert ' + term)
                c = s.operand(fr, m.group(2))
                if m.group(1): c = z3.Not(c)
                k = s.choose([c, z3.Not(c)])
                if k == 1: raise Abort('assert failed: ' + m.group(3) + ' @ ' + f.name)
                bb = int(m.group(4)); continue
            if term.startswith('drop('):
                m = RE_DROP.match(term)
                c, p = s.place(fr, m.group(1)); s.drop_value(s.read(c, p)); bb = int(m.group(2)); continue
            if term.startswith('resume') or term.startswith('abort'): raise Abort('unwind ' + term)
            m = RE_CALL.match(term)
            if m and m.group(2).endswith(')'):
                dst, callstr, nxt = m.group(1), m.group(2), m.group(3)
                d = 0
                for k in range(len(callstr)-1, -1, -1):
                    if callstr[k] == ')': d += 1
                    elif callstr[k] == '(':
                        d -= 1
                        if d == 0: break
                callee, argstr = callstr[:k], callstr[k+1:-1]
                argts = split_top(argstr); args2 = [s.operand(fr, x) for x in argts]; argtys = []
                for x in argts:
                    mm = RE_ARGLOCAL.match(x.strip())
                    argtys.append(f.locals[int(mm.group(1))] if mm else None)
                if nxt is None:
                    # diverging callee: panics (panic_fmt, unwrap_failed, todo!, unreachable!, explicit panic)
                    try: s.call(fr, f, callee, args2, argtys)
                    except Missing: pass
                    raise Abort(f'diverging call {strip_generics(callee)} @ {f.name}')
                if callee.startswith(('move _', 'copy _')):   # call through a fn pointer / closure local
                    fv = s.operand(fr, callee); rv = s.call_closure(fv, args2)
                else: rv = s.call(fr, f, callee, args2, argtys)
                c, p = s.place(fr, dst); s.write(c, p, rv); bb = int(nxt); continue
            raise Missing('terminator ' + term)

    def statement(s, fr, f, st):
        c0 = st[0]
        if c0 in 'SnFPRCD' and st.startswith(('StorageLive', 'StorageDead', 'nop', 'FakeRead', 'PlaceMention', 'Retag', 'Coverage', 'ConstEvalCounter', 'Deinit', 'AscribeUserType')): return
        if st.startswith('assume('): return
        if st.startswith('discriminant('):
            m = re.match(r'^discriminant\((.*)\) = (\d+)$', st)
            c, p = s.place(fr, m.group(1)); v = s.read(c, p)
            s.write(c, p, Adt(v.ty, s.enums[v.ty][int(m.group(2))], [])); return
        i = st.find(' = ')
        dst, rv = st[:i], st[i+3:]
        c, p = s.place(fr, dst)
        dst_ty = f.locals.get(_parse_place(dst)[0]) if not p else None
        s.write(c, p, s.rvalue(fr, f, rv, dst_ty))
