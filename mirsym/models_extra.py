"""Further std models (kept in a separate file; registered into the same table as mirsym.models)."""
import re
import z3
from .core import *
from .models import exact, pattern, _seq, _iter_of, _next, _collect, in_i64, I64

# ------------------------------------------------------------------ ranges as values
@pattern(r'(?:std::ops::)?RangeInclusive::new|(?:std::ops::)?RangeInclusive::<.*>::new')
def _(E, m, a, c0): return Adt('RangeInclusive', None, [a[0], a[1]])
@pattern(r'(?:std::ops::)?(RangeInclusive|Range|RangeFrom|RangeTo)::contains')
def _(E, m, a, c0):
    r = E.deref(a[0]); x = E.deref(a[1]); kind = m.group(1)
    def le(p, q): return E.fcmp('Le', p, q) if isinstance(p, F64) else p <= q
    def lt(p, q): return E.fcmp('Lt', p, q) if isinstance(p, F64) else p < q
    if kind == 'RangeInclusive': return z3.And(le(r.fields[0], x), le(x, r.fields[1]))
    if kind == 'Range': return z3.And(le(r.fields[0], x), lt(x, r.fields[1]))
    if kind == 'RangeFrom': return le(r.fields[0], x)
    return lt(x, r.fields[0])
