"""Further std models (kept in a separate file; registered into the same table as mirsym.models)."""
import re
import z3
from .core import *
from .models import exact, pattern, _seq, _iter_of, _next, _collect, in_i64, I64

# ------------------------------------------------------------------ ranges as values
@pattern(r'(?:std::ops::)?RangeInclusive::new|(?:std::ops::)?RangeInclusive::<.*>::new')
def _(E, m, a, c0): return Adt('RangeInclusive', None, [a[0], a[1]])
@pattern(r'(?:std::ops::)?(RangeInclusive|Range|RangeFrom|RangeTo)::contains')
def _(E, m, a, c0):
    r = E.deref(a[0]); x = E.deref(a[1]); kind = m.group(1)
    def le(p, q): return E.fcmp('Le', p, q) if isinstance(p, F64) else p <= q
    def lt(p, q): return E.fcmp('Lt', p, q) if isinstance(p, F64) else p < q
    if kind == 'RangeInclusive': return z3.And(le(r.fields[0], x), le(x, r.fields[1]))
    if kind == 'Range': return z3.And(le(r.fields[0], x), lt(x, r.fields[1]))
    if kind == 'RangeFrom': return le(r.fields[0], x)
    return lt(x, r.fields[0])

# ------------------------------------------------------------------ provided methods of PartialOrd / Ord on crate types: via the type's own partial_cmp / cmp
@pattern(r'<(&?[A-Z][\w:]*(?:<.*>)?) as PartialOrd(?:<.*>)?>::(lt|le|gt|ge)')
def _(E, m, a, c0):
    ty, op = m.groups()
    r = E.call(None, None, f'<{ty} as PartialOrd>::partial_cmp', [a[0], a[1]], [f'&{ty}', f'&{ty}'])
    if r.variant == 'None': return z3.BoolVal(False)
    v = r.fields[0].variant
    return z3.BoolVal({'lt': v == 'Less', 'le': v != 'Greater', 'gt': v == 'Greater', 'ge': v != 'Less'}[op])
@pattern(r'<([A-Z][\w:]*(?:<.*>)?) as Ord>::(max|min|clamp)')
def _(E, m, a, c0):
    ty, op = m.groups()
    if op == 'clamp': raise Missing('Ord::clamp')
    r = E.call(None, None, f'<{ty} as Ord>::cmp', [Ref(Cell(a[0])), Ref(Cell(a[1]))], [f'&{ty}', f'&{ty}'])
    v = r.variant
    if op == 'max': return a[0] if v == 'Greater' else a[1]          # std: max returns the second argument when equal
    return a[1] if v == 'Greater' else a[0]
@pattern(r'core::slice::<impl \[.*\]>::swap')
def _(E, m, a, c0):
    v = E.deref(a[0]); n = len(v.fields)
    if n == 0: raise Abort('swap out of bounds')
    i = E.concretize(a[1], 0, n - 1); j = E.concretize(a[2], 0, n - 1)
    f = list(v.fields); f[i], f[j] = f[j], f[i]; E.wr(a[0], Seq(f)); return UNIT
@pattern(r'core::slice::<impl \[.*\]>::reverse')
def _(E, m, a, c0):
    v = E.deref(a[0]); E.wr(a[0], Seq(v.fields[::-1])); return UNIT
@pattern(r'Vec::swap_remove')
def _(E, m, a, c0):
    v = E.deref(a[0]); n = len(v.fields)
    if n == 0: raise Abort('swap_remove on empty Vec')
    i = E.concretize(a[1], 0, n - 1)
    f = list(v.fields); x = f[i]; f[i] = f[-1]; f.pop(); E.wr(a[0], Seq(f)); return x
@pattern(r'<(?:std::rc::)?Rc<dyn .*> as From<Box<dyn .*>>>::from|<(?:std::rc::)?Rc<.*> as From<Box<.*>>>::from')
def _(E, m, a, c0): return RcV(RcObj(a[0].cell.v))

@pattern(r"<impl [^>]* as Clone>::clone")
def _(E, m, a, c0): return E.clone_value(E.deref(a[0]))        # `impl Trait + Clone` parameter: structural clone of whatever was passed

# ------------------------------------------------------------------ operator traits on primitive integers (`Rem::rem` passed as a function value etc.): panic like the dev profile
@pattern(r'<&?(i8|i16|i32|i64|isize|u8|u16|u32|u64|usize) as (Add|Sub|Mul|Div|Rem)(?:<&?(?:i8|i16|i32|i64|isize|u8|u16|u32|u64|usize)>)?>::\w+')
def _(E, m, a, c0):
    ty, op = m.groups(); lo, hi = int_bounds(ty); x, y = E.deref(a[0]), E.deref(a[1])
    if op in ('Div', 'Rem'):
        if E.branch(y == 0): raise Abort(f'attempt to {"divide" if op == "Div" else "calculate the remainder"} by zero')
        if lo < 0 and E.branch(z3.And(x == lo, y == -1)): raise Abort(f'attempt to {"divide" if op == "Div" else "calculate the remainder"} with overflow')
        return tdiv(x, y) if op == 'Div' else trem(x, y)
    r = {'Add': x + y, 'Sub': x - y, 'Mul': x * y}[op]
    if E.branch(z3.Or(r < lo, r > hi)): raise Abort(f'attempt to {op.lower()} with overflow')
    return r

# num-integer on machine words: floor division / modulus built from `/` and `%`, so they panic like them (zero divisor, MIN / -1)
@pattern(r'<(i8|i16|i32|i64|isize|u8|u16|u32|u64|usize) as Integer>::(div_floor|mod_floor|div_mod_floor)')
def _(E, m, a, c0):
    ty, op = m.groups(); lo, hi = int_bounds(ty); x, y = E.deref(a[0]), E.deref(a[1])
    if E.branch(y == 0): raise Abort('attempt to divide by zero')
    if lo < 0 and E.branch(z3.And(x == lo, y == -1)): raise Abort('attempt to divide with overflow')
    q, r = fdiv(x, y), fmod(x, y)
    return q if op == 'div_floor' else r if op == 'mod_floor' else Tup([q, r])

# ------------------------------------------------------------------ BigInt (op) primitive integer, either order
_PRIM = r'(?:u8|u16|u32|u64|usize|i8|i16|i32|i64|isize|u128|i128)'
@pattern(r'<&?(?:BigInt|' + _PRIM + r') as (Add|Sub|Mul|Div|Rem)<&?(?:BigInt|' + _PRIM + r')>>::\w+')
def _(E, m, a, c0):
    if 'BigInt' not in c0: return NotImplemented
    x, y = E.deref(a[0]), E.deref(a[1]); op = m.group(1)
    if op in ('Div', 'Rem'):
        if E.branch(y == 0): raise Abort('BigInt division by zero')
        return tdiv(x, y) if op == 'Div' else trem(x, y)
    return {'Add': x + y, 'Sub': x - y, 'Mul': x * y}[op]
@pattern(r'<BigInt as (AddAssign|SubAssign|MulAssign|DivAssign|RemAssign)<&?(?:BigInt|' + _PRIM + r')>>::\w+')
def _(E, m, a, c0):
    x, y = E.deref(a[0]), E.deref(a[1]); op = m.group(1)[:3]
    if op in ('Div', 'Rem'):
        if E.branch(y == 0): raise Abort('BigInt division by zero')
        r = tdiv(x, y) if op == 'Div' else trem(x, y)
    else: r = {'Add': x + y, 'Sub': x - y, 'Mul': x * y}[op]
    E.wr(a[0], r); return UNIT

# ------------------------------------------------------------------ String as a byte sequence (concrete ASCII only: anything else is not encodable)
def _ascii(E, v):
    out = []
    for b in v.fields:
        bs = z3.simplify(b)
        if not z3.is_int_value(bs): raise Missing('string model: symbolic byte')
        out.append(bs.as_long())
    return out
@pattern(r'(?:std::string::)?String::(as_bytes|as_str|as_mut_str|into_bytes|into_boxed_str)|core::str::<impl str>::as_bytes|<(?:std::string::)?String as Deref(Mut)?>::deref(_mut)?|<(?:std::string::)?String as AsRef<.*>>::as_ref|<(?:std::string::)?String as Borrow<str>>::borrow')
def _(E, m, a, c0): return a[0]
@pattern(r'(?:std::string::)?String::from_utf8')
def _(E, m, a, c0):
    v = a[0]; bs = _ascii(E, v)
    try: bytes(bs).decode('utf-8'); return ok(v)          # concrete bytes: real UTF-8 validation
    except (UnicodeDecodeError, ValueError): return err(Adt('FromUtf8Error', None, [v]))
@pattern(r'(?:std::string::)?FromUtf8Error::(into_bytes|as_bytes)')
def _(E, m, a, c0):
    e = E.deref(a[0]); return e.fields[0] if m.group(1) == 'into_bytes' else Ref(Cell(e.fields[0]))
@pattern(r'(?:std::string::)?String::from_utf8_lossy')
def _(E, m, a, c0):
    v = E.deref(a[0]); bs = _ascii(E, v)
    return Adt('Cow', 'Owned', [Seq([z3.IntVal(b if b < 128 else 0xFFFD) for b in bs])])
@pattern(r'core::slice::<impl \[.*\]>::copy_from_slice|core::slice::<impl \[.*\]>::clone_from_slice')
def _(E, m, a, c0):
    dst = E.deref(a[0]); src = E.deref(a[1])
    if len(dst.fields) != len(src.fields): raise Abort('copy_from_slice: length mismatch')
    E.wr(a[0], Seq(list(src.fields))); return UNIT
@pattern(r'<(?:std::string::)?String as Default>::default|(?:std::string::)?String::new')
def _(E, m, a, c0): return Seq([])
@pattern(r'<(?:std::string::)?String as PartialEq(<.*>)?>::(eq|ne)|<str as PartialEq>::(eq|ne)|<&str as PartialEq(<.*>)?>::(eq|ne)')
def _(E, m, a, c0):
    x, y = E.deref(a[0]), E.deref(a[1])
    def chars(v):
        if isinstance(v, Ref): v = E.deref(v)
        if isinstance(v, Opaque):
            if not v.tag.startswith('str:"'): raise Missing('string comparison with an opaque (formatted) string')
            body = v.tag[5:-1]; body = body.encode().decode('unicode_escape') if '\\' in body else body
            return [z3.IntVal(b) for b in body.encode('utf-8')]
        if isinstance(v, Seq): return list(v.fields)
        raise Missing(f'string comparison on {v!r}'[:120])
    if isinstance(x, Opaque) and isinstance(y, Opaque): r = z3.BoolVal(x.tag == y.tag)
    else:
        cx, cy = chars(x), chars(y)
        r = z3.BoolVal(False) if len(cx) != len(cy) else z3.simplify(z3.And(*[p == q for p, q in zip(cx, cy)])) if cx else z3.BoolVal(True)
    ne = any(g == 'ne' for g in m.groups() if g)
    return z3.Not(r) if ne else r
