"""Further std models (kept in a separate file; registered into the same table as mirsym.models)."""
import re
import z3
from .core import *
from .models import exact, pattern, _seq, _iter_of, _next, _collect, in_i64, I64

# ------------------------------------------------------------------ ranges as values
@pattern(r'(?:std::ops::)?RangeInclusive::new|(?:std::ops::)?RangeInclusive::<.*>::new')
def _(E, m, a, c0): return Adt('RangeInclusive', None, [a[0], a[1]])
@pattern(r'(?:std::ops::)?(RangeInclusive|Range|RangeFrom|RangeTo)::contains')
def _(E, m, a, c0):
    r = E.deref(a[0]); x = E.deref(a[1]); kind = m.group(1)
    def le(p, q): return E.fcmp('Le', p, q) if isinstance(p, F64) else p <= q
    def lt(p, q): return E.fcmp('Lt', p, q) if isinstance(p, F64) else p < q
    if kind == 'RangeInclusive': return z3.And(le(r.fields[0], x), le(x, r.fields[1]))
    if kind == 'Range': return z3.And(le(r.fields[0], x), lt(x, r.fields[1]))
    if kind == 'RangeFrom': return le(r.fields[0], x)
    return lt(x, r.fields[0])

# ------------------------------------------------------------------ String as a byte sequence (concrete ASCII only: anything else is not encodable)
def _ascii(E, v):
    out = []
    for b in v.fields:
        bs = z3.simplify(b)
        if not z3.is_int_value(bs): raise Missing('string model: symbolic byte')
        out.append(bs.as_long())
    return out
@pattern(r'(?:std::string::)?String::(as_bytes|as_str|as_mut_str|into_bytes|into_boxed_str)|core::str::<impl str>::as_bytes|<(?:std::string::)?String as Deref(Mut)?>::deref(_mut)?|<(?:std::string::)?String as AsRef<.*>>::as_ref|<(?:std::string::)?String as Borrow<str>>::borrow')
def _(E, m, a, c0): return a[0]
@pattern(r'(?:std::string::)?String::from_utf8')
def _(E, m, a, c0):
    v = a[0]; bs = _ascii(E, v)
    if all(b < 128 for b in bs): return ok(v)
    return err(Adt('FromUtf8Error', None, [v]))
@pattern(r'(?:std::string::)?FromUtf8Error::(into_bytes|as_bytes)')
def _(E, m, a, c0):
    e = E.deref(a[0]); return e.fields[0] if m.group(1) == 'into_bytes' else Ref(Cell(e.fields[0]))
@pattern(r'(?:std::string::)?String::from_utf8_lossy')
def _(E, m, a, c0):
    v = E.deref(a[0]); bs = _ascii(E, v)
    return Adt('Cow', 'Owned', [Seq([z3.IntVal(b if b < 128 else 0xFFFD) for b in bs])])
@pattern(r'core::slice::<impl \[.*\]>::copy_from_slice|core::slice::<impl \[.*\]>::clone_from_slice')
def _(E, m, a, c0):
    dst = E.deref(a[0]); src = E.deref(a[1])
    if len(dst.fields) != len(src.fields): raise Abort('copy_from_slice: length mismatch')
    E.wr(a[0], Seq(list(src.fields))); return UNIT
@pattern(r'<(?:std::string::)?String as Default>::default|(?:std::string::)?String::new')
def _(E, m, a, c0): return Seq([])
@pattern(r'<(?:std::string::)?String as PartialEq(<.*>)?>::(eq|ne)|<str as PartialEq>::(eq|ne)|<&str as PartialEq(<.*>)?>::(eq|ne)')
def _(E, m, a, c0):
    x, y = E.deref(a[0]), E.deref(a[1])
    if isinstance(x, Opaque) or isinstance(y, Opaque):
        if isinstance(x, Opaque) and isinstance(y, Opaque): r = z3.BoolVal(x.tag == y.tag)
        else: raise Missing('string comparison with an opaque literal')
    else: r = z3.BoolVal(_ascii(E, x) == _ascii(E, y))
    ne = any(g == 'ne' for g in m.groups() if g)
    return z3.Not(r) if ne else r
