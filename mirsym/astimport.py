"""Import of a real parse tree: the `{:?}` rendering of what noulith's own parser returns (nlrun `@ast <program>`) is turned
into mirsym values (Adt / Seq / Tup / BoxV / RcV ...).  Debug output is untyped (Box / Rc are transparent in it), so the
conversion is directed by the type definitions read from /repo/src/*.rs: every field's declared type says where a Box, an
Rc, a Vec, an Option or a String sits."""
import re
from fractions import Fraction
import z3
from .core import *

# ------------------------------------------------------------------------------------------------ type definitions from source
def _split_top(s, sep=','):
    out, d, cur = [], 0, []
    i = 0
    while i < len(s):
        c = s[i]
        if c in '([{<': d += 1
        elif c in ')]}': d -= 1
        elif c == '>' and s[i-1] != '-': d -= 1
        if c == sep and d == 0: out.append(''.join(cur).strip()); cur = []
        else: cur.append(c)
        i += 1
    t = ''.join(cur).strip()
    if t: out.append(t)
    return out

def _body(txt, i):
    """text between the brace/paren opened at txt[i] and its match; returns (body, index after)"""
    op = txt[i]; cl = {'{': '}', '(': ')'}[op]; d = 1; j = i + 1
    while d:
        if txt[j] == op: d += 1
        elif txt[j] == cl: d -= 1
        j += 1
    return txt[i+1:j-1], j

def parse_types(src_texts):
    """name -> ('enum', [(variant, kind, payload)]) | ('struct', [(field, type)]) | ('tuple', [types]);
    payload: list of types (tuple variant), list of (field, type) (struct variant) or None (unit)"""
    types = {}
    for txt in src_texts:
        txt = re.sub(r'/\*.*?\*/', '', re.sub(r'//[^\n]*', '', txt), flags=re.S)
        for m in re.finditer(r'\benum (\w+)(?:<[^>{]*>)?\s*\{', txt):
            body, _ = _body(txt, m.end() - 1); vs = []
            for part in _split_top(body):
                part = re.sub(r'#\[[^\]]*\]', '', part).strip()
                mm = re.match(r'(\w+)\s*(.*)$', part, re.S)
                if not mm: continue
                name, rest = mm.group(1), mm.group(2).strip()
                if rest.startswith('('): vs.append((name, 'tuple', [re.sub(r'\s+', ' ', t) for t in _split_top(rest[1:rest.rindex(')')])]))
                elif rest.startswith('{'):
                    fs = []
                    for f in _split_top(rest[1:rest.rindex('}')]):
                        fm = re.match(r'(?:pub(?:\([^)]*\))? )?(\w+)\s*:\s*(.*)$', f.strip(), re.S)
                        if fm: fs.append((fm.group(1), re.sub(r'\s+', ' ', fm.group(2))))
                    vs.append((name, 'struct', fs))
                else: vs.append((name, 'unit', None))
            if m.group(1) not in types or len(types[m.group(1)][1]) < len(vs): types[m.group(1)] = ('enum', vs)
        for m in re.finditer(r'\bstruct (\w+)(?:<[^>{(]*>)?\s*([({])', txt):
            if m.group(1) in types and types[m.group(1)][0] == 'enum': continue
            body, _ = _body(txt, m.end() - 1)
            if m.group(2) == '(':
                types[m.group(1)] = ('tuple', [re.sub(r'^pub(\([^)]*\))? ', '', re.sub(r'\s+', ' ', t)) for t in _split_top(body)])
            else:
                fs = []
                for f in _split_top(body):
                    f = re.sub(r'#\[[^\]]*\]', '', f).strip()
                    fm = re.match(r'(?:pub(?:\([^)]*\))? )?(\w+)\s*:\s*(.*)$', f, re.S)
                    if fm: fs.append((fm.group(1), re.sub(r'\s+', ' ', fm.group(2))))
                types[m.group(1)] = ('struct', fs)
    return types

# ------------------------------------------------------------------------------------------------ untyped Debug tree
class _P:
    def __init__(s, t): s.t, s.i = t, 0
    def ws(s):
        while s.i < len(s.t) and s.t[s.i] in ' \n\t': s.i += 1
    def peek(s): s.ws(); return s.t[s.i] if s.i < len(s.t) else ''
    def eat(s, c):
        s.ws()
        if not s.t.startswith(c, s.i): raise Missing(f'Debug text: expected {c!r} at {s.i}: {s.t[s.i:s.i+40]!r}')
        s.i += len(c)
    def items(s, close):
        out = []
        while s.peek() != close:
            out.append(s.value())
            if s.peek() == ',': s.eat(',')
        s.eat(close); return out
    def value(s):
        c = s.peek()
        if c == '[': s.eat('['); return ('list', s.items(']'))
        if c == '(': s.eat('('); return ('tuple', s.items(')'))
        if c == '"':
            j = s.i + 1; buf = []
            while s.t[j] != '"':
                if s.t[j] == '\\':
                    e = s.t[j+1]
                    if e == 'u':
                        k = s.t.index('}', j); buf.append(chr(int(s.t[j+3:k], 16))); j = k + 1; continue
                    buf.append({'n': '\n', 't': '\t', 'r': '\r', '0': '\0', '\\': '\\', '"': '"', "'": "'"}.get(e, e)); j += 2; continue
                buf.append(s.t[j]); j += 1
            s.i = j + 1; return ('str', ''.join(buf))
        if c == "'":
            if s.t[s.i+1] == '\\':
                e = s.t[s.i+2]; ch = {'n': '\n', 't': '\t', 'r': '\r', '0': '\0', '\\': '\\', "'": "'", '"': '"'}.get(e, e); s.i += 4
            else: ch = s.t[s.i+1]; s.i += 3
            return ('char', ch)
        m = re.compile(r'-?\d+(\.\d+)?(e-?\d+)?').match(s.t, s.i)
        if m: s.i = m.end(); return ('num', m.group(0))
        m = re.compile(r'[A-Za-z_][\w]*').match(s.t, s.i)
        if not m: raise Missing(f'Debug text: unexpected {s.t[s.i:s.i+30]!r}')
        name = m.group(0); s.i = m.end()
        c = s.peek()
        if c == '(': s.eat('('); return ('call', name, s.items(')'))
        if c == '{':
            s.eat('{'); fs = []
            while s.peek() != '}':
                fm = re.compile(r'\s*(\w+)\s*:').match(s.t, s.i); s.i = fm.end()
                fs.append((fm.group(1), s.value()))
                if s.peek() == ',': s.eat(',')
            s.eat('}'); return ('struct', name, fs)
        return ('name', name)

# ------------------------------------------------------------------------------------------------ typed conversion
_INTS = ('usize', 'isize', 'u8', 'u16', 'u32', 'u64', 'i8', 'i16', 'i32', 'i64', 'u128', 'i128', 'BigInt')
def _generic(ty):
    m = re.match(r'^([\w:]+)<(.*)>$', ty)
    return (m.group(1).split('::')[-1], _split_top(m.group(2))) if m else (None, None)

def conv(tree, ty, types):
    ty = ty.strip()
    head, args = _generic(ty)
    if head == 'Box': return BoxV(conv(tree, args[0], types))
    if head == 'Rc': return RcV(RcObj(conv(tree, args[0], types)))
    if head == 'Vec':
        if tree[0] != 'list': raise Missing(f'Debug import: expected a list for {ty}')
        return Seq([conv(x, args[0], types) for x in tree[1]])
    if head == 'Option':
        if tree == ('name', 'None'): return opt()
        if tree[0] == 'call' and tree[1] == 'Some': return opt(conv(tree[2][0], args[0], types))
        raise Missing(f'Debug import: {tree!r} as {ty}'[:160])
    if head == 'Result':
        if tree[0] == 'call' and tree[1] == 'Ok': return ok(conv(tree[2][0], args[0], types))
        if tree[0] == 'call' and tree[1] == 'Err': return err(conv(tree[2][0], args[1], types))
        raise Missing(f'Debug import: {tree!r} as {ty}'[:160])
    if ty.startswith('('):
        parts = _split_top(ty[1:-1])
        if tree[0] != 'tuple' or len(tree[1]) != len(parts): raise Missing(f'Debug import: tuple {ty}')
        return Tup([conv(x, t, types) for x, t in zip(tree[1], parts)])
    if ty in ('String', 'str', '&str'):
        if tree[0] != 'str': raise Missing(f'Debug import: string expected, got {tree!r}'[:120])
        return Seq([z3.IntVal(b) for b in tree[1].encode('utf-8')])
    if ty in _INTS:
        if tree[0] != 'num': raise Missing(f'Debug import: integer expected, got {tree!r}'[:120])
        return z3.IntVal(int(tree[1]))
    if ty == 'bool': return z3.BoolVal(tree == ('name', 'true'))
    if ty == 'char': return z3.IntVal(ord(tree[1]))
    if ty == 'f64':
        if tree[0] == 'name': return F64({'NaN': 0, 'inf': 1}[tree[1]], 0)
        q = Fraction(float(tree[1])); return F64(3, z3.RealVal(f'{q.numerator}/{q.denominator}'), z3.BoolVal(tree[1].startswith('-') and q == 0))
    name = ty.split('::')[-1]
    if name not in types: raise Missing(f'Debug import: no definition for type {ty}')
    kind, spec = types[name]
    if kind == 'enum':
        vname = tree[1] if tree[0] in ('call', 'struct', 'name') else None
        for v, vk, payload in spec:
            if v != vname: continue
            if vk == 'unit': return Adt(name, v, [])
            if vk == 'tuple':
                if tree[0] != 'call' or len(tree[2]) != len(payload): raise Missing(f'Debug import: {name}::{v} arity')
                return Adt(name, v, [conv(x, t, types) for x, t in zip(tree[2], payload)])
            d = dict(tree[2]); return Adt(name, v, [conv(d[f], t, types) for f, t in payload])
        raise Missing(f'Debug import: {tree[:2]!r} is not a variant of {name}')
    if kind == 'struct':
        if tree[0] != 'struct': raise Missing(f'Debug import: struct {name} expected, got {tree[:2]!r}')
        d = dict(tree[2]); return Adt(name, None, [conv(d[f], t, types) for f, t in spec])
    if tree[0] != 'call': raise Missing(f'Debug import: tuple struct {name} expected')
    return Adt(name, None, [conv(x, t, types) for x, t in zip(tree[2], spec)])

def import_debug(text, ty, types):
    p = _P(text); tree = p.value()
    return conv(tree, ty, types)
