"""HashMap / HashSet model: an association list in insertion order.

Lookup matches an entry iff the *interpreted real* Eq of the key type says equal AND the *interpreted real* Hash of the two
keys writes identical traces (SipHash and the table probing are trusted: equal traces = same bucket; different traces are
treated as a miss, so an Eq/Hash disagreement shows up as a lost entry exactly as it does natively).
Keys whose type has no crate-level Eq/Hash (String names) are compared structurally."""
import re
import z3
from .core import *
from .models import exact, pattern

def hm(entries=()): return Adt('HashMap', None, [Seq(list(entries))])
def entries_of(m): return m.fields[0].fields
def _mapref(E, r):
    """Ref to the HashMap Adt (through &, &mut, Rc)"""
    v = E.deref(r)
    if isinstance(v, RcV): return Ref(v.obj.cell, [])
    if isinstance(v, Adt) and v.ty == 'HashMap':
        if isinstance(r, Ref):
            c, p = E.canon(r.cell, list(r.path)); return Ref(c, p)
        return Ref(Cell(v))
    raise Missing(f'HashMap operation on {v!r}')

def _plain(k):
    """structural identity for keys without a crate Eq (names, concrete strings)"""
    if isinstance(k, Opaque): return ('opaque', k.tag)
    if isinstance(k, str): return ('str', k)
    if isinstance(k, Seq):
        vals = [x if z3.is_int_value(x) else z3.simplify(x) for x in k.fields]
        if all(z3.is_int_value(v) for v in vals): return ('seq', tuple(v.as_long() for v in vals))
    if z3.is_expr(k): return None
    return None

def hash_trace(E, k):
    n0 = len(E.log)
    E.call(None, None, '<ObjKey as Hash>::hash', [Ref(Cell(k)), Ref(Cell(Adt('Hasher', None, [])))], ['&ObjKey', '&mut H'])
    tr = [l[1:3] for l in E.log[n0:] if l[0] == 'h' and (len(l) < 4 or l[3] is None)]
    del E.log[n0:]
    return tr

def key_match(E, k1, k2):
    """python bool: do k1 and k2 address the same entry (forks on symbolic keys)"""
    k1 = E.deref(k1) if isinstance(k1, Ref) else k1; k2 = E.deref(k2) if isinstance(k2, Ref) else k2
    p1, p2 = _plain(k1), _plain(k2)
    if p1 is not None and p2 is not None: return p1 == p2
    if z3.is_expr(k1) and z3.is_expr(k2): return E.branch(k1 == k2)
    if isinstance(k1, Adt) and k1.ty == 'ObjKey':
        eq = E.call(None, None, '<ObjKey as PartialEq>::eq', [Ref(Cell(k1)), Ref(Cell(k2))], ['&ObjKey', '&ObjKey'])
        if not E.branch(eq): return False
        h1, h2 = hash_trace(E, k1), hash_trace(E, k2)
        if len(h1) != len(h2) or any(a[0] != b[0] for a, b in zip(h1, h2)):
            E.log.append(('hash_mismatch', 'shape')); return False
        same = z3.And(*[a[1] == b[1] for a, b in zip(h1, h2)]) if h1 else z3.BoolVal(True)
        if E.branch(same): return True
        E.log.append(('hash_mismatch', 'value')); return False
    raise Missing(f'HashMap key comparison on {k1!r} / {k2!r}')

def find(E, mref, key):
    m = E.deref(mref)
    for i, e in enumerate(entries_of(m)):
        if key_match(E, e.fields[0], key): return i
    return None

def slot(E, mref, i, field):
    c, p = E.canon(mref.cell, list(mref.path) + [0, i, field]); return Ref(c, p)

HM = r'(?:std::collections::)?(?:hash_map::)?HashMap'
@pattern(HM + r'::new|' + HM + r'::with_capacity|<' + HM + r'<.*> as Default>::default')
def _(E, m, a, c0): return hm()
@pattern(HM + r'::(len|is_empty)')
def _(E, m, a, c0):
    n = len(entries_of(E.deref(_mapref(E, a[0])))); return z3.IntVal(n) if m.group(1) == 'len' else z3.BoolVal(n == 0)
@pattern(HM + r'::(get|get_mut|contains_key)')
def _(E, m, a, c0):
    mr = _mapref(E, a[0]); i = find(E, mr, a[1]); op = m.group(1)
    if op == 'contains_key': return z3.BoolVal(i is not None)
    return opt(slot(E, mr, i, 1)) if i is not None else opt()
@pattern(HM + r'::insert')
def _(E, m, a, c0):
    mr = _mapref(E, a[0]); i = find(E, mr, a[1]); mp = E.deref(mr)
    if i is not None:
        old = entries_of(mp)[i].fields[1]
        E.wr(slot(E, mr, i, 1), a[2]); return opt(old)
    E.wr(mr, hm(entries_of(mp) + [Tup([a[1], a[2]])])); return opt()
@pattern(HM + r'::remove')
def _(E, m, a, c0):
    mr = _mapref(E, a[0]); i = find(E, mr, a[1]); mp = E.deref(mr)
    if i is None: return opt()
    es = entries_of(mp); old = es[i].fields[1]
    E.wr(mr, hm(es[:i] + es[i+1:])); return opt(old)
@pattern(HM + r'::entry')
def _(E, m, a, c0):
    mr = _mapref(E, a[0]); i = find(E, mr, a[1])
    if i is not None: return Adt('Entry', 'Occupied', [Adt('OccupiedEntry', None, [mr, i])])
    return Adt('Entry', 'Vacant', [Adt('VacantEntry', None, [mr, a[1]])])
@pattern(r'(?:std::collections::hash_map::)?OccupiedEntry::(get_mut|into_mut|get|insert|remove)')
def _(E, m, a, c0):
    e = E.deref(a[0]); mr, i = e.fields; op = m.group(1)
    if op in ('get_mut', 'into_mut', 'get'): return slot(E, mr, i, 1)
    mp = E.deref(mr); es = entries_of(mp); old = es[i].fields[1]
    if op == 'insert': E.wr(slot(E, mr, i, 1), a[1]); return old
    E.wr(mr, hm(es[:i] + es[i+1:])); return old
@pattern(r'(?:std::collections::hash_map::)?VacantEntry::insert')
def _(E, m, a, c0):
    e = a[0]; mr, k = e.fields; mp = E.deref(mr); es = entries_of(mp)
    E.wr(mr, hm(es + [Tup([k, a[1]])])); return slot(E, mr, len(es), 1)
@pattern(HM + r'::(iter|iter_mut|values|values_mut|keys|into_iter|drain)|<&(?:mut )?' + HM + r'<.*> as IntoIterator>::into_iter|<' + HM + r'<.*> as IntoIterator>::into_iter')
def _(E, m, a, c0):
    op = m.group(1) or 'iter'
    owned = not isinstance(a[0], Ref) or c0.startswith('<' + 'HashMap') or c0.startswith('<std::collections::HashMap')
    if owned and not isinstance(a[0], Ref):
        mp = a[0]; return Adt('Iter', None, [Seq([Tup([e.fields[0], e.fields[1]]) for e in entries_of(mp)]), 0, 'own'])
    mr = _mapref(E, a[0]); mp = E.deref(mr); n = len(entries_of(mp))
    if op in ('iter', 'iter_mut', 'into_iter'): items = [Tup([slot(E, mr, i, 0), slot(E, mr, i, 1)]) for i in range(n)]
    elif op in ('values', 'values_mut'): items = [slot(E, mr, i, 1) for i in range(n)]
    elif op == 'keys': items = [slot(E, mr, i, 0) for i in range(n)]
    else:
        items = [Tup([e.fields[0], e.fields[1]]) for e in entries_of(mp)]; E.wr(mr, hm())
    return Adt('Iter', None, [Seq(items), 0, 'ref'])
@pattern(r'<(?:std::collections::hash_map::)?(Iter|IterMut|Values|ValuesMut|Keys|IntoIter|Drain)<.*> as Iterator>::next')
def _(E, m, a, c0):
    it = E.deref(a[0]); items, pos = it.fields[0], it.fields[1]
    if pos >= len(items.fields): return opt()
    E.wr(a[0], Adt('Iter', None, [items, pos + 1, it.fields[2]])); return opt(items.fields[pos])
@pattern(r'<' + HM + r'<.*> as Clone>::clone')
def _(E, m, a, c0):
    E.log.append(('deep_clone', 'HashMap')); return E.clone_value(E.deref(a[0]))
@pattern(r'<' + HM + r'<.*> as PartialEq>::(eq|ne)')
def _(E, m, a, c0):
    x, y = E.deref(a[0]), E.deref(a[1]); ex, ey = entries_of(x), entries_of(y)
    if len(ex) != len(ey): r = False
    else:
        r = True; yr = Ref(Cell(y))
        for e in ex:
            j = find(E, yr, e.fields[0])
            if j is None: r = False; break
            eq = E.call(None, None, '<Obj as PartialEq>::eq', [Ref(Cell(e.fields[1])), Ref(Cell(ey[j].fields[1]))], ['&Obj', '&Obj'])
            if not E.branch(eq): r = False; break
    return z3.BoolVal(r if m.group(1) == 'eq' else not r)
