"""Model table: contracts of std / num callees that appear in the targeted noulith functions (the trusted base).
Each model implements the documented behaviour including its panics (a modelled panic = Abort = a C14 obligation)."""
import re
import z3
from .core import *

I64 = (-(1 << 63), (1 << 63) - 1)
def in_i64(x): return z3.And(x >= I64[0], x <= I64[1])

EXACT = {}
PATTERNS = []
_cache = {}

def exact(*names):
    def deco(f):
        for n in names: EXACT[n] = f
        return f
    return deco
def pattern(rx):
    def deco(f):
        PATTERNS.append((re.compile(rx), f)); return f
    return deco

_STDPATH = re.compile(r'\b(?:std|core|alloc)::(?:[a-z_0-9]+::)+(?=[A-Z])')
def std_models(E, callee, args, argtys, callee0):
    h = _cache.get(callee)
    if h is None:
        h = False
        # the same std item prints with or without its module path depending on what the calling module imports
        for name in (callee, _STDPATH.sub('', callee), callee.replace('std::slice::', 'core::slice::').replace('std::str::', 'core::str::').replace('std::char::', 'char::').replace('core::char::', 'char::')):
            if name in EXACT: h = (EXACT[name], None); break
            for rx, f in PATTERNS:
                m = rx.fullmatch(name)
                if m: h = (f, m); break
            if h: break
        _cache[callee] = h
    if h is False: return NotImplemented
    return h[0](E, h[1], args, callee0)

# ------------------------------------------------------------------ uninterpreted integer functions
ZI = z3.IntSort()
UF_AND = z3.Function('zand', ZI, ZI, ZI); UF_OR = z3.Function('zor', ZI, ZI, ZI); UF_XOR = z3.Function('zxor', ZI, ZI, ZI)
UF_SHL = z3.Function('zshl', ZI, ZI, ZI); UF_SHR = z3.Function('zshr', ZI, ZI, ZI)
UF_POW = z3.Function('zpow', ZI, ZI, ZI); UF_GCD = z3.Function('zgcd', ZI, ZI, ZI); UF_LCM = z3.Function('zlcm', ZI, ZI, ZI)
UF_SQRT = z3.Function('zsqrt', ZI, ZI)
UF_RPOW = z3.Function('rpow', z3.RealSort(), ZI, z3.RealSort())

def zbit(op, a, b):
    """two's-complement bit operation on Z: the bit-vector operation on the i64 range, uninterpreted beyond"""
    uf = {'BitAnd': UF_AND, 'BitOr': UF_OR, 'BitXor': UF_XOR}[op]
    a_, b_ = z3.simplify(a), z3.simplify(b)
    if z3.is_int_value(a_) and z3.is_int_value(b_):
        x, y = a_.as_long(), b_.as_long()
        return z3.IntVal({'BitAnd': x & y, 'BitOr': x | y, 'BitXor': x ^ y}[op])
    return z3.If(z3.And(in_i64(a), in_i64(b)), bitop(op, a, b, 'i64'), uf(a, b))

# ------------------------------------------------------------------ formatting: opaque / logged
@exact('std::fmt::format', 'format', 'alloc::fmt::format')
def _(E, m, a, c0): return Opaque('string')
@exact('must_use')
def _(E, m, a, c0): return a[0]
@pattern(r'(?:core::fmt::rt::|std::fmt::)?Arguments::.*|core::fmt::rt::Argument::.*|Argument::.*|std::fmt::Arguments::.*')
def _(E, m, a, c0): return Opaque('fmtargs')
@pattern(r'<(i64|BigInt|u64|usize|i32|u8|u32|isize) as (?:std::fmt::)?(Display|LowerHex|UpperHex|Binary|Octal|Debug)>::fmt')
def _(E, m, a, c0):
    E.log.append(('fmt', m.group(2), E.deref(a[0]), m.group(1))); return ok(UNIT)
@pattern(r'(?:std::fmt::)?Formatter::.*')
def _(E, m, a, c0): return ok(UNIT)
@pattern(r'<(str|String|&str) as ToString>::to_string|<String as Clone>::clone|<String as From<&str>>::from|<str as ToOwned>::to_owned|str::<impl str>::to_owned|<&str as Into<String>>::into|<String as From<&String>>::from')
def _(E, m, a, c0):
    v = E.deref(a[0]); return E.clone_value(v) if isinstance(v, Seq) else Opaque('string')
@pattern(r'<impl FnOnce\(\) -> String as FnOnce<\(\)>>::call_once')
def _(E, m, a, c0): return Opaque('string')

# ------------------------------------------------------------------ Option / Result plumbing
@pattern(r'<Result<.*> as Try>::branch')
def _(E, m, a, c0):
    r = a[0]
    return Adt('ControlFlow', 'Continue', [r.fields[0]]) if r.variant == 'Ok' else Adt('ControlFlow', 'Break', [err(r.fields[0])])
@pattern(r'<Option<.*> as Try>::branch')
def _(E, m, a, c0):
    r = a[0]
    return Adt('ControlFlow', 'Continue', [r.fields[0]]) if r.variant == 'Some' else Adt('ControlFlow', 'Break', [opt()])
@pattern(r'<Result<.*> as FromResidual<.*>>::from_residual')
def _(E, m, a, c0): return err(a[0].fields[0])
@pattern(r'<Option<.*> as FromResidual<.*>>::from_residual')
def _(E, m, a, c0): return opt()
@exact('Option::unwrap_or')
def _(E, m, a, c0): return a[0].fields[0] if a[0].variant == 'Some' else a[1]
@exact('Result::unwrap_or')
def _(E, m, a, c0): return a[0].fields[0] if a[0].variant == 'Ok' else a[1]
@exact('Option::unwrap_or_else')
def _(E, m, a, c0): return a[0].fields[0] if a[0].variant == 'Some' else E.call_closure(a[1], [])
@exact('Option::unwrap_or_default')
def _(E, m, a, c0):
    if a[0].variant == 'Some': return a[0].fields[0]
    raise Missing('unwrap_or_default of None')
@exact('Option::ok_or')
def _(E, m, a, c0): return ok(a[0].fields[0]) if a[0].variant == 'Some' else err(a[1])
@exact('Option::ok_or_else')
def _(E, m, a, c0): return ok(a[0].fields[0]) if a[0].variant == 'Some' else err(E.call_closure(a[1], []))
@exact('Result::ok')
def _(E, m, a, c0): return opt(a[0].fields[0]) if a[0].variant == 'Ok' else opt()
@exact('Option::expect', 'Option::unwrap')
def _(E, m, a, c0):
    if a[0].variant == 'None': raise Abort('Option::unwrap/expect on None')
    return a[0].fields[0]
@exact('Result::unwrap', 'Result::expect')
def _(E, m, a, c0):
    if a[0].variant == 'Err': raise Abort('Result::unwrap/expect on Err')
    return a[0].fields[0]
@exact('Option::is_some')
def _(E, m, a, c0): return z3.BoolVal(E.deref(a[0]).variant == 'Some')
@exact('Option::is_none')
def _(E, m, a, c0): return z3.BoolVal(E.deref(a[0]).variant == 'None')
@exact('Result::is_ok')
def _(E, m, a, c0): return z3.BoolVal(E.deref(a[0]).variant == 'Ok')
@exact('Result::is_err')
def _(E, m, a, c0): return z3.BoolVal(E.deref(a[0]).variant == 'Err')
@exact('Option::as_ref', 'Option::as_mut', 'Option::as_deref', 'Option::as_deref_mut')
def _(E, m, a, c0):
    o = E.deref(a[0])
    if o.variant != 'Some': return opt()
    c, p = E.canon(a[0].cell, list(a[0].path) + [0])
    r = Ref(c, p)
    if 'deref' in c0:
        inner = E.read(c, p)
        if isinstance(inner, BoxV): r = Ref(inner.cell, [])
    return opt(r)
@exact('Result::as_ref', 'Result::as_mut')
def _(E, m, a, c0):
    o = E.deref(a[0]); c, p = E.canon(a[0].cell, list(a[0].path) + [0])
    return Adt('Result', o.variant, [Ref(c, p)])
@exact('Option::map', 'Option::and_then', 'Option::map_or', 'Option::map_or_else', 'Option::filter')
def _(E, m, a, c0):
    o = a[0]
    if m is None: pass
    name = strip_generics(c0).split('::')[-1]
    if name == 'map_or':
        return a[1] if o.variant == 'None' else E.call_closure(a[2], [o.fields[0]])
    if name == 'map_or_else':
        return E.call_closure(a[1], []) if o.variant == 'None' else E.call_closure(a[2], [o.fields[0]])
    if o.variant == 'None': return o
    if name == 'filter':
        r = E.call_closure(a[1], [Ref(Cell(o.fields[0]))]); return o if E.branch(r) else opt()
    r = E.call_closure(a[1], [o.fields[0]])
    return opt(r) if name == 'map' else r
@exact('Result::map', 'Result::map_err', 'Result::and_then', 'Result::or_else')
def _(E, m, a, c0):
    o = a[0]; name = strip_generics(c0).split('::')[-1]
    if name in ('map', 'and_then'):
        if o.variant == 'Err': return o
        r = E.call_closure(a[1], [o.fields[0]]); return ok(r) if name == 'map' else r
    if o.variant == 'Ok': return o
    r = E.call_closure(a[1], [o.fields[0]]); return err(r) if name == 'map_err' else r
@exact('Option::take')
def _(E, m, a, c0):
    old = E.deref(a[0]); E.wr(a[0], opt()); return old
@exact('Option::cloned', 'Option::copied')
def _(E, m, a, c0):
    o = a[0]
    return opt(E.clone_value(E.deref(o.fields[0]))) if o.variant == 'Some' else o
@pattern(r'<Option<.*> as PartialEq>::(eq|ne)')
def _(E, m, a, c0):
    x, y = E.deref(a[0]), E.deref(a[1])
    if x.variant != y.variant: r = z3.BoolVal(False)
    elif x.variant == 'None': r = z3.BoolVal(True)
    else:
        p, q = E.deref(x.fields[0]), E.deref(y.fields[0])
        if isinstance(p, Rat) and isinstance(q, Rat): r = p.v == q.v
        elif isinstance(p, F64) and isinstance(q, F64): r = E.fcmp('Eq', p, q)
        elif z3.is_expr(p) and z3.is_expr(q): r = p == q
        else: raise Missing('Option eq on structured payload')
    return r if m.group(1) == 'eq' else z3.Not(r)

# ------------------------------------------------------------------ mem / misc
@exact('std::mem::take')
def _(E, m, a, c0):
    old = E.deref(a[0])
    if isinstance(old, Adt) and old.ty == 'Obj': new = Adt('Obj', 'Null', [])
    elif isinstance(old, Seq): new = Seq([])
    elif isinstance(old, Adt) and old.ty == 'Option': new = opt()
    else: raise Missing(f'mem::take of {old!r}')
    E.wr(a[0], new); return old
@exact('std::mem::replace')
def _(E, m, a, c0): old = E.deref(a[0]); E.wr(a[0], a[1]); return old
@exact('std::mem::swap')
def _(E, m, a, c0):
    x, y = E.deref(a[0]), E.deref(a[1]); E.wr(a[0], y); E.wr(a[1], x); return UNIT
@exact('drop', 'std::mem::drop')
def _(E, m, a, c0): E.drop_value(a[0]); return UNIT
@exact('std::mem::forget')
def _(E, m, a, c0): return UNIT
@pattern(r'<.* as Into<.*>>::into|<.* as From<T>>::from|std::convert::identity')
def _(E, m, a, c0): return a[0]
@pattern(r'<&(mut )?.* as Deref(Mut)?>::deref(_mut)?')
def _(E, m, a, c0): return E.deref(a[0]) if isinstance(E.deref(a[0]), Ref) else a[0]
@pattern(r'<Box<.*> as (Deref(Mut)?|AsRef<.*>|Borrow<.*>)>::(deref(_mut)?|as_ref|borrow)')
def _(E, m, a, c0):
    b = E.deref(a[0]); return Ref(b.cell, [])
@exact('Box::new')
def _(E, m, a, c0): return BoxV(a[0])
@exact('Box::new_uninit')
def _(E, m, a, c0): return BoxV(None)
@exact('std::boxed::box_assume_init_into_vec_unsafe')
def _(E, m, a, c0):
    # vec![..] lowering: the array is written into MaybeUninit<[T; N]> (union field .1 -> ManuallyDrop .0 -> MaybeDangling .0)
    v = a[0].cell.v
    while isinstance(v, Tup):
        inner = [f for f in v.fields if f is not None]
        if len(inner) != 1: raise Missing('unexpected MaybeUninit layout in vec! lowering')
        v = inner[0]
    if not isinstance(v, Seq): raise Missing('vec! lowering: no array found')
    return Seq(v.fields)
@pattern(r'<Cow<.*> as Deref>::deref')
def _(E, m, a, c0):
    c = E.deref(a[0])
    if c.variant == 'Borrowed': return c.fields[0]
    cc, p = E.canon(a[0].cell, list(a[0].path) + [0]); return Ref(cc, p)
@exact('Cow::into_owned')
def _(E, m, a, c0): return a[0].fields[0] if a[0].variant == 'Owned' else E.clone_value(E.deref(a[0].fields[0]))
@pattern(r'<(bool|i64|u64|usize|isize|i32|u32|u8|char|f64|BigInt|BigUint|Ratio<BigInt>|Complex<f64>|Sign|Ordering|std::cmp::Ordering) as Clone>::clone')
def _(E, m, a, c0): return E.deref(a[0])
@pattern(r'<(Vec<.*>|Option<.*>|Box<.*>|T|\(.*\)|Result<.*>) as Clone>::clone')
def _(E, m, a, c0):
    E.log.append(('deep_clone', m.group(1))); return E.clone_value(E.deref(a[0]))

# ------------------------------------------------------------------ Vec / slices
def _seq(E, r): return E.deref(r)
@pattern(r'<Vec<.*> as (Deref(Mut)?|AsRef<.*>|Borrow<.*>|AsMut<.*>)>::\w+|Vec::as_slice|Vec::as_mut_slice|core::slice::<impl \[.*\]>::iter(_mut)?_placeholder')
def _(E, m, a, c0): return a[0]
@exact('Vec::new')
def _(E, m, a, c0): return Seq([])
@exact('Vec::with_capacity')
def _(E, m, a, c0): return Seq([])
@pattern(r'Vec::len|core::slice::<impl \[.*\]>::len|VecDeque::len|String::len|std::string::String::len|core::str::<impl str>::len')
def _(E, m, a, c0): return _len(E, a[0])
@pattern(r'Vec::is_empty|core::slice::<impl \[.*\]>::is_empty|VecDeque::is_empty|std::string::String::is_empty|core::str::<impl str>::is_empty')
def _(E, m, a, c0): return _len(E, a[0]) == 0
def _len(E, x):
    v = E.deref(x) if isinstance(x, Ref) else x
    if isinstance(v, Opaque) and not v.tag.startswith('str:"'):
        # a formatted string / a long fill whose content is not tracked: its length is an arbitrary number of the right range
        E._olen = getattr(E, '_olen', 0) + 1
        c = z3.Int(f'opaquelen{E._olen}')
        E.assume(*( [c > 3, c <= 2**63 - 1] if v.tag == 'vec:long' else [c >= 0, c <= 16] )); return c
    return z3.IntVal(len(_seq(E, x).fields))
@exact('Vec::push', 'VecDeque::push_back', 'std::string::String::push')
def _(E, m, a, c0): v = _seq(E, a[0]); E.wr(a[0], Seq(v.fields + [a[1]])); return UNIT
@exact('Vec::pop', 'VecDeque::pop_back')
def _(E, m, a, c0):
    v = _seq(E, a[0])
    if not v.fields: return opt()
    E.wr(a[0], Seq(v.fields[:-1])); return opt(v.fields[-1])
@exact('VecDeque::pop_front')
def _(E, m, a, c0):
    v = _seq(E, a[0])
    if not v.fields: return opt()
    E.wr(a[0], Seq(v.fields[1:])); return opt(v.fields[0])
@exact('Vec::clear', 'std::string::String::clear')
def _(E, m, a, c0):
    v = _seq(E, a[0]); E.drop_value(v); E.wr(a[0], Seq([])); return UNIT
@exact('Vec::truncate')
def _(E, m, a, c0):
    v = _seq(E, a[0]); n = E.concretize(a[1], 0, len(v.fields) + 1) if not z3.is_int_value(z3.simplify(a[1])) else z3.simplify(a[1]).as_long()
    for x in v.fields[n:]: E.drop_value(x)
    E.wr(a[0], Seq(v.fields[:n])); return UNIT
@exact('Vec::reverse', 'core::slice::<impl [T]>::reverse')
def _(E, m, a, c0):
    v = _seq(E, a[0]); E.wr(a[0], Seq(v.fields[::-1])); return UNIT
@exact('Vec::append')
def _(E, m, a, c0):
    v, w = _seq(E, a[0]), _seq(E, a[1]); E.wr(a[0], Seq(v.fields + w.fields)); E.wr(a[1], Seq([])); return UNIT
@pattern(r'core::slice::<impl \[.*\]>::(last|first)(_mut)?|Vec::(last|first)(_mut)?')
def _(E, m, a, c0):
    v = _seq(E, a[0])
    if not v.fields: return opt()
    which = m.group(1) or m.group(3)
    c, p = E.canon(a[0].cell, list(a[0].path) + [len(v.fields) - 1 if which == 'last' else 0]); return opt(Ref(c, p))
def _index(E, a, what='index'):
    v = _seq(E, a[0]); i = a[1]; n = len(v.fields)
    iv = z3.simplify(i)
    if z3.is_int_value(iv):
        k = iv.as_long()
        if not (0 <= k < n): raise Abort(what + ' out of bounds')
        return v, k
    k = E.choose([i == j for j in range(n)] + [z3.Or(i < 0, i >= n)])
    if k == n: raise Abort(what + ' out of bounds')
    return v, k
@pattern(r'<(Vec<.*>|\[.*\]) as Index(Mut)?<usize>>::index(_mut)?')
def _(E, m, a, c0):
    v, k = _index(E, a)
    c, p = E.canon(a[0].cell, list(a[0].path) + [k]); return Ref(c, p)
@pattern(r'core::slice::<impl \[.*\]>::get(_mut)?|Vec::get(_mut)?')
def _(E, m, a, c0):
    v = _seq(E, a[0]); i = a[1]; n = len(v.fields)
    if not z3.is_expr(i): raise Missing('slice::get with range')
    k = E.choose([i == j for j in range(n)] + [z3.Or(i < 0, i >= n)])
    if k == n: return opt()
    c, p = E.canon(a[0].cell, list(a[0].path) + [k]); return opt(Ref(c, p))
@exact('Vec::remove')
def _(E, m, a, c0):
    v, k = _index(E, a, 'Vec::remove')
    E.wr(a[0], Seq(v.fields[:k] + v.fields[k+1:])); return v.fields[k]
@exact('Vec::insert')
def _(E, m, a, c0):
    v = _seq(E, a[0]); i = a[1]; n = len(v.fields)
    k = E.choose([i == j for j in range(n + 1)] + [z3.Or(i < 0, i > n)])
    if k == n + 1: raise Abort('Vec::insert out of bounds')
    E.wr(a[0], Seq(v.fields[:k] + [a[2]] + v.fields[k:])); return UNIT
@exact('Vec::swap', 'core::slice::<impl [T]>::swap')
def _(E, m, a, c0):
    v = _seq(E, a[0]); n = len(v.fields)
    i = E.concretize(a[1], 0, n - 1) if n else None; j = E.concretize(a[2], 0, n - 1) if n else None
    if n == 0: raise Abort('swap out of bounds')
    f = list(v.fields); f[i], f[j] = f[j], f[i]; E.wr(a[0], Seq(f)); return UNIT
def _range_of(E, r, n):
    """Range / RangeFrom / RangeTo / RangeFull value -> concrete (lo, hi) forking on symbolic bounds; panics like slice indexing"""
    r = E.deref(r)
    lo, hi = z3.IntVal(0), z3.IntVal(n)
    if isinstance(r, Adt):
        if r.ty == 'Range' or r.ty.endswith('::Range'): lo, hi = r.fields
        elif r.ty.endswith('RangeFrom'): lo = r.fields[0]
        elif r.ty.endswith('RangeTo'): hi = r.fields[0]
        elif r.ty.endswith('RangeFull'): pass
        elif r.ty.endswith('RangeInclusive'): raise Missing('RangeInclusive slice')
        else: raise Missing('range type ' + r.ty)
    bad = z3.Or(lo > hi, hi > n, lo < 0)
    if E.branch(bad): raise Abort('slice index out of range')
    l = E.concretize(lo, 0, n); h = E.concretize(hi, l, n)
    return l, h
@pattern(r'<(Vec<.*>|\[.*\]) as Index(Mut)?<(std::ops::)?Range(From|To|Full)?(<usize>)?>>::index(_mut)?|core::slice::index::<impl Index(Mut)?<.*Range.*> for \[.*\]>::index(_mut)?')
def _(E, m, a, c0):
    v = _seq(E, a[0]); n = len(v.fields); l, h = _range_of(E, a[1], n)
    c, p = E.canon(a[0].cell, list(a[0].path) + [('sub', l, n - h)]); return Ref(c, p)
@exact('Vec::drain')
def _(E, m, a, c0):
    v = _seq(E, a[0]); n = len(v.fields); l, h = _range_of(E, a[1], n)
    E.wr(a[0], Seq(v.fields[:l] + v.fields[h:])); return Adt('Iter', None, [Seq(v.fields[l:h]), 0, 'own'])
@exact('Vec::split_off')
def _(E, m, a, c0):
    v = _seq(E, a[0]); n = len(v.fields)
    if E.branch(z3.Or(a[1] > n, a[1] < 0)): raise Abort('split_off out of bounds')
    k = E.concretize(a[1], 0, n); E.wr(a[0], Seq(v.fields[:k])); return Seq(v.fields[k:])
@pattern(r'core::slice::<impl \[.*\]>::to_vec|<\[.*\] as ToOwned>::to_owned|<\[.*\]>::to_vec')
def _(E, m, a, c0): return E.clone_value(_seq(E, a[0]))
@pattern(r'<Vec<.*> as Extend<.*>>::extend|Vec::extend_from_slice|Vec::extend')
def _(E, m, a, c0):
    v = _seq(E, a[0]); items = _collect(E, a[1], clone='from_slice' in c0)
    E.wr(a[0], Seq(v.fields + items)); return UNIT
@pattern(r'core::slice::<impl \[.*\]>::split_first|core::slice::<impl \[.*\]>::split_last')
def _(E, m, a, c0):
    v = _seq(E, a[0]); n = len(v.fields)
    if n == 0: return opt()
    base = list(a[0].path)
    if 'first' in c0: return opt(Tup([Ref(a[0].cell, base + [0]), Ref(a[0].cell, base + [('sub', 1, 0)])]))
    return opt(Tup([Ref(a[0].cell, base + [n - 1]), Ref(a[0].cell, base + [('sub', 0, 1)])]))

# ------------------------------------------------------------------ iterators (concrete-length)
def _iter_of(E, x, mode):
    """Iter adt: [Seq items or source ref, pos, mode]"""
    if isinstance(x, Adt) and x.ty == 'Iter': return x
    if isinstance(x, Ref):
        v = E.deref(x)
        if isinstance(v, Seq):
            c, p = E.canon(x.cell, list(x.path))
            return Adt('Iter', None, [Seq([Ref(c, p + [i]) for i in range(len(v.fields))]), 0, 'ref'])
    if isinstance(x, Seq): return Adt('Iter', None, [x, 0, 'own'])
    if isinstance(x, Adt) and x.ty in ('Range',):
        lo, hi = x.fields
        return Adt('RangeIter', None, [lo, hi])
    if isinstance(x, (Adt, BoxV)) and mode == 'own': return x       # a crate type that is itself an Iterator: into_iter is the identity (blanket impl)
    raise Missing(f'iterator over {x!r}')
def _drain(E, it):
    """remaining items of a crate iterator value, through its own `next` (bounded)"""
    c = it.cell if isinstance(it, BoxV) else Cell(it)
    out = []
    for _ in range(64):
        o = E.dyn_dispatch('<dyn Iterator as Iterator>::next', [Ref(c, [])])
        if o is NotImplemented: raise Missing(f'iterator over {it!r}'[:160])
        if o.variant == 'None': return out
        out.append(o.fields[0])
    raise Missing('draining a crate iterator: more than 64 elements (infinite stream?)')
def _collect(E, x, clone=False):
    if isinstance(x, Ref) and isinstance(E.deref(x), Seq):
        v = E.deref(x); return [E.clone_value(f) for f in v.fields] if clone else [Ref(*E.canon(x.cell, list(x.path) + [i])) for i in range(len(v.fields))]
    it = _iter_of(E, x, 'own')
    if not (isinstance(it, Adt) and it.ty in ('Iter', 'RangeIter')): return _drain(E, it)
    out = []
    while True:
        r = _next(E, it)
        if r is None: break
        out.append(r)
    return out
def _next(E, it):
    """advance python-side Iter adt (mutated in place: caller must write back when held in a cell)"""
    if it.ty == 'Iter':
        items, pos = it.fields[0], it.fields[1]
        if pos >= len(items.fields): return None
        it.fields[1] = pos + 1; return items.fields[pos]
    raise Missing('next on ' + it.ty)
@pattern(r'core::slice::<impl \[.*\]>::iter(_mut)?|Vec::iter(_mut)?|<&(mut )?Vec<.*> as IntoIterator>::into_iter|<&(mut )?\[.*\] as IntoIterator>::into_iter|VecDeque::iter')
def _(E, m, a, c0): return _iter_of(E, a[0], 'ref')
@pattern(r'<Vec<.*> as IntoIterator>::into_iter|<std::vec::IntoIter<.*> as IntoIterator>::into_iter|<std::slice::Iter(Mut)?<.*> as IntoIterator>::into_iter|<.*Iter<.*> as IntoIterator>::into_iter|<std::vec::Drain<.*> as IntoIterator>::into_iter')
def _(E, m, a, c0): return _iter_of(E, a[0], 'own')
@pattern(r'<(std::slice::Iter(Mut)?<.*>|std::vec::IntoIter<.*>|std::vec::Drain<.*>|std::collections::vec_deque::Iter<.*>) as Iterator>::next')
def _(E, m, a, c0):
    it = E.deref(a[0])
    items, pos = it.fields[0], it.fields[1]
    if pos >= len(items.fields): return opt()
    E.wr(a[0], Adt('Iter', None, [items, pos + 1, it.fields[2]])); return opt(items.fields[pos])
@pattern(r'<(std::slice::Iter(Mut)?<.*>|std::vec::IntoIter<.*>) as DoubleEndedIterator>::next_back')
def _(E, m, a, c0):
    it = E.deref(a[0]); items, pos = it.fields[0], it.fields[1]
    if pos >= len(items.fields): return opt()
    E.wr(a[0], Adt('Iter', None, [Seq(items.fields[:-1]), pos, it.fields[2]])); return opt(items.fields[-1])
@pattern(r'<(std::slice::Iter(Mut)?<.*>|std::vec::IntoIter<.*>) as (ExactSizeIterator|Iterator)>::(len|count)')
def _(E, m, a, c0):
    it = E.deref(a[0]); return z3.IntVal(len(it.fields[0].fields) - it.fields[1])
@pattern(r'<(std::slice::Iter(Mut)?<.*>|std::vec::IntoIter<.*>) as Iterator>::(cloned|copied)|<.* as Iterator>::(cloned|copied)')
def _(E, m, a, c0):
    it = a[0]
    if isinstance(it, Adt) and it.ty == 'Iter':
        return Adt('Iter', None, [Seq([E.clone_value(E.deref(x)) for x in it.fields[0].fields[it.fields[1]:]]), 0, 'own'])
    raise Missing('cloned on ' + repr(it))
@pattern(r'<.* as Iterator>::rev')
def _(E, m, a, c0):
    it = a[0]
    if isinstance(it, Adt) and it.ty == 'Iter': return Adt('Iter', None, [Seq(it.fields[0].fields[it.fields[1]:][::-1]), 0, it.fields[2]])
    raise Missing('rev on ' + repr(it))
@pattern(r'<.* as Iterator>::collect|<Vec<.*> as FromIterator<.*>>::from_iter')
def _(E, m, a, c0):
    it = a[0]
    if isinstance(it, Adt) and it.ty == 'Iter' and re.search(r'collect::<Vec<|from_iter|collect::<std::vec::Vec', c0):
        return Seq(it.fields[0].fields[it.fields[1]:])
    raise Missing('collect ' + c0)
@pattern(r'<(std::ops::)?Range<(usize|i64|i32|u32|isize|u64)> as Iterator>::next')
def _(E, m, a, c0):
    r = E.deref(a[0]); lo, hi = r.fields
    if E.branch(lo < hi):
        if not z3.is_int_value(z3.simplify(hi)):
            key = ('rangeiter', str(hi)); E.log.append(key)
            if sum(1 for l in E.log if l == key) > 8: raise Missing('loop over a range with a symbolic bound: more than 8 iterations')
        E.wr(a[0], Adt(r.ty, None, [z3.simplify(lo + 1), hi])); return opt(lo)
    return opt()
@pattern(r'<(std::ops::)?Range<(usize|i64|i32|u32|isize|u64)> as IntoIterator>::into_iter')
def _(E, m, a, c0): return a[0]

# ------------------------------------------------------------------ Rc
@pattern(r'<(std::rc::)?Rc<.*> as (Deref|AsRef<.*>|Borrow<.*>)>::(deref|as_ref|borrow)')
def _(E, m, a, c0): return Ref(E.deref(a[0]).obj.cell, [])
@exact('std::rc::Rc::new', 'Rc::new')
def _(E, m, a, c0): return RcV(RcObj(a[0]))
@pattern(r'<(std::rc::)?Rc<.*> as Clone>::clone|(std::rc::)?Rc::clone')
def _(E, m, a, c0): return E.clone_value(E.deref(a[0]))
@exact('std::rc::Rc::make_mut', 'Rc::make_mut')
def _(E, m, a, c0):
    rc = E.deref(a[0])
    if rc.obj.count == 1: E.log.append(('make_mut_inplace', rc.obj.id)); return Ref(rc.obj.cell, [])
    new = RcObj(E.clone_value(rc.obj.cell.v)); rc.obj.count -= 1
    E.log.append(('make_mut_clone', rc.obj.id, new.id)); E.wr(a[0], RcV(new)); return Ref(new.cell, [])
@exact('std::rc::Rc::strong_count', 'Rc::strong_count')
def _(E, m, a, c0): return z3.IntVal(E.deref(a[0]).obj.count)
@exact('std::rc::Rc::weak_count', 'Rc::weak_count')
def _(E, m, a, c0): return z3.IntVal(0)
@exact('std::rc::Rc::get_mut', 'Rc::get_mut')
def _(E, m, a, c0):
    rc = E.deref(a[0]); return opt(Ref(rc.obj.cell, [])) if rc.obj.count == 1 else opt()
@exact('std::rc::Rc::try_unwrap', 'Rc::try_unwrap')
def _(E, m, a, c0):
    rc = a[0]
    if rc.obj.count == 1: rc.obj.count = 0; E.log.append(('try_unwrap_owned', rc.obj.id)); return ok(rc.obj.cell.v)
    return err(rc)
@exact('std::rc::Rc::ptr_eq', 'Rc::ptr_eq')
def _(E, m, a, c0): return z3.BoolVal(E.deref(a[0]).obj is E.deref(a[1]).obj)

# ------------------------------------------------------------------ machine integers
@pattern(r'<(i64|BigInt|isize|usize|u64|i32|u32|u8|BigUint|i128|u128) as ToPrimitive>::to_(isize|i64|usize|u64|u32|i32|u8|i128|u128|u16|i16|i8)')
def _(E, m, a, c0):
    x = E.deref(a[0]); lo, hi = int_bounds(m.group(2))
    k = E.choose([z3.And(x >= lo, x <= hi), z3.Or(x < lo, x > hi)])
    return opt(x) if k == 0 else opt()
UF_BIG2F = z3.Function('bigint_to_f64', ZI, z3.RealSort())
@pattern(r'<(i64|isize|usize|u64|i32|u32|u8) as ToPrimitive>::to_f64')
def _(E, m, a, c0): return opt(E.int_to_float(E.deref(a[0])))
@pattern(r'<(BigInt|BigUint) as ToPrimitive>::to_f64')
def _(E, m, a, c0):
    x = E.deref(a[0]); exact_ = z3.And(x >= -(1 << 53), x <= (1 << 53))
    huge = z3.Or(x >= (1 << 1024), x <= -(1 << 1024))
    return opt(F64(z3.If(huge, z3.If(x > 0, 1, 2), 3), z3.If(exact_, z3.ToReal(x), UF_BIG2F(x))))
@pattern(r'core::num::<impl (i64|isize|i32|usize|u32|u64|u8)>::checked_(add|sub|mul|div|rem|neg|abs|pow)')
def _(E, m, a, c0):
    ty, op = m.group(1), m.group(2); lo, hi = int_bounds(ty)
    x = a[0]; y = a[1] if len(a) > 1 else None
    if op in ('add', 'sub', 'mul', 'neg', 'abs'):
        r = {'add': lambda: x + y, 'sub': lambda: x - y, 'mul': lambda: x * y, 'neg': lambda: -x, 'abs': lambda: z3.If(x < 0, -x, x)}[op]()
        k = E.choose([z3.And(r >= lo, r <= hi), z3.Or(r < lo, r > hi)])
        return opt(r) if k == 0 else opt()
    if op == 'pow': raise Missing('checked_pow')
    bad = z3.Or(y == 0, z3.And(x == lo, y == -1)) if lo < 0 else (y == 0)
    k = E.choose([z3.Not(bad), bad])
    return opt() if k == 1 else opt(tdiv(x, y) if op == 'div' else trem(x, y))
@pattern(r'core::num::<impl (i64|isize|i32|usize|u32|u64|u8)>::(wrapping|saturating)_(add|sub|mul|neg)')
def _(E, m, a, c0):
    ty, mode, op = m.groups(); lo, hi = int_bounds(ty); x = a[0]; y = a[1] if len(a) > 1 else None
    r = {'add': lambda: x + y, 'sub': lambda: x - y, 'mul': lambda: x * y, 'neg': lambda: -x}[op]()
    if mode == 'wrapping': return wrap(r, ty)
    return z3.If(r > hi, hi, z3.If(r < lo, lo, r))
@pattern(r'core::num::<impl (i64|isize|i32|usize|u32|u64|u8)>::(rem_euclid|div_euclid)')
def _(E, m, a, c0):
    x, y = a; ty = m.group(1); lo, hi = int_bounds(ty)
    bad = z3.Or(y == 0, z3.And(x == lo, y == -1)) if lo < 0 else (y == 0)
    if E.branch(bad): raise Abort(m.group(2) + ': division by zero or overflow')
    return x % y if m.group(2) == 'rem_euclid' else x / y       # z3 div/mod are euclidean
@pattern(r'core::num::<impl (i64|isize|i32)>::(signum|abs|unsigned_abs)')
def _(E, m, a, c0):
    x = a[0]; lo, hi = int_bounds(m.group(1))
    if m.group(2) == 'signum': return z3.If(x > 0, 1, z3.If(x < 0, -1, 0))
    if m.group(2) == 'unsigned_abs': return z3.If(x < 0, -x, x)
    if E.branch(x == lo): raise Abort('abs overflow')       # overflow-checks on: panics
    return z3.If(x < 0, -x, x)
@pattern(r'<(i64|isize|i32|i8|i16) as Signed>::(signum|abs|is_positive|is_negative)')
def _(E, m, a, c0):
    x = E.deref(a[0]); lo, hi = int_bounds(m.group(1)); op = m.group(2)
    if op == 'signum': return z3.If(x > 0, 1, z3.If(x < 0, -1, 0))
    if op == 'is_positive': return x > 0
    if op == 'is_negative': return x < 0
    if E.branch(x == lo): raise Abort('abs overflow')
    return z3.If(x < 0, -x, x)
@pattern(r'<(i64|u64|usize|isize|i32|u32|u8|BigInt|BigUint) as (num::)?Zero>::is_zero')
def _(E, m, a, c0): return E.deref(a[0]) == 0
@pattern(r'<(i64|u64|usize|isize|i32|u32|u8|BigInt|BigUint) as (num::)?One>::is_one')
def _(E, m, a, c0): return E.deref(a[0]) == 1
@pattern(r'<(i64|u64|usize|isize|i32|u32|u8|BigInt|BigUint) as (num::)?(Zero|One)>::(zero|one)')
def _(E, m, a, c0): return z3.IntVal(0 if m.group(4) == 'zero' else 1)
@pattern(r'<&?(i64|u64|usize|isize|i32|u32|u8|char|bool|BigInt|BigUint|&i64|&BigInt|&usize|&char|&u8) as PartialEq(<.*>)?>::(eq|ne)')
def _(E, m, a, c0):
    r = E.deref(a[0]) == E.deref(a[1]); return r if m.group(3) == 'eq' else z3.Not(r)
@pattern(r'<&?(i64|u64|usize|isize|i32|u32|u8|char|BigInt|BigUint|&BigInt|&i64) as (Ord|PartialOrd)(<.*>)?>::(cmp|partial_cmp|lt|le|gt|ge)')
def _(E, m, a, c0):
    x, y = E.deref(a[0]), E.deref(a[1]); op = m.group(4)
    if op in ('lt', 'le', 'gt', 'ge'): return {'lt': x < y, 'le': x <= y, 'gt': x > y, 'ge': x >= y}[op]
    k = E.choose([x < y, x == y, x > y]); o = ordering(k)
    return o if op == 'cmp' else opt(o)
@pattern(r'<&?(i64|u64|usize|isize|i32|u32|u8) as (BitAnd|BitOr|BitXor)(<.*>)?>::\w+')
def _(E, m, a, c0): return bitop(m.group(2), E.deref(a[0]), E.deref(a[1]), m.group(1))
@pattern(r'<&?(i64|isize|i32) as Not>::not')
def _(E, m, a, c0): return -E.deref(a[0]) - 1
@pattern(r'<(BigInt|BigUint) as From<(i64|u64|usize|isize|u32|i32|u8)>>::from|<(i64|i128|u64|usize) as From<(i32|u32|u8|i64|u64|char)>>::from')
def _(E, m, a, c0): return a[0]
@pattern(r'std::cmp::(max|min)|<(usize|i64|isize|u32|i32) as Ord>::(max|min)')
def _(E, m, a, c0):
    x, y = a
    if not (z3.is_expr(x) and z3.is_expr(y)): raise Missing('cmp::max/min on structured value')
    which = m.group(1) or m.group(3)
    return z3.If(x >= y, x, y) if which == 'max' else z3.If(x <= y, x, y)
@pattern(r'<Ordering as PartialEq>::(eq|ne)|<std::cmp::Ordering as PartialEq>::(eq|ne)')
def _(E, m, a, c0):
    r = z3.BoolVal(E.deref(a[0]).variant == E.deref(a[1]).variant); return r if (m.group(1) or m.group(2)) == 'eq' else z3.Not(r)
@pattern(r'(std::cmp::)?Ordering::(reverse|is_lt|is_le|is_gt|is_ge|is_eq|is_ne|then)')
def _(E, m, a, c0):
    v = E.deref(a[0]).variant; op = m.group(2)
    if op == 'reverse': return Adt('Ordering', {'Less': 'Greater', 'Equal': 'Equal', 'Greater': 'Less'}[v], [])
    if op == 'then': return a[1] if v == 'Equal' else a[0]
    return z3.BoolVal({'is_lt': v == 'Less', 'is_le': v != 'Greater', 'is_gt': v == 'Greater', 'is_ge': v != 'Less', 'is_eq': v == 'Equal', 'is_ne': v != 'Equal'}[op])

# ------------------------------------------------------------------ BigInt / BigUint
@pattern(r'<&?(BigInt|BigUint) as (Add|Sub|Mul|Div|Rem)(?:<&?(?:BigInt|BigUint)>)?>::\w+')
def _(E, m, a, c0):
    x, y = E.deref(a[0]), E.deref(a[1]); op = m.group(2)
    if op in ('Div', 'Rem'):
        if E.branch(y == 0): raise Abort('BigInt division by zero')
        return tdiv(x, y) if op == 'Div' else trem(x, y)
    return {'Add': x + y, 'Sub': x - y, 'Mul': x * y}[op]
@pattern(r'<&?BigInt as (BitAnd|BitOr|BitXor)(?:<&?BigInt>)?>::\w+')
def _(E, m, a, c0): return zbit(m.group(1), E.deref(a[0]), E.deref(a[1]))
@pattern(r'<&?BigInt as Neg>::neg')
def _(E, m, a, c0): return -E.deref(a[0])
@pattern(r'<&?BigInt as Not>::not')
def _(E, m, a, c0): return -E.deref(a[0]) - 1
@pattern(r'<&?BigInt as Shl<usize>>::shl')
def _(E, m, a, c0): return UF_SHL(E.deref(a[0]), a[1])
@pattern(r'<&?BigInt as Shr<usize>>::shr')
def _(E, m, a, c0): return UF_SHR(E.deref(a[0]), a[1])
@pattern(r'<&?BigInt as Integer>::(div_floor|mod_floor|gcd|lcm)')
def _(E, m, a, c0):
    x, y = E.deref(a[0]), E.deref(a[1]); op = m.group(1)
    if op == 'gcd': return UF_GCD(x, y)
    if op == 'lcm': return UF_LCM(x, y)
    if E.branch(y == 0): raise Abort('BigInt division by zero')
    return fdiv(x, y) if op == 'div_floor' else fmod(x, y)
@pattern(r'<&?BigInt as Signed>::(abs|signum|is_positive|is_negative)')
def _(E, m, a, c0):
    x = E.deref(a[0]); op = m.group(1)
    return {'abs': z3.If(x < 0, -x, x), 'signum': z3.If(x > 0, 1, z3.If(x < 0, -1, 0)), 'is_positive': x > 0, 'is_negative': x < 0}[op]
@exact('BigInt::sign')
def _(E, m, a, c0):
    x = E.deref(a[0]); k = E.choose([x < 0, x == 0, x > 0]); return Adt('Sign', ['Minus', 'NoSign', 'Plus'][k], [])
@exact('BigInt::magnitude')
def _(E, m, a, c0): x = E.deref(a[0]); return Ref(Cell(z3.If(x < 0, -x, x)))
@exact('BigInt::into_parts')
def _(E, m, a, c0):
    x = a[0]; k = E.choose([x < 0, x == 0, x > 0]); return Tup([Adt('Sign', ['Minus', 'NoSign', 'Plus'][k], []), z3.If(x < 0, -x, x)])
@exact('BigInt::sqrt')
def _(E, m, a, c0):
    x = E.deref(a[0])
    if E.branch(x < 0): raise Abort('sqrt of negative BigInt')
    return UF_SQRT(x)
def zpow(E, x, n):
    """x^n for n >= 0: uninterpreted, with the algebraic facts the callers rely on"""
    xs, ns = z3.simplify(x), z3.simplify(n)
    if z3.is_int_value(xs):
        # constant base (10^k in the decimal parser): exact when the exponent is, or can be made, concrete and small
        if not z3.is_int_value(ns) and not E.feasible(z3.Or(n > 128, n < 0)): ns = z3.IntVal(E.concretize(n, 0, 128))
        if z3.is_int_value(ns) and 0 <= ns.as_long() <= 4096: return z3.IntVal(xs.as_long() ** ns.as_long())
    r = UF_POW(x, n)
    E.assume(z3.Implies(n == 0, r == 1), z3.Implies(n == 1, r == x), z3.Implies(n > 0, (r == 0) == (x == 0)))
    return r
@exact('BigInt::pow')
def _(E, m, a, c0): return zpow(E, E.deref(a[0]), a[1])
@pattern(r'<&?BigInt as Pow<&?(BigUint|u32|usize|u64)>>::pow')
def _(E, m, a, c0): return zpow(E, E.deref(a[0]), E.deref(a[1]))
@pattern(r'<BigInt as DivAssign<u32>>::div_assign')
def _(E, m, a, c0):
    x = E.deref(a[0])
    if E.branch(a[1] == 0): raise Abort('BigInt division by zero')
    E.wr(a[0], tdiv(x, a[1])); return UNIT
def _hid(E, state):
    """identity of the hasher a write goes to (None = the harness's outer recorder)"""
    h = E.deref(state)
    return h.fields[0] if isinstance(h, Adt) and h.fields else None
@pattern(r'<(BigInt|BigUint) as Hash>::hash')
def _(E, m, a, c0): E.log.append(('h', 'bigint', E.deref(a[0]), _hid(E, a[1]))); return UNIT
@pattern(r'<(H|.*) as Hasher>::write_(i64|u64|u8|usize|u32|i32|isize)')
def _(E, m, a, c0): E.log.append(('h', m.group(2), a[1], _hid(E, a[0]))); return UNIT
@pattern(r'<(u64|i64|usize|u8|bool|char|u32) as Hash>::hash')
def _(E, m, a, c0): E.log.append(('h', m.group(1), E.deref(a[0]), _hid(E, a[1]))); return UNIT
# a real hasher inside the code under test (the order-independent hash of dict-valued keys): finish() is an uninterpreted
# function of the sequence of writes it received
UF_HSTEP = {}
@pattern(r'(?:std::collections::hash_map::|std::hash::)?DefaultHasher::new|<(?:std::collections::hash_map::)?DefaultHasher as Default>::default')
def _(E, m, a, c0):
    E.fresh_n += 1; return Adt('Hasher', None, [E.fresh_n])
@pattern(r'<(?:std::collections::hash_map::|std::hash::)?DefaultHasher as Hasher>::finish')
def _(E, m, a, c0):
    hid = _hid(E, a[0]); h = z3.IntVal(0)
    for l in E.log:
        if l[0] == 'h' and len(l) > 3 and l[3] == hid:
            f = UF_HSTEP.setdefault(l[1], z3.Function('hstep_' + l[1], ZI, ZI, ZI)); h = f(h, l[2])
    r = z3.Function('hfinish', ZI, ZI)(h); E.assume(r >= 0, r <= (1 << 64) - 1)
    return r
@pattern(r'core::num::<impl (u64|u32|usize)>::rotate_(left|right)')
def _(E, m, a, c0):
    bits = 32 if m.group(1) == 'u32' else 64
    k = z3.simplify(a[1])
    if not z3.is_int_value(k): raise Missing('rotate by a symbolic amount')
    bv = z3.Int2BV(a[0], bits); r = z3.RotateLeft(bv, k.as_long() % bits) if m.group(2) == 'left' else z3.RotateRight(bv, k.as_long() % bits)
    return z3.BV2Int(r, is_signed=False)
@pattern(r'<f64 as ToBigInt>::to_bigint|<f64 as ToPrimitive>::to_(i64|isize|usize|u64|i32|u32|u8)')
def _(E, m, a, c0):
    f = E.deref(a[0])
    if not E.branch(f.kind == 3): return opt()
    t = trunc_r(f.val)
    if m.group(1):
        lo, hi = int_bounds(m.group(1))
        if not E.branch(z3.And(t >= lo, t <= hi)): return opt()
    return opt(t)

# ------------------------------------------------------------------ f64
@pattern(r'(?:std::|core::)?f64::<impl f64>::(trunc|floor|ceil|round|abs|is_nan|is_infinite|is_finite|is_sign_positive|is_sign_negative|to_bits|fract|signum|sqrt|powi|powf|ln|exp|sin|cos|tan|mul_add|log|log10|log2|atan2|rem_euclid|div_euclid|min|max|recip|total_cmp|from_bits|copysign)')
def _(E, m, a, c0):
    op = m.group(1); x = E.deref(a[0])
    if op == 'from_bits': return E.fop('from_bits', F64(3, z3.ToReal(x)))
    if op in ('trunc', 'floor', 'ceil'):
        f = {'trunc': trunc_r, 'floor': floor_r, 'ceil': ceil_r}[op]
        t = z3.ToReal(f(x.val))
        # sign of a zero result: trunc keeps sign of x; floor of [0,1) is +0 unless x == -0; ceil of (-1,0] is -0 unless x == +0
        nz = {'trunc': x.signbit(), 'floor': z3.And(x.val == 0, x.nz), 'ceil': z3.Or(x.val < 0, z3.And(x.val == 0, x.nz))}[op]
        return F64(x.kind, t, nz)
    if op == 'round':
        t = z3.If(x.val >= 0, z3.ToInt(x.val + z3.RealVal('1/2')), -z3.ToInt(-x.val + z3.RealVal('1/2')))
        return F64(x.kind, z3.ToReal(t), x.signbit())
    if op == 'abs': return F64(z3.If(x.kind == 2, 1, x.kind), z3.If(x.val < 0, -x.val, x.val), z3.BoolVal(False))
    if op == 'fract':
        # x - trunc(x): exact (the fractional part of a double is a double); NaN for non-finite x; a zero result takes the sign of x
        fr = x.val - z3.ToReal(trunc_r(x.val))
        return F64(z3.If(x.kind == 3, 3, 0), z3.If(x.kind == 3, fr, 0), z3.And(x.kind == 3, fr == 0, x.signbit()))
    if op == 'is_nan': return x.kind == 0
    if op == 'is_infinite': return z3.Or(x.kind == 1, x.kind == 2)
    if op == 'is_finite': return x.kind == 3
    if op == 'is_sign_positive': return z3.Not(x.signbit())          # NaN: sign bit treated as clear (canonical NaN)
    if op == 'is_sign_negative': return x.signbit()
    if op == 'to_bits': return UF_BITS(x.kind, z3.If(x.kind == 3, x.val, 0), z3.And(x.kind == 3, x.val == 0, x.nz))
    if op == 'total_cmp': raise Missing('f64::total_cmp')
    return E.fop(op, *[E.deref(v) if isinstance(E.deref(v), F64) else F64(3, z3.ToReal(E.deref(v))) for v in a])
UF_BITS = z3.Function('f64_bits', ZI, z3.RealSort(), z3.BoolSort(), ZI)
@pattern(r'<&?f64 as (Add|Sub|Mul|Div|Rem)(<&?f64>)?>::\w+')
def _(E, m, a, c0): return E.fop(m.group(1), E.deref(a[0]), E.deref(a[1]))
@pattern(r'<&?f64 as Neg>::neg')
def _(E, m, a, c0): return E.binop('Neg', [E.deref(a[0])], 'f64')
@pattern(r'<&?&?f64 as PartialEq(<.*>)?>::(eq|ne)')
def _(E, m, a, c0): return E.fcmp('Eq' if m.group(2) == 'eq' else 'Ne', E.deref(a[0]), E.deref(a[1]))
@pattern(r'<&?f64 as PartialOrd(<.*>)?>::(partial_cmp|lt|le|gt|ge)')
def _(E, m, a, c0):
    x, y = E.deref(a[0]), E.deref(a[1]); op = m.group(2)
    if op != 'partial_cmp': return E.fcmp({'lt': 'Lt', 'le': 'Le', 'gt': 'Gt', 'ge': 'Ge'}[op], x, y)
    k = E.choose([z3.Or(x.kind == 0, y.kind == 0), E.fcmp('Lt', x, y), E.fcmp('Eq', x, y), E.fcmp('Gt', x, y)])
    return opt() if k == 0 else opt(ordering(k - 1))
@pattern(r'<f64 as (num::)?(Zero|One)>::(is_zero|is_one|zero|one)')
def _(E, m, a, c0):
    op = m.group(3)
    if op == 'zero': return F64(3, 0)
    if op == 'one': return F64(3, 1)
    x = E.deref(a[0]); return z3.And(x.kind == 3, x.val == (0 if op == 'is_zero' else 1))
@pattern(r'<f64 as From<(i32|u32|u8|f32)>>::from')
def _(E, m, a, c0): return F64(3, z3.ToReal(a[0]))

# ------------------------------------------------------------------ BigRational
def _rat(x):
    if isinstance(x, Rat): return x.v
    raise Missing(f'expected Ratio, got {x!r}')
@pattern(r'<&?Ratio<BigInt> as (Add|Sub|Mul|Div|Rem)(?:<&?Ratio<BigInt>>)?>::\w+')
def _(E, m, a, c0):
    x, y = _rat(E.deref(a[0])), _rat(E.deref(a[1])); op = m.group(1)
    if op in ('Div', 'Rem'):
        if E.branch(y == 0): raise Abort('Ratio division by zero')
        return Rat(x / y) if op == 'Div' else Rat(x - y * z3.ToReal(trunc_r(x / y)))
    return Rat({'Add': x + y, 'Sub': x - y, 'Mul': x * y}[op])
@pattern(r'<&?Ratio<BigInt> as Neg>::neg')
def _(E, m, a, c0): return Rat(-_rat(E.deref(a[0])))
@pattern(r'Ratio::(floor|ceil|round|trunc|fract|to_integer|recip|numer|denom|is_integer|new|from_integer|new_raw|reduced|abs|into_raw|from_float|pow)|<Ratio<BigInt> as Signed>::(abs|is_negative|is_positive|signum)')
def _(E, m, a, c0):
    op = m.group(1) or m.group(2); x = E.deref(a[0])
    if op == 'new':
        n, d = a
        if E.branch(d == 0): raise Abort('Ratio::new: denominator == 0')
        return Rat(z3.ToReal(n) / z3.ToReal(d))
    if op in ('from_integer',): return Rat(z3.ToReal(a[0]))
    if op == 'from_float':
        f = x
        if not E.branch(f.kind == 3): return opt()
        return opt(Rat(f.val))
    v = _rat(x)
    if op == 'floor': return Rat(z3.ToReal(floor_r(v)))
    if op == 'ceil': return Rat(z3.ToReal(ceil_r(v)))
    if op == 'trunc': return Rat(z3.ToReal(trunc_r(v)))
    if op == 'round':
        h = z3.RealVal('1/2'); return Rat(z3.ToReal(z3.If(v >= 0, z3.ToInt(v + h), -z3.ToInt(-v + h))))
    if op == 'fract': return Rat(v - z3.ToReal(trunc_r(v)))
    if op == 'to_integer': return trunc_r(v)
    if op == 'recip':
        if E.branch(v == 0): raise Abort('Ratio::recip of zero')
        return Rat(1 / v)
    if op == 'numer': return Ref(Cell(x.n))
    if op == 'denom': return Ref(Cell(x.d))
    if op == 'into_raw': return Tup([x.n, x.d])
    if op == 'is_integer': return z3.IsInt(v)
    if op == 'abs': return Rat(z3.If(v < 0, -v, v))
    if op == 'is_negative': return v < 0
    if op == 'is_positive': return v > 0
    if op == 'signum': return Rat(z3.If(v > 0, z3.RealVal(1), z3.If(v < 0, z3.RealVal(-1), z3.RealVal(0))))
    if op == 'pow': return Rat(UF_RPOW(v, a[1]))
    raise Missing('Ratio::' + op)
@pattern(r'<Ratio<BigInt> as From<BigInt>>::from')
def _(E, m, a, c0): return Rat(z3.ToReal(a[0]))
@pattern(r'<&?Ratio<BigInt> as (PartialEq|PartialOrd|Ord)(<.*>)?>::(eq|ne|partial_cmp|cmp|lt|le|gt|ge)')
def _(E, m, a, c0):
    x, y = _rat(E.deref(a[0])), _rat(E.deref(a[1])); op = m.group(3)
    if op in ('eq', 'ne'): r = x == y; return r if op == 'eq' else z3.Not(r)
    if op in ('lt', 'le', 'gt', 'ge'): return {'lt': x < y, 'le': x <= y, 'gt': x > y, 'ge': x >= y}[op]
    k = E.choose([x < y, x == y, x > y]); o = ordering(k)
    return o if op == 'cmp' else opt(o)
@pattern(r'<Ratio<BigInt> as (num::)?(Zero|One)>::(is_zero|is_one|zero|one)')
def _(E, m, a, c0):
    op = m.group(3)
    if op == 'zero': return Rat(0)
    if op == 'one': return Rat(1)
    return _rat(E.deref(a[0])) == (0 if op == 'is_zero' else 1)
UF_RAT2F = z3.Function('ratio_to_f64', z3.RealSort(), z3.RealSort())
@pattern(r'<Ratio<BigInt> as ToPrimitive>::to_f64')
def _(E, m, a, c0):
    v = _rat(E.deref(a[0]))
    return opt(F64(E.fresh('r2f_kind') if False else 3, UF_RAT2F(v)))
@pattern(r'<Ratio<BigInt> as Clone>::clone')
def _(E, m, a, c0): return E.deref(a[0])
@pattern(r'<&?Ratio<BigInt> as Pow<.*>>::pow')
def _(E, m, a, c0): return Rat(UF_RPOW(_rat(E.deref(a[0])), E.deref(a[1])))

# ------------------------------------------------------------------ char
@exact('char::methods::<impl char>::to_digit')
def _(E, m, a, c0):
    c, radix = E.deref(a[0]), a[1]
    dig = z3.And(c >= 48, c <= 57); lo = z3.And(c >= 97, c <= 122); up = z3.And(c >= 65, c <= 90)
    v = z3.If(dig, c - 48, z3.If(lo, c - 87, c - 55))
    okc = z3.And(z3.Or(dig, lo, up), v < radix)
    return opt(v) if E.branch(okc) else opt()
@exact('char::methods::<impl char>::from_u32', 'std::char::from_u32', 'char::from_u32')
def _(E, m, a, c0):
    x = a[0]; okc = z3.Or(z3.And(x >= 0, x < 0xD800), z3.And(x >= 0xE000, x <= 0x10FFFF))
    return opt(x) if E.branch(okc) else opt()
@exact('char::methods::<impl char>::from_digit', 'std::char::from_digit')
def _(E, m, a, c0):
    d, radix = a
    if E.branch(z3.Or(radix > 36, radix < 2)): raise Abort('from_digit: radix out of range')
    if not E.branch(d < radix): return opt()
    return opt(z3.If(d < 10, 48 + d, 87 + d))
@pattern(r'char::methods::<impl char>::(is_ascii_digit|is_alphabetic|is_alphanumeric|is_whitespace|is_ascii_alphabetic|is_ascii_alphanumeric|is_digit|is_ascii|is_ascii_hexdigit|is_numeric|is_ascii_whitespace|is_uppercase|is_lowercase)')
def _(E, m, a, c0):
    c = E.deref(a[0]); op = m.group(1)
    dig = z3.And(c >= 48, c <= 57); lo = z3.And(c >= 97, c <= 122); up = z3.And(c >= 65, c <= 90)
    ascii_ = c < 128
    if op == 'is_ascii_digit': return dig
    if op == 'is_ascii': return ascii_
    if op == 'is_ascii_alphabetic': return z3.Or(lo, up)
    if op == 'is_ascii_alphanumeric': return z3.Or(lo, up, dig)
    if op == 'is_ascii_hexdigit': return z3.Or(dig, z3.And(c >= 97, c <= 102), z3.And(c >= 65, c <= 70))
    if op == 'is_digit':
        v = z3.If(dig, c - 48, z3.If(lo, c - 87, c - 55)); return z3.And(z3.Or(dig, lo, up), v < a[1])
    # unicode classes: exact on ASCII, uninterpreted predicate beyond
    uf = z3.Function('char_' + op, ZI, z3.BoolSort())
    asc = {'is_alphabetic': z3.Or(lo, up), 'is_alphanumeric': z3.Or(lo, up, dig), 'is_numeric': dig,
           'is_whitespace': z3.Or(c == 32, z3.And(c >= 9, c <= 13)), 'is_ascii_whitespace': z3.Or(c == 32, c == 9, c == 10, c == 12, c == 13),
           'is_uppercase': up, 'is_lowercase': lo}[op]
    if op == 'is_ascii_whitespace': return asc
    return z3.If(ascii_, asc, uf(c))

# ------------------------------------------------------------------ structural PartialEq / PartialOrd (tuples, Vec/Rc<Vec>/slices): element-wise dispatch
def _elem_call(E, ty, trait, meth, x, y):
    ty = ty.strip()
    rx, ry = (x if isinstance(x, Ref) else Ref(Cell(x))), (y if isinstance(y, Ref) else Ref(Cell(y)))
    return E.call(None, None, f'<{ty} as {trait}>::{meth}', [rx, ry], [f'&{ty}', f'&{ty}'])
def _lex_eq(E, pairs):
    for ty, x, y in pairs:
        r = _elem_call(E, ty, 'PartialEq', 'eq', x, y)
        if not E.branch(r): return z3.BoolVal(False)
    return z3.BoolVal(True)
def _lex_cmp(E, pairs, la, lb):
    for ty, x, y in pairs:
        r = _elem_call(E, ty, 'PartialOrd', 'partial_cmp', x, y)
        if r.variant == 'None' or r.fields[0].variant != 'Equal': return r
    return opt(ordering(0 if la < lb else 1 if la == lb else 2))
def _sub(E, r, i):
    c, p = E.canon(r.cell, list(r.path) + [i]); return Ref(c, p)
@pattern(r'<\((.*)\) as (PartialEq|PartialOrd)>::(eq|ne|partial_cmp)')
def _(E, m, a, c0):
    tys = split_top(m.group(1)); x, y = a
    pairs = [(t, _sub(E, x, i), _sub(E, y, i)) for i, t in enumerate(tys)]
    if m.group(3) == 'partial_cmp': return _lex_cmp(E, pairs, 0, 0)
    r = _lex_eq(E, pairs); return r if m.group(3) == 'eq' else z3.Not(r)
def _seq_ref(E, r):
    """Ref to the Seq payload behind &Rc<Vec<T>> / &Vec<T> / &[T]"""
    v = E.deref(r)
    if isinstance(v, RcV): return Ref(v.obj.cell, [])
    if isinstance(v, Seq): return r
    raise Missing(f'sequence compare on {v!r}')
@pattern(r'<(?:std::rc::)?(?:Rc<)?(?:Vec<|\[)(.*?)[>\]]>? as (PartialEq|PartialOrd)(?:<.*>)?>::(eq|ne|partial_cmp)')
def _(E, m, a, c0):
    ty = m.group(1); x, y = _seq_ref(E, a[0]), _seq_ref(E, a[1])
    xs, ys = E.deref(x).fields, E.deref(y).fields
    if m.group(3) != 'partial_cmp':
        if len(xs) != len(ys): r = z3.BoolVal(False)
        else: r = _lex_eq(E, [(ty, _sub(E, x, i), _sub(E, y, i)) for i in range(len(xs))])
        return r if m.group(3) == 'eq' else z3.Not(r)
    n = min(len(xs), len(ys))
    return _lex_cmp(E, [(ty, _sub(E, x, i), _sub(E, y, i)) for i in range(n)], len(xs), len(ys))

# blanket impls `impl PartialEq<&B> for &A` etc.: forward through one reference level to the crate's impl
@pattern(r'<&(?:mut )?(&*(?:[a-z_]\w*::)*[A-Z][\w:]*(?:<.*>)?) as (PartialEq|PartialOrd|Ord)(?:<.*>)?>::(\w+)')
def _(E, m, a, c0):
    ty, trait, meth = m.groups()
    def one(x):
        if isinstance(x, Ref):
            inner = E.read(x.cell, x.path)
            if isinstance(inner, Ref): return inner
        return x
    args = [one(x) for x in a]
    return E.call(None, None, f'<{ty} as {trait}>::{meth}', args, [f'&{ty}'] * len(args))
@pattern(r'<bool as (Ord|PartialOrd)>::(cmp|partial_cmp)')
def _(E, m, a, c0):
    x, y = E.deref(a[0]), E.deref(a[1])
    k = E.choose([z3.And(z3.Not(x), y), x == y, z3.And(x, z3.Not(y))]); o = ordering(k)
    return o if m.group(2) == 'cmp' else opt(o)

@pattern(r'<Box<.*> as Drop>::drop|<Vec<.*> as Drop>::drop|<(std::rc::)?Rc<.*> as Drop>::drop_placeholder')
def _(E, m, a, c0): return UNIT       # deallocation only: the contents were moved out / are dropped by the explicit drop terminators
@pattern(r'<f64 as Signed>::(abs|is_positive|is_negative|signum)')
def _(E, m, a, c0):
    x = E.deref(a[0]); op = m.group(1)
    if op == 'abs': return F64(z3.If(x.kind == 2, 1, x.kind), z3.If(x.val < 0, -x.val, x.val), z3.BoolVal(False))
    if op == 'is_positive': return z3.Or(x.kind == 1, z3.And(x.kind == 3, z3.Not(x.signbit())))
    if op == 'is_negative': return z3.Or(x.kind == 2, z3.And(x.kind == 3, x.signbit()))
    return E.fop('signum', x)
