"""&str / String operations on sequences of (possibly symbolic) ASCII chars with concrete length.
A str is a Seq of z3 Int chars (or a Ref to one / to a sub-range of one).  Non-ASCII text is outside this model: harnesses
constrain symbolic chars to < 128 so that byte offsets and char offsets coincide."""
import re
import z3
from .core import *
from .models import exact, pattern, PATTERNS, _cache, zpow, in_i64
from .iters import pfirst, mk as mk_iter, rest

def sref(E, r):
    """-> (Ref to the Seq, list of chars)"""
    v = E.deref(r)
    if isinstance(v, Opaque) and v.tag.startswith('str:"'):
        body = v.tag[5:-1]
        body = body.encode().decode('unicode_escape') if '\\' in body else body
        s = Seq([z3.IntVal(ord(c)) for c in body]); return Ref(Cell(s)), s.fields
    if not isinstance(v, Seq): raise Missing(f'str operation on {v!r}'[:160])
    if isinstance(r, Ref):
        c, p = E.canon(r.cell, list(r.path)); return Ref(c, p), v.fields
    return Ref(Cell(v)), v.fields

def pat_chars(E, p):
    """a char / [char; N] / &str pattern -> list of alternatives (each a list of chars to match consecutively)"""
    p = E.deref(p) if isinstance(p, Ref) else p
    if z3.is_expr(p): return [[p]]
    if isinstance(p, Seq): return [[c] for c in p.fields]          # [char; N]: any of
    if isinstance(p, Opaque) and p.tag.startswith('str:"'): return [[z3.IntVal(ord(c)) for c in p.tag[5:-1]]]
    raise Missing(f'str pattern {p!r}'[:120])

def match_at(E, cs, i, alts):
    conds = []
    for alt in alts:
        if i + len(alt) > len(cs): continue
        conds.append(z3.And(*[cs[i + k] == alt[k] for k in range(len(alt))]))
    return z3.Or(*conds) if conds else z3.BoolVal(False)

@pattern(r'core::str::<impl str>::(find|rfind|contains|starts_with|ends_with)')
def _(E, m, a, c0):
    r, cs = sref(E, a[0]); alts = pat_chars(E, a[1]); op = m.group(1)
    if op == 'starts_with': return match_at(E, cs, 0, alts)
    if op == 'ends_with': return z3.Or(*[match_at(E, cs, len(cs) - len(alt), [alt]) for alt in alts if len(alt) <= len(cs)] + [z3.BoolVal(False)])
    order = range(len(cs)) if op != 'rfind' else reversed(range(len(cs)))
    for i in order:
        if E.branch(match_at(E, cs, i, alts)): return z3.BoolVal(True) if op == 'contains' else opt(z3.IntVal(i))
    return z3.BoolVal(False) if op == 'contains' else opt()
@pattern(r'core::str::<impl str>::(strip_prefix|strip_suffix)')
def _(E, m, a, c0):
    r, cs = sref(E, a[0]); alts = pat_chars(E, a[1]); alt = alts[0]
    if len(alts) != 1:
        if any(len(x) != 1 for x in alts): raise Missing('strip with a multi-alternative multi-char pattern')
        pos = 0 if m.group(1) == 'strip_prefix' else len(cs) - 1       # [char; N] pattern: any of the chars
        if cs and E.branch(z3.Or(*[cs[pos] == x[0] for x in alts])):
            return opt(Ref(r.cell, list(r.path) + [('sub', 1, 0) if pos == 0 else ('sub', 0, 1)]))
        return opt()
    if m.group(1) == 'strip_prefix':
        if len(alt) <= len(cs) and E.branch(match_at(E, cs, 0, [alt])): return opt(Ref(r.cell, list(r.path) + [('sub', len(alt), 0)]))
        return opt()
    if len(alt) <= len(cs) and E.branch(match_at(E, cs, len(cs) - len(alt), [alt])): return opt(Ref(r.cell, list(r.path) + [('sub', 0, len(alt))]))
    return opt()
@pattern(r'<str as (?:std::ops::)?Index(?:Mut)?<(?:std::ops::)?(Range|RangeFrom|RangeTo|RangeFull|RangeInclusive)(?:<usize>)?>>::index(?:_mut)?|core::str::<impl str>::get')
def _(E, m, a, c0):
    r, cs = sref(E, a[0]); n = len(cs); rg = E.deref(a[1])
    lo, hi = z3.IntVal(0), z3.IntVal(n)
    ty = rg.ty.split('::')[-1]
    if ty == 'Range': lo, hi = rg.fields
    elif ty == 'RangeFrom': lo = rg.fields[0]
    elif ty == 'RangeTo': hi = rg.fields[0]
    elif ty == 'RangeInclusive': lo, hi = rg.fields[0], rg.fields[1] + 1
    bad = z3.Or(lo > hi, hi > n, lo < 0)
    if E.branch(bad):
        if 'get' in c0: return opt()
        raise Abort('str slice index out of range')
    l = E.concretize(lo, 0, n); h = E.concretize(hi, l, n)
    sub = Ref(r.cell, list(r.path) + [('sub', l, n - h)])
    return opt(sub) if 'get' in c0 and '::get' in c0 else sub
@pattern(r'core::str::<impl str>::(len|is_empty)')
def _(E, m, a, c0):
    r, cs = sref(E, a[0]); return z3.IntVal(len(cs)) if m.group(1) == 'len' else z3.BoolVal(len(cs) == 0)
@pattern(r'core::str::<impl str>::(chars|bytes|char_indices)')
def _(E, m, a, c0):
    r, cs = sref(E, a[0])
    if m.group(1) == 'bytes': return mk_iter(cs)
    vals = [z3.simplify(c) for c in cs]
    if all(z3.is_int_value(v) for v in vals) and any(v.as_long() >= 128 for v in vals):
        # concrete non-ASCII text: decode the UTF-8 bytes into chars
        try: text = bytes(v.as_long() for v in vals).decode('utf-8')
        except Exception: raise Missing('str::chars on invalid UTF-8')
        if m.group(1) == 'char_indices':
            out = []; off = 0
            for ch in text: out.append(Tup([z3.IntVal(off), z3.IntVal(ord(ch))])); off += len(ch.encode())
            return mk_iter(out)
        return mk_iter([z3.IntVal(ord(ch)) for ch in text])
    if m.group(1) == 'char_indices': return mk_iter([Tup([z3.IntVal(i), c]) for i, c in enumerate(cs)])
    return mk_iter(cs)
@pfirst(r'<(?:std::str::)?(Chars|Bytes|CharIndices)(?:<.*>)? as (?:Iterator|DoubleEndedIterator)>::(next|next_back)')
def _(E, m, a, c0):
    it = E.deref(a[0]); items, pos = it.fields[0], it.fields[1]
    if pos >= len(items.fields): return opt()
    if m.group(2) == 'next_back':
        E.wr(a[0], Adt('Iter', None, [Seq(items.fields[:-1]), pos, it.fields[2]])); return opt(items.fields[-1])
    E.wr(a[0], Adt('Iter', None, [items, pos + 1, it.fields[2]])); return opt(items.fields[pos])
@pfirst(r'<(?:std::str::)?(Chars|Bytes|CharIndices)(?:<.*>)? as IntoIterator>::into_iter')
def _(E, m, a, c0): return a[0]
# Peekable<Chars>: a cursor Adt('PeekChars', None, [Seq chars, python index])
@pfirst(r'<(?:std::iter::)?Peekable<.*> as Iterator>::next')
def _(E, m, a, c0):
    p = E.deref(a[0]); chars, idx = p.fields
    if idx >= len(chars.fields): return opt()
    E.wr(a[0], Adt('PeekChars', None, [chars, idx + 1])); return opt(chars.fields[idx])
@pfirst(r'(?:std::iter::)?Peekable::peek')
def _(E, m, a, c0):
    p = E.deref(a[0]); chars, idx = p.fields
    return opt(Ref(Cell(chars.fields[idx]))) if idx < len(chars.fields) else opt()
@pfirst(r'<.* as Iterator>::peekable')
def _(E, m, a, c0): return Adt('PeekChars', None, [Seq(rest(E, a[0])), 0])
def _ws(c): return z3.Or(c == 32, z3.And(c >= 9, c <= 13))
@pattern(r'core::str::<impl str>::(trim|trim_start|trim_end)')
def _(E, m, a, c0):
    r, cs = sref(E, a[0]); n = len(cs); l = 0; h = n; op = m.group(1)
    if op in ('trim', 'trim_start'):
        while l < h and E.branch(_ws(cs[l])): l += 1
    if op in ('trim', 'trim_end'):
        while h > l and E.branch(_ws(cs[h - 1])): h -= 1
    return Ref(r.cell, list(r.path) + [('sub', l, n - h)])

def parse_int(E, cs, allow_sign=True):
    """decimal integer syntax of Rust's FromStr for integers / num-bigint: [+-]digit+ ; -> (valid, value) with forks on the char classes"""
    i = 0; neg = False
    if not cs: return False, None
    if allow_sign:
        k = E.choose([cs[0] == 45, cs[0] == 43, z3.And(cs[0] != 45, cs[0] != 43)])
        if k == 0: neg = True; i = 1
        elif k == 1: i = 1
    if i >= len(cs): return False, None
    val = z3.IntVal(0)
    for c in cs[i:]:
        if not E.branch(z3.And(c >= 48, c <= 57)): return False, None
        val = val * 10 + (c - 48)
    return True, (-val if neg else val)
@pattern(r'core::str::<impl str>::parse::<(i32|i64|u32|u64|usize|isize|u8|BigInt)>|core::str::<impl str>::parse|<(i32|i64|u32|u64|usize|isize|u8|BigInt) as FromStr>::from_str')
def _(E, m, a, c0):
    mm = re.search(r'parse::<(\w+)>', c0) or re.search(r'^<(\w+) as FromStr', c0)
    if not mm: raise Missing('str::parse with unknown target ' + c0)
    ty = mm.group(1); r, cs = sref(E, a[0])
    if ty in ('f64', 'f32'):
        # digit strings only: the nearest double to the integer they spell (the same uninterpreted rounding as BigInt::to_f64); anything else is outside the model
        from .models import UF_BIG2F
        okk, val = parse_int(E, cs, allow_sign=True)
        if not okk: raise Missing('float parsing (std dec2flt) of a non-integer text is outside the model')
        return ok(F64(3, UF_BIG2F(val), z3.BoolVal(False)))
    okk, val = parse_int(E, cs, allow_sign=True)
    if not okk: return err(Opaque('ParseError'))
    if ty != 'BigInt':
        lo, hi = int_bounds(ty)
        if lo == 0 and E.branch(val < 0): return err(Opaque('ParseError'))        # "-0" parses for unsigned? (Rust rejects a leading '-' for unsigned types)
        if not E.branch(z3.And(val >= lo, val <= hi)): return err(Opaque('ParseError'))
    return ok(val)
