"""More std models used by the builtin sweep (C14): String mutation, small str utilities, HashMap/HashSet extras, generic
IntoIterator identity.  Imported last so that the general patterns here are consulted after every specific one.
Strings are byte sequences restricted to ASCII (see strmodels)."""
import re
import z3
from .core import *
from .models import exact, pattern, _seq, _collect, _drain
from .strmodels import sref, _ws
from .hashmap import hm, entries_of, _mapref, find, key_match, HM
from .iters import mk as mk_iter, rest

SMALL = 3          # symbolic repeat counts / fill lengths are followed up to this bound; beyond it the path is "not encoded"
def small_count(E, n, what):
    """python int for a (possibly symbolic) non-negative count, forking over 0..SMALL; larger values are outside the encoding"""
    n = z3.simplify(n) if z3.is_expr(n) else z3.IntVal(n)
    if z3.is_int_value(n):
        if n.as_long() > 64: raise Missing(f'{what}: count {n.as_long()} > 64')
        return n.as_long()
    for k in range(SMALL + 1):
        if E.branch(n == k): return k
    raise Missing(f'{what}: symbolic count above {SMALL}')

STR = r'(?:std::string::)?String'
@pattern(r'<' + STR + r' as AddAssign<&str>>::add_assign|' + STR + r'::push_str')
def _(E, m, a, c0):
    def opaque_src(x):
        v = E.deref(x) if isinstance(x, Ref) else x
        return isinstance(v, Opaque) and not v.tag.startswith('str:"')
    if opaque_src(a[0]) or opaque_src(a[1]):
        # a formatted piece (fmt::format is opaque) makes the whole String opaque
        E.wr(a[0], Opaque('string')); return UNIT
    v = _seq(E, a[0]); r, cs = sref(E, a[1]); E.wr(a[0], Seq(list(v.fields) + list(cs))); return UNIT
@pattern(r'<' + STR + r' as Add<&str>>::add')
def _(E, m, a, c0):
    r, cs = sref(E, a[1]); return Seq(list(a[0].fields) + list(cs))
@pattern(STR + r'::pop')
def _(E, m, a, c0):
    v = _seq(E, a[0])
    if not v.fields: return opt()
    E.wr(a[0], Seq(list(v.fields[:-1]))); return opt(v.fields[-1])
@pattern(STR + r'::remove')
def _(E, m, a, c0):
    v = _seq(E, a[0]); n = len(v.fields)
    if E.branch(z3.Or(a[1] >= n, a[1] < 0)): raise Abort('String::remove: index out of bounds')
    i = E.concretize(a[1], 0, n - 1); f = list(v.fields); x = f.pop(i); E.wr(a[0], Seq(f)); return x
@pattern(STR + r'::insert')
def _(E, m, a, c0):
    v = _seq(E, a[0]); n = len(v.fields)
    if E.branch(z3.Or(a[1] > n, a[1] < 0)): raise Abort('String::insert: index out of bounds')
    i = E.concretize(a[1], 0, n); f = list(v.fields); f.insert(i, a[2]); E.wr(a[0], Seq(f)); return UNIT
@pattern(STR + r'::truncate')
def _(E, m, a, c0):
    v = _seq(E, a[0]); n = len(v.fields)
    if E.branch(a[1] >= n): return UNIT
    k = E.concretize(a[1], 0, n); E.wr(a[0], Seq(list(v.fields[:k]))); return UNIT
@pattern(STR + r'::drain::<(?:std::ops::)?RangeFull>|' + STR + r'::drain')
def _(E, m, a, c0):
    if 'RangeFull' not in c0: raise Missing('String::drain with a bounded range')
    v = _seq(E, a[0]); E.wr(a[0], Seq([])); return mk_iter(list(v.fields))
@pattern(r'<(?:std::string::)?Drain<.*> as Iterator>::next')
def _(E, m, a, c0):
    it = E.deref(a[0]); items, pos = it.fields[0], it.fields[1]
    if pos >= len(items.fields): return opt()
    E.wr(a[0], Adt('Iter', None, [items, pos + 1, it.fields[2]])); return opt(items.fields[pos])
ISIZE_MAX = 2**63 - 1
_SIZES = {'u8': 1, 'i8': 1, 'bool': 1, 'u16': 2, 'i16': 2, 'u32': 4, 'i32': 4, 'char': 4, 'f32': 4, 'u64': 8, 'i64': 8, 'usize': 8, 'isize': 8, 'f64': 8, 'u128': 16, 'i128': 16}
def size_of(E, ty):
    """size in bytes of an element type: known for primitives, otherwise one uninterpreted constant per type in 1..4096 (no crate type used as a Vec element is zero-sized)"""
    ty = (ty or '?').strip()
    if ty in _SIZES: return z3.IntVal(_SIZES[ty])
    c = z3.Int('sizeof_' + re.sub(r'\W+', '_', ty)); E.assume(c >= 1, c <= 4096); return c
def elem_ty(c0, default='?'):
    m = re.search(r'::<(.*)>', c0)
    return m.group(1) if m else default
def capacity_check(E, count, size, what):
    """std: a Vec / String whose byte size would exceed isize::MAX panics with `capacity overflow`"""
    if E.branch(count * size > ISIZE_MAX): raise Abort(f'capacity overflow ({what})')
def opaque_len(E):
    """byte length of an opaque (formatted) string: an arbitrary small number — the count is what drives the capacity check"""
    E._olen = getattr(E, '_olen', 0) + 1
    c = z3.Int(f'fmtlen{E._olen}'); E.assume(c >= 0, c <= 16); return c
@pattern(r'(?:core::)?str::<impl str>::repeat')
def _(E, m, a, c0):
    v = E.deref(a[0]) if isinstance(a[0], Ref) else a[0]
    if isinstance(v, Opaque) and not v.tag.startswith('str:"'):
        capacity_check(E, a[1], opaque_len(E), 'str::repeat'); return Opaque('string')
    r, cs = sref(E, a[0])
    capacity_check(E, a[1], len(cs), 'str::repeat')
    if not cs: return Seq([])
    if z3.is_expr(a[1]) and not z3.is_int_value(z3.simplify(a[1])) and E.branch(a[1] > SMALL): return Opaque('string')
    return Seq(list(cs) * small_count(E, a[1], 'str::repeat'))
@pattern(r'std::vec::from_elem::<.*>|std::vec::from_elem')
def _(E, m, a, c0):
    capacity_check(E, a[1], size_of(E, elem_ty(c0)), 'vec![x; n]')
    if z3.is_expr(a[1]) and not z3.is_int_value(z3.simplify(a[1])) and E.branch(a[1] > SMALL): return Opaque('vec:long')
    return Seq([E.clone_value(a[0]) for _ in range(small_count(E, a[1], 'vec![x; n]'))])
@pattern(r'Vec::<.*>::(try_reserve|try_reserve_exact)|Vec::(try_reserve|try_reserve_exact)|' + STR + r'::(try_reserve|try_reserve_exact)')
def _(E, m, a, c0):
    # Err(CapacityOverflow) when the byte size would exceed isize::MAX; Err(AllocError) whenever the allocator refuses (arbitrary); Ok otherwise
    size = z3.IntVal(1) if 'String' in c0.split('::try_')[0] else size_of(E, elem_ty(c0))
    v = E.deref(a[0]); have = len(v.fields) if isinstance(v, Seq) else 0
    if E.branch((a[1] + have) * size > ISIZE_MAX): return err(Opaque('TryReserveError'))
    k = E.choose([z3.BoolVal(True), z3.BoolVal(True)])
    return ok(UNIT) if k == 0 else err(Opaque('TryReserveError'))
@pattern(r'Vec::<.*>::capacity|Vec::capacity|' + STR + r'::capacity')
def _(E, m, a, c0):
    # the capacity is allocator state the model does not track: any value >= len
    v = E.deref(a[0]); n = len(v.fields) if isinstance(v, Seq) else 0
    E._olen = getattr(E, '_olen', 0) + 1
    c = z3.Int(f'capacity{E._olen}'); E.assume(c >= n, c <= 2**62); return c
@pattern(r'Vec::<.*>::(shrink_to_fit|shrink_to)|Vec::(shrink_to_fit|shrink_to)|' + STR + r'::(shrink_to_fit|shrink_to)')
def _(E, m, a, c0):
    # shrinking reallocates: the whole buffer is copied (an O(n) step, logged like a clone of the payload)
    E.log.append(('realloc', 'Vec::shrink')); return UNIT
@pattern(r'Vec::<.*>::resize|Vec::resize')
def _(E, m, a, c0):
    v = _seq(E, a[0]); n = len(v.fields)
    if z3.is_expr(a[1]) and not z3.is_int_value(z3.simplify(a[1])) and E.branch(a[1] > SMALL):
        capacity_check(E, a[1], size_of(E, elem_ty(c0)), 'Vec::resize'); E.wr(a[0], Opaque('vec:long')); return UNIT
    k = small_count(E, a[1], 'Vec::resize')
    E.wr(a[0], Seq(list(v.fields[:k]) + [E.clone_value(a[2]) for _ in range(max(0, k - n))])); return UNIT
def _lower(c): return z3.If(z3.And(c >= 65, c <= 90), c + 32, c)
def _upper(c): return z3.If(z3.And(c >= 97, c <= 122), c - 32, c)
@pattern(r'(?:core::)?str::<impl str>::(to_lowercase|to_uppercase|to_ascii_lowercase|to_ascii_uppercase)')
def _(E, m, a, c0):
    r, cs = sref(E, a[0]); f = _lower if 'lower' in m.group(1) else _upper; return Seq([f(c) for c in cs])
@pattern(r'<char as ToString>::to_string|<' + STR + r' as From<char>>::from')
def _(E, m, a, c0): return Seq([E.deref(a[0]) if isinstance(a[0], Ref) else a[0]])

def _split(E, r, cs, is_sep, keep_empty, drop_last_empty=False):
    """pieces of the str at Ref r (chars cs) cut at separator chars; forks once per char"""
    n = len(cs); out = []; start = 0
    def piece(l, h): return Ref(r.cell, list(r.path) + [('sub', l, n - h)])
    for i, c in enumerate(cs):
        if E.branch(is_sep(c)):
            if keep_empty or i > start: out.append(piece(start, i))
            start = i + 1
    if start < n or (keep_empty and not drop_last_empty): out.append(piece(start, n))
    return out
@pattern(r'(?:core::)?str::<impl str>::split_whitespace')
def _(E, m, a, c0):
    r, cs = sref(E, a[0]); return mk_iter(_split(E, r, cs, _ws, False))
@pattern(r'(?:core::)?str::<impl str>::(split_terminator|split)::<char>')
def _(E, m, a, c0):
    r, cs = sref(E, a[0]); sep = a[1]
    return mk_iter(_split(E, r, cs, lambda c: c == sep, True, drop_last_empty=(m.group(1) == 'split_terminator')))
@pattern(r'(?:core::)?str::<impl str>::lines')
def _(E, m, a, c0):
    r, cs = sref(E, a[0]); return mk_iter(_split(E, r, cs, lambda c: c == 10, True, drop_last_empty=True))
@pattern(r'<(?:std::str::)?(SplitWhitespace|SplitTerminator|Split|Lines)(?:<.*>)? as Iterator>::next')
def _(E, m, a, c0):
    it = E.deref(a[0]); items, pos = it.fields[0], it.fields[1]
    if pos >= len(items.fields): return opt()
    E.wr(a[0], Adt('Iter', None, [items, pos + 1, it.fields[2]])); return opt(items.fields[pos])

def _lexcmp(E, xs, ys):
    for x, y in zip(xs, ys):
        k = E.choose([x < y, x == y, x > y])
        if k == 0: return 'Less'
        if k == 2: return 'Greater'
    return 'Less' if len(xs) < len(ys) else 'Greater' if len(xs) > len(ys) else 'Equal'
@pattern(r'<(?:std::rc::)?Rc<' + STR + r'> as (PartialOrd|Ord)>::(partial_cmp|cmp)|<' + STR + r' as (PartialOrd|Ord)>::(partial_cmp|cmp)|<str as (PartialOrd|Ord)>::(partial_cmp|cmp)')
def _(E, m, a, c0):
    def chars(x):
        v = E.deref(x)
        if isinstance(v, RcV): v = v.obj.cell.v
        if isinstance(v, Seq): return list(v.fields)
        return sref(E, x)[1]
    o = Adt('Ordering', _lexcmp(E, chars(a[0]), chars(a[1])), [])
    return opt(o) if 'partial_cmp' in c0 else o

# a call through the Fn traits of a generic / `impl Fn…` parameter: invoke the closure value that was passed
@pattern(r'<.* as Fn(Once|Mut)?<.*>>::call(_once|_mut)?')
def _(E, m, a, c0):
    f = E.deref(a[0]) if isinstance(a[0], Ref) else a[0]
    if not isinstance(f, (Closure, FnItem)): return NotImplemented
    return E.call_closure(f, list(a[1].fields) if isinstance(a[1], Tup) else [a[1]])

# the provided method PartialEq::ne of a crate type: the negation of its eq
@pattern(r'<((?:[a-z_]\w*::)*[A-Z]\w*(?:<.*>)?) as PartialEq(<.*>)?>::ne')
def _(E, m, a, c0):
    r = E.call(None, None, f'<{m.group(1)} as PartialEq{m.group(2) or ""}>::eq', list(a), [None] * len(a))
    return z3.Not(r)
@pattern(r'(?:std::collections::hash_map::)?OccupiedEntry::key')
def _(E, m, a, c0):
    e = E.deref(a[0]); mr, i = e.fields; c, p = E.canon(mr.cell, list(mr.path) + [0, i, 0]); return Ref(c, p)
@pattern(r'<.* as Iterator>::(min_by_key|max_by_key)')
def _(E, m, a, c0):
    # only used to pick a name for a "did you mean" hint inside an (opaque) error message: any element
    xs = rest(E, a[0]); return opt(xs[0]) if xs else opt()

# RefCell guards: a guard is represented by the reference to the cell's content
@pattern(r'<(?:std::cell::)?Ref(Mut)?<.*> as Deref(Mut)?>::deref(_mut)?')
def _(E, m, a, c0):
    inner = E.read(a[0].cell, a[0].path) if isinstance(a[0], Ref) else a[0]          # one level: the guard itself is a reference
    return inner if isinstance(inner, Ref) else a[0]

# enum constructors of std used as function values (`.map(Ok)`, `.map(Some)`)
@pattern(r'(?:std::result::)?Result::(Ok|Err)|(?:std::option::)?Option::(Some)')
def _(E, m, a, c0):
    if m.group(2): return opt(a[0])
    return ok(a[0]) if m.group(1) == 'Ok' else err(a[0])

# a formatted string (fmt::format is opaque) appended to a String makes the whole String opaque
def _opaque_src(E, x):
    v = E.deref(x) if isinstance(x, Ref) else x
    return isinstance(v, Opaque) and not v.tag.startswith('str:"')

# ------------------------------------------------------------------ HashMap / HashSet extras
@pattern(HM + r'::(into_keys|into_values)')
def _(E, m, a, c0):
    k = 0 if m.group(1) == 'into_keys' else 1
    return mk_iter([e.fields[k] for e in entries_of(a[0])])
@pattern(r'<(?:std::collections::hash_map::)?(IntoKeys|IntoValues)<.*> as Iterator>::next')
def _(E, m, a, c0):
    it = E.deref(a[0]); items, pos = it.fields[0], it.fields[1]
    if pos >= len(items.fields): return opt()
    E.wr(a[0], Adt('Iter', None, [items, pos + 1, it.fields[2]])); return opt(items.fields[pos])
@pattern(HM + r'::clear')
def _(E, m, a, c0):
    E.wr(_mapref(E, a[0]), hm()); return UNIT
@pattern(HM + r'::remove_entry')
def _(E, m, a, c0):
    mr = _mapref(E, a[0]); i = find(E, mr, a[1]); mp = E.deref(mr)
    if i is None: return opt()
    es = entries_of(mp); e = es[i]; E.wr(mr, hm(es[:i] + es[i+1:])); return opt(Tup([e.fields[0], e.fields[1]]))
@pattern(HM + r'::retain')
def _(E, m, a, c0):
    mr = _mapref(E, a[0]); mp = E.deref(mr); es = list(entries_of(mp)); keep = []
    for e in es:
        kc, vc = Cell(e.fields[0]), Cell(e.fields[1])
        r = E.call_closure(a[1], [Ref(kc), Ref(vc)])
        if E.branch(r): keep.append(Tup([kc.v, vc.v]))
    E.wr(mr, hm(keep)); return UNIT
@pattern(r'<' + HM + r'<.*> as Extend<.*>>::extend|' + HM + r'::extend')
def _(E, m, a, c0):
    mr = _mapref(E, a[0])
    for item in _collect(E, a[1]):
        item = E.deref(item) if isinstance(item, Ref) else item
        k, v = item.fields; i = find(E, mr, k); mp = E.deref(mr)
        if i is not None:
            c, p = E.canon(mr.cell, list(mr.path) + [0, i, 1]); E.wr(Ref(c, p), v)
        else: E.wr(mr, hm(entries_of(mp) + [Tup([k, v])]))
    return UNIT
@pattern(r'<(?:std::collections::hash_map::)?(Values|Keys|Iter|IntoIter|Drain|IntoKeys|IntoValues)<.*> as IntoIterator>::into_iter')
def _(E, m, a, c0): return a[0]
HS = r'(?:std::collections::)?(?:hash_set::)?HashSet'
@pattern(HS + r'::new|' + HS + r'::with_capacity|<' + HS + r'<.*> as Default>::default')
def _(E, m, a, c0): return hm()
@pattern(HS + r'::insert')
def _(E, m, a, c0):
    mr = _mapref(E, a[0]); i = find(E, mr, a[1]); mp = E.deref(mr)
    if i is not None: return z3.BoolVal(False)
    E.wr(mr, hm(entries_of(mp) + [Tup([a[1], UNIT])])); return z3.BoolVal(True)
@pattern(HS + r'::contains')
def _(E, m, a, c0): return z3.BoolVal(find(E, _mapref(E, a[0]), a[1]) is not None)
@pattern(HS + r'::(len|is_empty)')
def _(E, m, a, c0):
    n = len(entries_of(E.deref(_mapref(E, a[0])))); return z3.IntVal(n) if m.group(1) == 'len' else z3.BoolVal(n == 0)

# ------------------------------------------------------------------ IntoIterator for a type that is itself an Iterator (blanket impl): identity.
# noulith defines no IntoIterator impls of its own, so for a crate type this is the only possibility.
@pattern(r'<(?!&)(?:core::)?[A-Z]\w*(?:<.*>)? as IntoIterator>::into_iter')
def _(E, m, a, c0):
    if isinstance(a[0], (Adt, BoxV)) and not (isinstance(a[0], Adt) and a[0].ty in ('HashMap',)): return a[0]
    return NotImplemented
