"""Environment stubs for the codec crates (flate2, base64): the documented contract of the call with an arbitrary result.

These crates are outside the crate under test. A call returns an arbitrary value of its type, constrained only by the
documented contract: a fallible decoder forks into `Ok(arbitrary bytes)` and `Err(opaque error)`; an encoder that reads an
in-memory slice cannot fail (flate2: the only error source of `read::GzEncoder<R>` is `R`, and `&[u8]` never fails).
The produced bytes are `ENV_OUT_LEN` fresh symbolic bytes (the property never depends on their number)."""
import re
import z3
from .core import *
from .models import exact, pattern

ENV_OUT_LEN = 2

def _fresh_bytes(E, tag, n=ENV_OUT_LEN):
    out = []
    for _ in range(n):
        b = E.fresh(tag); E.assume(b >= 0, b <= 255); out.append(b)
    return out

@pattern(r'flate2::read::(GzDecoder|GzEncoder)(?:::<&\[u8\]>)?::new')
def _(E, m, a, c0): return Adt('flate2_' + m.group(1), None, [a[0]])
@exact('Compression::fast', 'Compression::best', 'Compression::default', 'Compression::none')
def _(E, m, a, c0): return Opaque('flate2::Compression')

@pattern(r'<flate2::read::(GzDecoder|GzEncoder)<&\[u8\]> as std::io::Read>::read_to_end')
def _(E, m, a, c0):
    """io::Read::read_to_end: appends what was read to the Vec, Ok(number of bytes) or Err"""
    E.log.append(('env_stub', 'flate2::read::' + m.group(1) + '::read_to_end'))
    fallible = m.group(1) == 'GzDecoder'        # invalid / truncated gzip data -> Err(InvalidInput | InvalidData | UnexpectedEof)
    if fallible and E.choose([True, True]) == 1:
        return err(Opaque('io::Error'))
    v = E.deref(a[1]); bs = _fresh_bytes(E, 'gz_out')
    E.wr(a[1], Seq(list(v.fields) + bs))
    return ok(z3.IntVal(len(bs)))

@pattern(r'(?:base64::)?decode(?:::<.*>)?')
def _(E, m, a, c0):
    E.log.append(('env_stub', 'base64::decode'))
    if E.choose([True, True]) == 1: return err(Opaque('base64::DecodeError'))
    return ok(Seq(_fresh_bytes(E, 'b64_out')))
@pattern(r'(?:base64::)?encode(?:::<.*>)?')
def _(E, m, a, c0):
    E.log.append(('env_stub', 'base64::encode'))
    cs = []
    for _ in range(ENV_OUT_LEN):
        c = E.fresh('b64_chr'); E.assume(c >= 43, c <= 122); cs.append(c)       # '+' .. 'z': the base64 alphabet is ASCII
    return Seq(cs)

# ------------------------------------------------------------------ small std pieces used by the codec builtins
from .iters import mk as _mk_iter
@pattern(r'core::slice::<impl \[.*\]>::chunks')
def _(E, m, a, c0):
    """read-only chunks of a concrete-length slice (the chunk size is concrete in the callers; 0 panics like std)"""
    v = E.deref(a[0]); n = z3.simplify(a[1])
    if not z3.is_int_value(n): raise Missing('chunks with a symbolic size')
    n = n.as_long()
    if n == 0: raise Abort('chunk size must be non-zero')
    fs = list(v.fields)
    return _mk_iter([Ref(Cell(Seq(fs[i:i + n]))) for i in range(0, len(fs), n)])


# ------------------------------------------------------------------ std::io handles (Env::empty builds a TopEnv with an empty reader and a sink): opaque
@exact('io::empty', 'std::io::empty', 'io::sink', 'std::io::sink', 'empty', 'sink')
def _(E, m, a, c0):
    if a: return NotImplemented
    return Opaque('io::' + c0.split('::')[-1])

# ------------------------------------------------------------------ slice::sort_by / sort_unstable_by / Vec::dedup (concrete length, symbolic elements)
from .models import _elem_call
@pattern(r'(?:core|std)::slice::<impl \[(.*)\]>::(sort_by|sort_unstable_by)(?:::<.*>)?')
def _(E, m, a, c0):
    """the stable sorted permutation by insertion sort: the comparator closure is called on references and decides (it forks on
    symbolic data); for a comparator that is a strict weak order this is exactly what the std merge sort returns (sort_by is
    stable; for sort_unstable_by the order of equal elements is unspecified, so callers that depend on it are outside)"""
    v = E.deref(a[0]); xs = list(v.fields); out = []
    for x in xs:
        j = len(out)
        while j > 0:
            o = E.call_closure(a[1], [Ref(Cell(out[j - 1])), Ref(Cell(x))])
            if not (isinstance(o, Adt) and o.ty == 'Ordering'): raise Missing('sort_by: comparator result ' + repr(o)[:80])
            if o.variant != 'Greater': break
            j -= 1
        out.insert(j, x)
    E.wr(a[0], Seq(out)); return UNIT
@pattern(r'Vec::<(.*)>::dedup|Vec::dedup')
def _(E, m, a, c0):
    mm = re.search(r'Vec::<(.*)>::dedup', c0)
    if not mm: raise Missing('Vec::dedup without an element type')
    ty = mm.group(1); v = E.deref(a[0]); out = []
    for x in v.fields:
        if out and E.branch(_elem_call(E, ty, 'PartialEq', 'eq', x, out[-1])): E.drop_value(x); continue          # std: same_bucket(current, previous kept)
        out.append(x)
    E.wr(a[0], Seq(out)); return UNIT

@pattern(r'Option::<Option<.*>>::flatten|Option::flatten')
def _(E, m, a, c0):
    x = a[0]
    return x.fields[0] if x.variant == 'Some' else opt()

# ------------------------------------------------------------------ lazy_static character sets (lex.rs: OPERATOR_SYMBOLS): the set of characters spelled in the source
from .iters import pfirst as _pfirst
from .hashmap import find, _mapref
import os as _os
def _charset_from_source(name):
    from lib.common import REPO
    for fn in ('lex.rs', 'core.rs', 'lib.rs'):
        try: src = open(_os.path.join(REPO, 'src', fn), encoding='utf-8').read()
        except OSError: continue
        m = re.search(r'static ref ' + name + r': HashSet<char> = "((?:[^"\\]|\\.)*)"', src)
        if m: return sorted(set(ord(ch) for ch in m.group(1)))
    raise Missing(f'lazy_static {name}: definition not found in the source')
@_pfirst(r'<(?:[\w:<>\']*::)?(OPERATOR_SYMBOLS) as Deref>::deref')
def _(E, m, a, c0): return Ref(Cell(Adt('CharSet', None, [_charset_from_source(m.group(1))])))
@_pfirst(r'(?:std::collections::)?(?:hash_set::)?HashSet::<char>::contains(?:::<char>)?|(?:std::collections::)?(?:hash_set::)?HashSet::contains')
def _(E, m, a, c0):
    v = E.deref(a[0])
    if not (isinstance(v, Adt) and v.ty == 'CharSet'):
        # any other HashSet (e.g. HashSet<String> in freeze): the generic association-list membership (this model is registered with
        # priority and the dispatcher takes the first match only, so it has to serve both)
        return z3.BoolVal(find(E, _mapref(E, a[0]), a[1]) is not None)
    c = E.deref(a[1])
    return z3.Or(*[c == k for k in v.fields[0]])

@pattern(r'<(?:num::bigint::|num_bigint::)?Sign as PartialEq>::(eq|ne)')
def _(E, m, a, c0):
    x, y = E.deref(a[0]), E.deref(a[1]); same = x.variant == y.variant
    return z3.BoolVal(same if m.group(1) == 'eq' else not same)
