"""HashSet as an association list with unit values (same representation as the HashMap model; membership by key_match)."""
import re
import z3
from .core import *
from .models import pattern, _collect
from .hashmap import hm, entries_of, _mapref, find
from .iters import mk as mk_iter, rest

HS = r'(?:std::collections::)?(?:hash_set::)?HashSet'
def _keys(E, r): return [e.fields[0] for e in entries_of(E.deref(_mapref(E, r)))]
def _insert(E, mr, k):
    if find(E, mr, k) is None: E.wr(mr, hm(entries_of(E.deref(mr)) + [Tup([k, UNIT])]))
@pattern(r'<' + HS + r'<.*> as Clone>::clone')
def _(E, m, a, c0): return E.clone_value(E.deref(a[0]))
@pattern(HS + r'::(intersection|difference|union)')
def _(E, m, a, c0):
    xs = _keys(E, a[0]); yr = _mapref(E, a[1]); op = m.group(1)
    if op == 'intersection': out = [k for k in xs if find(E, yr, k) is not None]
    elif op == 'difference': out = [k for k in xs if find(E, yr, k) is None]
    else:
        xr = _mapref(E, a[0]); out = list(xs) + [k for k in _keys(E, a[1]) if find(E, xr, k) is None]
    return mk_iter([Ref(Cell(k)) for k in out])
@pattern(r'<(?:std::collections::hash_set::)?(Intersection|Difference|Union|Iter|IntoIter|Drain)<.*> as Iterator>::next')
def _(E, m, a, c0):
    it = E.deref(a[0]); items, pos = it.fields[0], it.fields[1]
    if pos >= len(items.fields): return opt()
    E.wr(a[0], Adt('Iter', None, [items, pos + 1, it.fields[2]])); return opt(items.fields[pos])
@pattern(r'<' + HS + r'<.*> as Extend<.*>>::extend|' + HS + r'::extend')
def _(E, m, a, c0):
    mr = _mapref(E, a[0])
    src = a[1]
    items = _keys(E, Ref(Cell(src))) if isinstance(src, Adt) and src.ty == 'HashMap' else _collect(E, src)
    for k in items: _insert(E, mr, E.deref(k) if isinstance(k, Ref) else k)
    return UNIT
@pattern(r'<.* as Iterator>::flat_map(?:::<.*>)?')
def _(E, m, a, c0):
    out = []
    for x in rest(E, a[0]):
        r = E.call_closure(a[1], [x])
        if isinstance(r, Adt) and r.ty == 'HashMap': out += [e.fields[0] for e in entries_of(r)]
        elif isinstance(r, Seq): out += list(r.fields)
        elif isinstance(r, Adt) and r.ty == 'Option': out += list(r.fields)
        else: out += rest(E, r)
    return mk_iter(out)
@pattern(r'<' + HS + r'<.*> as From<\[.*\]>>::from')
def _(E, m, a, c0):
    s = Cell(hm()); mr = Ref(s)
    for k in a[0].fields: _insert(E, mr, k)
    return s.v
@pattern(r'VecDeque::<.*>::(reserve_exact|reserve|shrink_to_fit)|VecDeque::(reserve_exact|reserve|shrink_to_fit)')
def _(E, m, a, c0): return UNIT
@pattern(r'VecDeque::<.*>::(new|with_capacity)|VecDeque::(new|with_capacity)')
def _(E, m, a, c0): return Seq([])
@pattern(r'(?:std::collections::hash_map::)?Entry::<.*>::(or_insert|or_default)|(?:std::collections::hash_map::)?Entry::(or_insert|or_default)')
def _(E, m, a, c0):
    e = a[0]; op = next(g for g in m.groups() if g)
    if e.variant == 'Occupied':
        mr, i = e.fields[0].fields; c, p = E.canon(mr.cell, list(mr.path) + [0, i, 1]); return Ref(c, p)
    mr, k = e.fields[0].fields; es = entries_of(E.deref(mr))
    E.wr(mr, hm(es + [Tup([k, a[1] if op == 'or_insert' else z3.IntVal(0)])]))
    c, p = E.canon(mr.cell, list(mr.path) + [0, len(es), 1]); return Ref(c, p)
@pattern(HS + r'::remove')
def _(E, m, a, c0):
    mr = _mapref(E, a[0]); i = find(E, mr, a[1])
    if i is None: return z3.BoolVal(False)
    es = entries_of(E.deref(mr)); E.wr(mr, hm(es[:i] + es[i+1:])); return z3.BoolVal(True)
@pattern(HS + r'::iter|<&' + HS + r'<.*> as IntoIterator>::into_iter')
def _(E, m, a, c0): return mk_iter([Ref(Cell(k)) for k in _keys(E, a[0])])
@pattern(r'<' + HS + r'<.*> as IntoIterator>::into_iter')
def _(E, m, a, c0): return mk_iter([e.fields[0] for e in entries_of(a[0])])
@pattern(r'<' + HS + r'<.*> as FromIterator<.*>>::from_iter(?:::<.*>)?')
def _(E, m, a, c0):
    s = Cell(hm()); mr = Ref(s)
    for k in rest(E, a[0]) if not isinstance(a[0], Seq) else list(a[0].fields): _insert(E, mr, E.deref(k) if isinstance(k, Ref) else k)
    return s.v
