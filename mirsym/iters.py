"""Iterator adaptors over concrete-length sequences, evaluated eagerly in order (sound for the code under test: the closures'
side effects are confined to the pipeline that consumes them immediately).  An iterator is Adt('Iter', None, [Seq(items), pos, mode])."""
import re
import z3
from .core import *
from .models import exact, pattern, _iter_of

from .models import PATTERNS, _cache
def pfirst(rx):
    """register with priority over the (more specific, partial) adaptor models in mirsym.models"""
    def deco(f):
        PATTERNS.insert(0, (re.compile(rx), f)); _cache.clear(); return f
    return deco

def mk(items): return Adt('Iter', None, [Seq(list(items)), 0, 'own'])
SYM_RANGE_LIMIT = 3
def rest(E, it, each=None):
    """remaining items of an iterator value (Iter adt, Range adt, Rev/other eager adapters). `each`: a function applied to every item
    as it is produced (adaptors that call a closure pass it, so that a range with symbolic bounds is followed element by element for
    SYM_RANGE_LIMIT elements before the path is given up as not encoded)"""
    it = E.deref(it) if isinstance(it, Ref) else it
    if each is not None:
        if isinstance(it, Adt) and (it.ty == 'Range' or it.ty.endswith('::Range')) and all(z3.is_expr(x) for x in it.fields):
            lo, hi = (z3.simplify(x) for x in it.fields)
            if not (z3.is_int_value(lo) and z3.is_int_value(hi)):
                out = []
                for k in range(SYM_RANGE_LIMIT + 1):
                    if not E.branch(lo + k < hi): return out
                    if k == SYM_RANGE_LIMIT: raise Missing(f'loop over a range with a symbolic bound: more than {SYM_RANGE_LIMIT} iterations')
                    out.append(each(lo + k))
                return out
        return [each(x) for x in rest(E, it)]
    if isinstance(it, Adt) and it.ty == 'Iter': return list(it.fields[0].fields[it.fields[1]:])
    if isinstance(it, Adt) and it.ty == 'PeekChars': return list(it.fields[0].fields[it.fields[1]:])          # a Peekable cursor (strmodels): the items not yet taken
    if isinstance(it, Adt) and (it.ty == 'Range' or it.ty.endswith('::Range')):
        lo, hi = (z3.simplify(x) for x in it.fields)
        if not (z3.is_int_value(lo) and z3.is_int_value(hi)): raise Missing('iterator adaptor over a range with symbolic bounds')
        return [z3.IntVal(k) for k in range(lo.as_long(), hi.as_long())]
    if isinstance(it, Seq): return list(it.fields)
    if isinstance(it, (BoxV, Adt)):
        # a crate iterator (e.g. Box<dyn Stream>): drain it through its own `next` (bounded: an endless stream is not encodable here)
        c = it.cell if isinstance(it, BoxV) else Cell(it)
        out = []
        for _ in range(64):
            o = E.dyn_dispatch('<dyn Iterator as Iterator>::next', [Ref(c, [])])
            if o is NotImplemented: break
            if o.variant == 'None': return out
            out.append(o.fields[0])
        else: raise Missing('draining a crate iterator: more than 64 elements (infinite stream?)')
    raise Missing(f'iterator adaptor over {it!r}'[:200])

IT = r'<(?:.*) as Iterator>::'
@pfirst(IT + r'map')
def _(E, m, a, c0): return mk(rest(E, a[0], each=lambda x: E.call_closure(a[1], [x])))
@pfirst(IT + r'(filter|take_while|skip_while)')
def _(E, m, a, c0):
    out = []; op = m.group(1); skipping = True
    for x in rest(E, a[0]):
        keep = E.branch(E.call_closure(a[1], [Ref(Cell(x))]))
        if op == 'filter':
            if keep: out.append(x)
        elif op == 'take_while':
            if not keep: break
            out.append(x)
        else:
            if skipping and keep: continue
            skipping = False; out.append(x)
    return mk(out)
@pfirst(IT + r'filter_map')
def _(E, m, a, c0):
    out = []
    for x in rest(E, a[0]):
        r = E.call_closure(a[1], [x])
        if r.variant == 'Some': out.append(r.fields[0])
    return mk(out)
@pfirst(IT + r'zip')
def _(E, m, a, c0):
    xs, ys = rest(E, a[0]), rest(E, a[1] if not isinstance(a[1], Ref) or isinstance(E.deref(a[1]), Adt) else _iter_of(E, a[1], 'ref'))
    return mk([Tup([x, y]) for x, y in zip(xs, ys)])
@pfirst(IT + r'rev')
def _(E, m, a, c0): return mk(rest(E, a[0])[::-1])
@pfirst(IT + r'enumerate')
def _(E, m, a, c0): return mk([Tup([z3.IntVal(i), x]) for i, x in enumerate(rest(E, a[0]))])
@pfirst(IT + r'(skip|take|step_by)')
def _(E, m, a, c0):
    xs = rest(E, a[0]); n = z3.simplify(a[1])
    if not z3.is_int_value(n):
        k = E.choose([a[1] == j for j in range(len(xs) + 1)] + [a[1] > len(xs)]); n_ = k      # counts beyond the length behave like the length
    else: n_ = n.as_long()
    if m.group(1) == 'skip': return mk(xs[n_:])
    if m.group(1) == 'take': return mk(xs[:n_])
    return mk(xs[::max(1, n_)])
@pfirst(IT + r'chain')
def _(E, m, a, c0): return mk(rest(E, a[0]) + rest(E, a[1]))
@pfirst(IT + r'(sum|product)')
def _(E, m, a, c0):
    xs = rest(E, a[0])
    if any(not z3.is_expr(x) for x in xs): raise Missing('sum/product over non-integers')
    acc = z3.IntVal(0 if m.group(1) == 'sum' else 1)
    for x in xs: acc = acc + x if m.group(1) == 'sum' else acc * x
    return z3.simplify(acc) if all(z3.is_int_value(z3.simplify(x)) for x in xs) else acc
@pfirst(IT + r'count')
def _(E, m, a, c0): return z3.IntVal(len(rest(E, a[0])))
@pfirst(IT + r'(all|any)')
def _(E, m, a, c0):
    want = m.group(1) == 'any'
    for x in rest(E, a[0]):
        if E.branch(E.call_closure(a[1], [x])) == want: return z3.BoolVal(want)
    return z3.BoolVal(not want)
@pfirst(IT + r'(last|nth|max|min)')
def _(E, m, a, c0):
    xs = rest(E, a[0]); op = m.group(1)
    if op == 'last': return opt(xs[-1]) if xs else opt()
    if op == 'nth':
        n = E.concretize(a[1], 0, len(xs) + 1); return opt(xs[n]) if n < len(xs) else opt()
    # min / max over integers or Option<integer> (derived Ord: None < Some(_)); std: `min` keeps the first of equal minima, `max` the last of equal maxima
    def key(x):
        if z3.is_expr(x): return (1, x)
        if isinstance(x, Adt) and x.ty == 'Option' and (x.variant == 'None' or z3.is_expr(x.fields[0])): return (0, None) if x.variant == 'None' else (1, x.fields[0])
        raise Missing('Iterator::' + op + ' over ' + repr(x)[:60])
    def less(p, q):          # strict order on keys, forking on symbolic integers
        if p[0] != q[0]: return p[0] < q[0]
        if p[0] == 0: return False
        return E.branch(p[1] < q[1])
    if not xs: return opt()
    best = xs[0]
    for x in xs[1:]:
        if op == 'min':
            if less(key(x), key(best)): best = x
        elif not less(key(x), key(best)): best = x
    return opt(best)
@pfirst(IT + r'fold')
def _(E, m, a, c0):
    acc = a[1]
    for x in rest(E, a[0]): acc = E.call_closure(a[2], [acc, x])
    return acc
@pfirst(IT + r'for_each')
def _(E, m, a, c0):
    for x in rest(E, a[0]): E.call_closure(a[1], [x])
    return UNIT
@pfirst(IT + r'collect|<(?:Vec<.*>|Result<Vec<.*>, .*>|Option<Vec<.*>>) as FromIterator<.*>>::from_iter')
def _(E, m, a, c0):
    xs = rest(E, a[0])
    mm = re.search(r'collect::<(.*)>$', c0) or re.search(r'^<(.*) as FromIterator', c0)
    target = mm.group(1) if mm else ''
    def build(items):
        """the collected container: a HashSet / HashMap target deduplicates by the real key equality (association-list model)"""
        inner = re.sub(r'^(?:std::result::)?(?:Result|Option)<', '', target)
        if re.match(r'(?:std::collections::)?(?:hash_set::)?HashSet<', inner):
            from .hashmap import hm, find, entries_of
            c = Cell(hm()); mr = Ref(c)
            for k in items:
                k = E.deref(k) if isinstance(k, Ref) else k
                if find(E, mr, k) is None: E.wr(mr, hm(entries_of(E.deref(mr)) + [Tup([k, UNIT])]))
            return c.v
        if re.match(r'(?:std::collections::)?(?:hash_map::)?HashMap<', inner):
            from .hashmap import hm, find, entries_of
            c = Cell(hm()); mr = Ref(c)
            for kv in items:
                k, v = kv.fields; i = find(E, mr, k); es = entries_of(E.deref(mr))
                E.wr(mr, hm(es + [Tup([k, v])]) if i is None else hm(es[:i] + [Tup([es[i].fields[0], v])] + es[i+1:]))
            return c.v
        return Seq(items)
    if target.startswith('Result<') or target.startswith('std::result::Result<') or (not target and xs and isinstance(xs[0], Adt) and xs[0].ty == 'Result'):
        out = []
        for x in xs:
            if x.variant == 'Err': return x
            out.append(x.fields[0])
        return ok(build(out))
    if target.startswith('Option<'):
        out = []
        for x in xs:
            if x.variant == 'None': return x
            out.append(x.fields[0])
        return opt(build(out))
    return build(xs)
@pfirst(r'<(?:&mut )?(?:impl Iterator<.*>|I|It|T) as Iterator>::next')
def _(E, m, a, c0):
    it = E.deref(a[0])
    if not (isinstance(it, Adt) and it.ty == 'Iter'): return NotImplemented       # a crate iterator: dynamic dispatch handles it
    items, pos = it.fields[0], it.fields[1]
    if pos >= len(items.fields): return opt()
    E.wr(a[0], Adt('Iter', None, [items, pos + 1, it.fields[2]])); return opt(items.fields[pos])
@pfirst(r'<(?:std::iter::|core::iter::)?(?:adapters::\w+::)?(Rev|Map|Filter|FilterMap|Zip|Enumerate|Skip|Take|Chain|Cloned|Copied|StepBy|TakeWhile|SkipWhile)<.*> as (?:Iterator|IntoIterator)>::(next|into_iter)')
def _(E, m, a, c0):
    if m.group(2) == 'into_iter': return a[0]
    it = E.deref(a[0]); items, pos = it.fields[0], it.fields[1]
    if pos >= len(items.fields): return opt()
    E.wr(a[0], Adt('Iter', None, [items, pos + 1, it.fields[2]])); return opt(items.fields[pos])
