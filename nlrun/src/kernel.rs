// Kernel-level replay: call noulith's numeric kernels directly through the public `nnum` module.
// `NInt` lives in a private module, so its values are obtained through `NNum::into_nint()` and used by inference.
use noulith::nnum::NNum;
use num::bigint::BigInt;
use num::complex::Complex64;
use num::BigRational;
use std::collections::hash_map::DefaultHasher;
use std::hash::Hasher;
use std::ops::{Add, BitAnd, BitOr, BitXor, Div, Mul, Neg, Not, Rem, Shl, Shr, Sub};

fn big(s: &str) -> BigInt {
    s.parse::<BigInt>().expect("bad integer")
}

// S<int> | B<int> (big representation, also for small values) | Q<n>/<d> | F<hexbits> | C<hexbits>,<hexbits>
pub fn parse_num(s: &str) -> NNum {
    let (k, rest) = s.split_at(1);
    match k {
        "S" => NNum::from(rest.parse::<i64>().expect("bad i64")),
        "B" => NNum::from(big(rest)).pow(1),
        "Q" => {
            let mut it = rest.split('/');
            let n = big(it.next().unwrap());
            let d = big(it.next().unwrap());
            NNum::from(BigRational::new(n, d))
        }
        "F" => NNum::from(f64::from_bits(u64::from_str_radix(rest, 16).expect("bad bits"))),
        "C" => {
            let mut it = rest.split(',');
            let re = f64::from_bits(u64::from_str_radix(it.next().unwrap(), 16).unwrap());
            let im = f64::from_bits(u64::from_str_radix(it.next().unwrap(), 16).unwrap());
            NNum::from(Complex64::new(re, im))
        }
        _ => panic!("bad numspec"),
    }
}

pub fn show_num(n: &NNum) -> String {
    match n {
        NNum::Int(i) => format!("I:{:?}", i),
        NNum::Rational(r) => format!("Q:{}/{}", r.numer(), r.denom()),
        NNum::Float(f) => format!("F:{:016x}", f.to_bits()),
        NNum::Complex(z) => format!("C:{:016x},{:016x}", z.re.to_bits(), z.im.to_bits()),
    }
}

macro_rules! four {
    ($variant:expr, $x:expr, $y:expr, $m:path) => {
        match $variant {
            "vv" => $m($x, $y),
            "vr" => $m($x, &$y),
            "rv" => $m(&$x, $y),
            "rr" => $m(&$x, &$y),
            _ => panic!("bad variant"),
        }
    };
}

pub fn run(line: &str) -> String {
    let w: Vec<&str> = line.split_whitespace().collect();
    match w[0] {
        "@ast" => {
            // the Debug rendering of what the real parser produces for the rest of the line (consumed by mirsym/astimport.py)
            let code = line["@ast".len()..].trim();
            match noulith::parse(code) {
                Ok(Some(e)) => format!("AST {:?}", e),
                Ok(None) => "AST-EMPTY".to_string(),
                Err(e) => format!("AST-ERR {}", e.render(code)),
            }
        }
        "@nint" => {
            let (op, variant) = (w[1], w[2]);
            let x = parse_num(w[3]).into_nint().expect("int");
            let y = parse_num(w[4]).into_nint().expect("int");
            let r = match op {
                "add" => four!(variant, x, y, Add::add),
                "sub" => four!(variant, x, y, Sub::sub),
                "mul" => four!(variant, x, y, Mul::mul),
                "div" => four!(variant, x, y, Div::div),
                "rem" => four!(variant, x, y, Rem::rem),
                "bitand" => four!(variant, x, y, BitAnd::bitand),
                "bitor" => four!(variant, x, y, BitOr::bitor),
                "bitxor" => four!(variant, x, y, BitXor::bitxor),
                "div_floor" => x.div_floor(&y),
                "mod_floor" => x.mod_floor(&y),
                "gcd" => x.gcd(&y),
                "lcm" => x.lcm(&y),
                _ => panic!("bad op"),
            };
            format!("I:{:?}", r)
        }
        "@nint1" => {
            let op = w[1];
            let x = parse_num(w[2]).into_nint().expect("int");
            match op {
                "neg_v" => format!("I:{:?}", Neg::neg(x)),
                "neg_r" => format!("I:{:?}", Neg::neg(&x)),
                "not_v" => format!("I:{:?}", Not::not(x)),
                "not_r" => format!("I:{:?}", Not::not(&x)),
                "abs" => format!("I:{:?}", x.abs()),
                "signum" => format!("I:{:?}", x.signum()),
                "sign" => format!("{:?}", x.sign()),
                "is_zero" => format!("{}", x.is_zero()),
                "lte" => format!("{}", x.lte(w[3].parse::<i64>().unwrap())),
                "shl" => format!("I:{:?}", Shl::shl(x, w[3].parse::<usize>().unwrap())),
                "shr" => format!("I:{:?}", Shr::shr(x, w[3].parse::<usize>().unwrap())),
                "display" => format!("{} {:x} {:X} {:b} {:o}", x, x, x, x, x),
                _ => panic!("bad op"),
            }
        }
        "@nintrel" => {
            let x = parse_num(w[1]).into_nint().expect("int");
            let y = parse_num(w[2]).into_nint().expect("int");
            let mut h1 = DefaultHasher::new();
            let mut h2 = DefaultHasher::new();
            std::hash::Hash::hash(&x, &mut h1);
            std::hash::Hash::hash(&y, &mut h2);
            format!(
                "eq={} cmp={:?} pcmp={:?} hasheq={}",
                x == y,
                x.cmp(&y),
                x.partial_cmp(&y),
                h1.finish() == h2.finish()
            )
        }
        "@nnum" => {
            let (op, variant) = (w[1], w[2]);
            let x = parse_num(w[3]);
            let y = parse_num(w[4]);
            let r = match op {
                "add" => four!(variant, x, y, Add::add),
                "sub" => four!(variant, x, y, Sub::sub),
                "mul" => four!(variant, x, y, Mul::mul),
                "rem" => four!(variant, x, y, Rem::rem),
                "div" => match variant {
                    "vv" => x / y,
                    _ => &x / &y,
                },
                "div_floor" => x.div_floor(&y),
                "mod_floor" => x.mod_floor(&y),
                "gcd" => x.gcd(&y),
                "lcm" => x.lcm(&y),
                "pow_num" => x.pow_num(&y),
                "bitand" => match variant {
                    "vv" => x & y,
                    _ => &x & &y,
                },
                "bitor" => match variant {
                    "vv" => x | y,
                    _ => &x | &y,
                },
                "bitxor" => match variant {
                    "vv" => x ^ y,
                    _ => &x ^ &y,
                },
                "shl" => x << y,
                "shr" => x >> y,
                "min" => x.min(&y).clone(),
                "max" => x.max(&y).clone(),
                "min_consuming" => x.min_consuming(y),
                "max_consuming" => x.max_consuming(y),
                _ => panic!("bad op"),
            };
            show_num(&r)
        }
        "@nnum1" => {
            let op = w[1];
            let x = parse_num(w[2]);
            let o = |r: Option<NNum>| match r {
                Some(v) => show_num(&v),
                None => "None".to_string(),
            };
            match op {
                "neg_v" => show_num(&-x),
                "neg_r" => show_num(&-&x),
                "not_v" => show_num(&!x),
                "not_r" => show_num(&!&x),
                "abs" => show_num(&x.abs()),
                "signum" => show_num(&x.signum()),
                "floor" => o(x.floor()),
                "ceil" => o(x.ceil()),
                "round" => o(x.round()),
                "trunc" => o(x.trunc()),
                "numerator" => o(x.numerator()),
                "denominator" => o(x.denominator()),
                "is_nonzero" => format!("{}", x.is_nonzero()),
                "is_nan" => format!("{}", x.is_nan()),
                "show" => show_num(&x),
                _ => panic!("bad op"),
            }
        }
        "@nnumrel" => {
            let x = parse_num(w[1]);
            let y = parse_num(w[2]);
            let mut h1 = DefaultHasher::new();
            let mut h2 = DefaultHasher::new();
            x.total_hash(&mut h1);
            y.total_hash(&mut h2);
            format!(
                "eq={} pcmp={:?} total_eq={} hasheq={}",
                x == y,
                x.partial_cmp(&y),
                x.total_eq(&y),
                h1.finish() == h2.finish()
            )
        }
        // index kernels on a slice of zero-sized elements (any length up to isize::MAX costs nothing)
        "@pyindex" => {
            let xs = vec![(); w[1].parse::<usize>().unwrap()];
            match noulith::pythonic_index_isize(&xs, w[2].parse::<isize>().unwrap()) {
                Ok(i) => format!("Ok({})", i),
                Err(_) => "Err".to_string(),
            }
        }
        "@pyclamp" => {
            let xs = vec![(); w[1].parse::<usize>().unwrap()];
            format!("{}", noulith::clamped_pythonic_index(&xs, w[2].parse::<isize>().unwrap()))
        }
        "@pyslice" => {
            let xs = vec![(); w[1].parse::<usize>().unwrap()];
            let p = |s: &str| if s == "_" { None } else { Some(s.parse::<isize>().unwrap()) };
            let (a, b) = noulith::pythonic_slice(&xs, p(w[2]), p(w[3]));
            format!("({}, {})", a, b)
        }
        // @chain <K> <precbits assoc>*K <rel>* : run ChainEvaluator on e0 f0 e1 ... f(K-1) eK with recorder operators.
        // assoc is L|R, precedence is the f64 bit pattern in hex, each rel token `i_j_k:m` says the (merged) operator made of i,j,k chains with operator m
        "@chain" => chain(&w),
        _ => panic!("unknown kernel command"),
    }
}

// ---------------------------------------------------------------------------------------------- ChainEvaluator replay
use noulith::{Assoc, Builtin, ChainEvaluator, Env, Func, NRes, Obj, Precedence, REnv, Rc, RefCell};
use std::collections::HashSet;

#[derive(Debug, Clone)]
struct RecOp {
    name: String, // "op:i_j_k"
    rel: Rc<HashSet<String>>,
}
impl Builtin for RecOp {
    fn run(&self, _env: &REnv, args: Vec<Obj>) -> NRes<Obj> {
        let mut v = vec![Obj::from(self.name.clone())];
        v.extend(args);
        Ok(Obj::list(v))
    }
    fn builtin_name(&self) -> &str {
        &self.name
    }
    fn try_chain(&self, other: &Func) -> Option<Func> {
        match other {
            Func::Builtin(b) => {
                let on = b.builtin_name();
                let key = format!("{}:{}", &self.name[3..], &on[3..]);
                if self.rel.contains(&key) {
                    Some(Func::Builtin(Rc::new(RecOp {
                        name: format!("{}_{}", self.name, &on[3..]),
                        rel: Rc::clone(&self.rel),
                    })))
                } else {
                    None
                }
            }
            _ => None,
        }
    }
}

fn chain(w: &[&str]) -> String {
    let k: usize = w[1].parse().unwrap();
    let mut rel = HashSet::new();
    for t in &w[2 + 2 * k..] {
        rel.insert(t.to_string());
    }
    let rel = Rc::new(rel);
    let env: REnv = Rc::new(RefCell::new(Env::empty()));
    // a CodeLoc value can only be obtained from a parsed expression (the type is not exported)
    let ex = noulith::parse("0").unwrap().unwrap();
    let mut ce = ChainEvaluator::new(Obj::i64(100));
    for i in 0..k {
        let p = f64::from_bits(u64::from_str_radix(w[2 + 2 * i], 16).unwrap());
        let a = if w[3 + 2 * i] == "L" { Assoc::Left } else { Assoc::Right };
        let op = Func::Builtin(Rc::new(RecOp {
            name: format!("op:{}", i),
            rel: Rc::clone(&rel),
        }));
        if let Err(e) = ce.give(&env, op, Precedence(p, a), Obj::i64(101 + i as i64), ex.start, ex.end) {
            return format!("ERR {}", e);
        }
    }
    match ce.finish(&env) {
        Ok(v) => format!("{}", noulith::FmtObj(&v, &noulith::MyFmtFlags::budgeted_repr(usize::MAX))),
        Err(e) => format!("ERR {}", e),
    }
}
