// Replay driver: evaluates noulith programs (one per line on stdin; "\n" inside a line is written as the two
// characters backslash-n preceded by a tab marker, see below) through the public parse/evaluate API and prints one
// result line per program:  OK <repr> | ERR <message> | PARSEERR <message> | EMPTY | PANIC <payload>
// Lines starting with "#TIMEOUT-MS <n>" set a per-program wall clock limit (the program then runs in a thread and
// "HANG" is printed if it does not finish; the process exits afterwards because the thread cannot be killed).
mod kernel;
use noulith::{evaluate, initialize, parse, Env, Rc, RefCell};
use std::io::BufRead;
use std::panic;
use std::sync::mpsc;
use std::time::Duration;

// Allocation meter: total bytes requested from the allocator (alloc + the new size of every realloc).  "#ALLOC <program>" reports
// the bytes requested while the program ran: the observable for hidden copies that wall time does not show (a large realloc may be
// an mremap, which is cheap in time but is still a reallocation of the whole buffer).
use std::alloc::{GlobalAlloc, Layout, System};
use std::sync::atomic::{AtomicU64, Ordering};
struct Meter;
static BYTES: AtomicU64 = AtomicU64::new(0);
unsafe impl GlobalAlloc for Meter {
    unsafe fn alloc(&self, l: Layout) -> *mut u8 {
        BYTES.fetch_add(l.size() as u64, Ordering::Relaxed);
        unsafe { System.alloc(l) }
    }
    unsafe fn alloc_zeroed(&self, l: Layout) -> *mut u8 {
        BYTES.fetch_add(l.size() as u64, Ordering::Relaxed);
        unsafe { System.alloc_zeroed(l) }
    }
    unsafe fn dealloc(&self, p: *mut u8, l: Layout) {
        unsafe { System.dealloc(p, l) }
    }
    unsafe fn realloc(&self, p: *mut u8, l: Layout, new_size: usize) -> *mut u8 {
        BYTES.fetch_add(new_size as u64, Ordering::Relaxed);
        unsafe { System.realloc(p, l, new_size) }
    }
}
#[global_allocator]
static METER: Meter = Meter;

fn run_one(code: String) -> String {
    let r = panic::catch_unwind(move || {
        if code.starts_with('@') {
            return format!("K {}", kernel::run(&code));
        }
        let mut env = Env::empty();
        initialize(&mut env);
        let e = Rc::new(RefCell::new(env));
        match parse(&code) {
            Err(err) => format!("PARSEERR {}", err.render(&code)),
            Ok(None) => "EMPTY".to_string(),
            Ok(Some(ex)) => match evaluate(&e, &ex) {
                Ok(v) => format!("OK {}", noulith::FmtObj(&v, &noulith::MyFmtFlags::budgeted_repr(usize::MAX))),
                Err(err) => format!("ERR {}", err),
            },
        }
    });
    match r {
        Ok(s) => s,
        Err(p) => {
            let msg = if let Some(s) = p.downcast_ref::<String>() {
                s.clone()
            } else if let Some(s) = p.downcast_ref::<&str>() {
                s.to_string()
            } else {
                "?".into()
            };
            format!("PANIC {}", msg)
        }
    }
}

fn oneline(s: &str) -> String {
    let t: String = s.chars().map(|c| if c == '\n' || c == '\r' { ' ' } else { c }).collect();
    if t.starts_with("K AST ") {
        return t; // a parse tree is consumed by a parser on the other side: never truncated
    }
    t.chars().take(4000).collect()
}

fn main() {
    panic::set_hook(Box::new(|_| {}));
    let stdin = std::io::stdin();
    let mut timeout_ms: u64 = 0;
    for line in stdin.lock().lines() {
        let raw = line.unwrap();
        if let Some(rest) = raw.strip_prefix("#TIMEOUT-MS ") {
            timeout_ms = rest.trim().parse().unwrap_or(0);
            continue;
        }
        if let Some(rest) = raw.strip_prefix("#TIMED ") {
            // "T <microseconds> <result>": wall time of one evaluation (used to replay allocation-behaviour counterexamples)
            let code = rest.replace("\\n", "\n");
            let t0 = std::time::Instant::now();
            let r = run_one(code);
            println!("T {} {}", t0.elapsed().as_micros(), oneline(&r));
            continue;
        }
        if let Some(rest) = raw.strip_prefix("#ALLOC ") {
            // "T <bytes requested from the allocator> <result>" (same line shape as #TIMED, the unit is bytes)
            let code = rest.replace("\\n", "\n");
            let b0 = BYTES.load(Ordering::Relaxed);
            let r = run_one(code);
            println!("T {} {}", BYTES.load(Ordering::Relaxed) - b0, oneline(&r));
            continue;
        }
        let code = raw.replace("\\n", "\n");
        if timeout_ms == 0 {
            println!("{}", oneline(&run_one(code)));
        } else {
            let (tx, rx) = mpsc::channel();
            // big stack so that deep recursion is not mistaken for a crash of the driver
            let h = std::thread::Builder::new().stack_size(256 << 20).spawn(move || {
                let _ = tx.send(run_one(code));
            });
            match rx.recv_timeout(Duration::from_millis(timeout_ms)) {
                Ok(s) => println!("{}", oneline(&s)),
                Err(_) => {
                    println!("HANG");
                    use std::io::Write;
                    std::io::stdout().flush().ok();
                    std::process::exit(3);
                }
            }
            drop(h);
        }
    }
}
